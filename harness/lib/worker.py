"""Worker: runs cases of one property through the implementation (PYTHONPATH points at the tree under
examination).  Protocol: JSON cases on stdin, one per line; for each, a line '@@OBS <json>' on stdout."""
import json
import signal
import sys
import traceback


class _Timeout(BaseException):   # BaseException: asyncio callbacks that catch Exception must not swallow the watchdog
    pass


def _alarm(signum, frame):
    raise _Timeout()


def main():
    pid, case_timeout = sys.argv[1], float(sys.argv[2])
    from harness.lib.framework import load_prop

    prop = load_prop(pid)
    real_stdout = sys.stdout
    sys.stdout = sys.stderr  # whatever the implementation prints must not disturb the protocol
    prop.impl_init()
    signal.signal(signal.SIGALRM, _alarm)
    for line in sys.stdin:
        line = line.strip()
        if not line:
            continue
        case = json.loads(line)
        try:
            signal.setitimer(signal.ITIMER_REAL, case_timeout)
            try:
                obs = prop.impl_run(case)
            finally:
                signal.setitimer(signal.ITIMER_REAL, 0)
        except _Timeout:
            obs = {"hang": True}
        except BaseException as e:  # noqa: the harness, not the implementation, failed to contain it
            obs = {"crash": True, "exc": type(e).__name__, "stderr": traceback.format_exc()[-1500:]}
        real_stdout.write("@@OBS " + json.dumps(obs) + "\n")
        real_stdout.flush()


if __name__ == "__main__":
    main()
