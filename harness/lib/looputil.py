"""Thread-safe permutation of an asyncio event loop's ready queue.

The seeded schedule-permuting loops of the harnesses used to do
    items = list(loop._ready); rng.shuffle(items); loop._ready.clear(); loop._ready.extend(items)
in `_run_once`. `call_soon_threadsafe` (aiosqlite's worker thread, executors) appends to that deque from another
thread at any time: a handle appended between `list(...)` and `clear()` was lost, the future it was to resolve
stayed pending for ever, and the case ended in the outer watchdog (seen once at quick seed 0 of C05 on
2026-09-22: two steps waiting for ever on a database insert whose result callback had vanished). `permute_ready`
permutes only the entries present when it starts, in place; anything appended meanwhile stays, untouched, at the
tail. Without a concurrent append the resulting order is exactly that of the old code for the same PRNG state,
so recorded schedule seeds replay as before.
"""


def permute_ready(ready, shuffle):
    n = len(ready)
    if n > 1:
        items = [ready[i] for i in range(n)]
        shuffle(items)
        for i in range(n):
            ready[i] = items[i]
