"""Common machinery of every check: proof obligations, correspondence (implementation vs. Coq model
evaluated by the kernel with vm_compute), property oracle, verdict, evidence.

A property module (harness/props/cXX.py) defines a subclass of Prop.  The main process never imports
StreamFlow; the implementation runs in worker subprocesses with PYTHONPATH=$VERIF_REPO (default /repo),
so the code examined is always the current working tree.
"""
from __future__ import annotations

import glob
import hashlib
import json
import os
import random
import re
import subprocess
import sys
import time
from concurrent.futures import ThreadPoolExecutor

VERIF = os.path.dirname(os.path.dirname(os.path.dirname(os.path.abspath(__file__))))
REPO = os.environ.get("VERIF_REPO", "/repo")
PY = "/venv/bin/python"
COQ_DIR = os.path.join(VERIF, "coq")
BUILD = os.path.join(VERIF, "build")
GUARD = "STREAMFLOW_VERIF"
NCPU = min(16, os.cpu_count() or 4)

FORBIDDEN = re.compile(
    r"\b(Admitted|admit|Axiom|Axioms|Parameter|Parameters|Conjecture|Conjectures|Admit Obligations|"
    r"Unset Guard Checking|Unset Positivity Checking|Unset Universe Checking|bypass_check|"
    r"type-in-type|impredicative-set)\b"
)


# ----------------------------------------------------------------------------------------------
# Coq literals
def coq_str(s) -> str:
    """A Coq term of type string denoting the UTF-8 bytes of s."""
    b = s if isinstance(s, bytes) else s.encode("utf-8", "surrogateescape")
    if all(32 <= c <= 126 for c in b):
        return '"' + b.decode("ascii").replace('"', '""') + '"%string'
    return "(sb [" + ";".join(str(c) for c in b) + "]%N)"


def coq_list(items) -> str:
    return "[" + "; ".join(items) + "]"


def coq_Z(n: int) -> str:
    return f"({n})%Z"


def coq_N(n: int) -> str:
    return f"{n}%N"


def coq_nat(n: int) -> str:
    assert 0 <= n < 5000, "no large nat literals"
    return f"{n}%nat"


def coq_bool(b) -> str:
    return "true" if b else "false"


def coq_opt(x, f) -> str:
    return "None" if x is None else f"(Some {f(x)})"


# ----------------------------------------------------------------------------------------------
class Prop:
    ID = "C00"
    LEVEL = "proof"
    PROPS_FILE = None  # e.g. "Props/C33.v"
    CORR_MODULE = None  # e.g. "Tags.Corr"  (defines ccase, check_case)
    CORR_CHECK = "check_case"
    AXIOM_WHITELIST: tuple = ()
    TRUSTED = ()
    ASSUMPTIONS = ()
    RULE = ""
    LEVEL_TEXT = ""
    LEVEL_NOTE = ""
    TECHNIQUE = "machine-checked proof in Coq over a hand-written model + correspondence check against /repo"
    N = {"quick": 300, "thorough": 3000, "extended": 3000}
    SHARD_TIMEOUT = 600
    CASE_TIMEOUT = 60
    MAX_WORKERS = NCPU
    COQ_SHARD = 400
    CASES_PER_WORKER = 20
    MIN_CORR_FRACTION = 0.25    # at least this share of the cases must reach the Coq model, else the run decides nothing
    DRIFT_FACTOR = 2            # quick tier generates this many times the cases when an anchored file drifted
    SHRINK_BUDGET_S = 150      # wall-clock budget for shrinking per run (0 disables shrinking)
    CONFIRM = True               # re-run an anomalous case once before reporting it (see run_check 4b)
    CONFIRM_MAX_FAILURES = 8     # beyond this many distinct unlisted signatures, report without re-running
    CONFIRM_MAX_MISMATCHES = 40

    # -- to be provided by the property module ------------------------------------------------
    def gen(self, rng: random.Random, tier: str):
        raise NotImplementedError

    def impl_init(self):
        """Called once in the worker before the first case (imports StreamFlow)."""

    def impl_run(self, case):
        """Called in the worker; returns a JSON-able observation."""
        raise NotImplementedError

    def oracle(self, case, obs):
        """None if the observation satisfies the property text, else (clause, message)."""
        return None

    def coq_case(self, case, obs):
        """Gallina term of the Corr module's ccase type, or None if outside the model's domain."""
        return None

    def nontrivial(self, case) -> bool:
        return True

    def signature(self, case, obs, clause) -> str:
        return clause

    def shrink(self, case):
        return []

    def extra_samples(self):
        return []


# ----------------------------------------------------------------------------------------------
def load_prop(pid: str) -> Prop:
    import importlib

    mod = importlib.import_module(f"harness.props.{pid.lower()}")
    return mod.PROP


def _env():
    env = dict(os.environ)
    env["PYTHONPATH"] = REPO + os.pathsep + VERIF
    env["PYTHONHASHSEED"] = "0"
    env[GUARD] = "1"
    env["PYTHONDONTWRITEBYTECODE"] = "1"
    env.setdefault("VERIF_REPO", REPO)
    return env


def run_worker(pid: str, cases: list, timeout: float, case_timeout: float):
    """Runs cases through the implementation in one subprocess; returns list of observations.
    A hang or crash becomes an observation ({"hang":true} / {"crash":..}) of the case being run and
    the remaining cases are run in a fresh worker."""
    out = []
    todo = list(cases)
    while todo:
        p = subprocess.Popen(
            [PY, "-m", "harness.lib.worker", pid, str(case_timeout)],
            stdin=subprocess.PIPE, stdout=subprocess.PIPE, stderr=subprocess.PIPE,
            env=_env(), cwd=VERIF, text=True,
        )
        try:
            so, se = p.communicate("\n".join(json.dumps(c) for c in todo) + "\n", timeout=timeout)
        except subprocess.TimeoutExpired:
            p.kill()
            so, se = p.communicate()
        got = []
        for line in so.splitlines():
            if line.startswith("@@OBS "):
                got.append(json.loads(line[6:]))
        out.extend(got)
        if len(got) >= len(todo):
            break
        # the case after the last answered one killed the worker
        kind = "hang" if p.returncode in (None, -9) else "crash"
        out.append({kind: True, "stderr": (se or "")[-2000:], "rc": p.returncode})
        todo = todo[len(got) + 1:]
    return out


def run_impl(prop: Prop, cases: list):
    if not cases:
        return []
    nshards = max(1, min(prop.MAX_WORKERS, -(-len(cases) // max(1, prop.CASES_PER_WORKER))))
    shards = [cases[i::nshards] for i in range(nshards)]
    with ThreadPoolExecutor(nshards) as ex:
        res = list(ex.map(lambda sh: run_worker(prop.ID, sh, prop.SHARD_TIMEOUT, prop.CASE_TIMEOUT), shards))
    obs = [None] * len(cases)
    for k, r in enumerate(res):
        for j, o in enumerate(r):
            obs[k + j * nshards] = o
    return obs


# ----------------------------------------------------------------------------------------------
def _sh(cmd, timeout, cwd=None):
    try:
        r = subprocess.run(cmd, shell=isinstance(cmd, str), cwd=cwd, timeout=timeout,
                           stdout=subprocess.PIPE, stderr=subprocess.STDOUT, text=True)
        return r.returncode, r.stdout
    except subprocess.TimeoutExpired as e:
        return 124, (e.stdout or "") if isinstance(e.stdout, str) else "timeout"


def build_coq(targets):
    """(Re)build the dependency cone of the given theory files (full .vo compilation, never -vos)."""
    os.makedirs(BUILD, exist_ok=True)
    return _sh([sys.executable, os.path.join(VERIF, "tools", "coqbuild.py")] + list(targets), 3200)


def coqchk(prop):
    modname = "SF." + prop.PROPS_FILE[:-2].replace("/", ".")
    rc, out = _sh(["coqchk", "-silent", "-o", "-Q", os.path.join(COQ_DIR, "theories"), "SF", modname], 3000)
    m = re.search(r"\* Axioms:(.*?)\n\s*\n\* Constants", out, flags=re.S)
    axioms = " ".join(m.group(1).split()) if m else "?"
    bad = rc != 0 or "type-in-type: <none>" not in out or "unsafe (co)fixpoints: <none>" not in out \
        or "positivity is assumed: <none>" not in out
    return {"rc": rc, "axioms": axioms, "ok": not bad, "tail": out[-600:] if bad else ""}


def grep_gate():
    bad = []
    for f in glob.glob(os.path.join(COQ_DIR, "theories", "**", "*.v"), recursive=True):
        txt = open(f, encoding="utf-8").read()
        txt = re.sub(r"\(\*.*?\*\)", " ", txt, flags=re.S)  # comments may mention the words
        for m in FORBIDDEN.finditer(txt):
            bad.append(f"{os.path.relpath(f, COQ_DIR)}: {m.group(0)}")
        # Variable/Hypothesis outside a section
        depth = 0
        for line in txt.splitlines():
            s = line.strip()
            if re.match(r"Section\s+\w+\s*\.", s):
                depth += 1
            elif re.match(r"End\s+\w+\s*\.", s) and depth > 0:
                depth -= 1
            elif depth == 0 and re.match(r"(Variable|Variables|Hypothesis|Hypotheses|Context)\b", s):
                bad.append(f"{os.path.relpath(f, COQ_DIR)}: {s[:40]} outside a Section")
    return bad


def proof_obligations(prop: Prop):
    """Builds Props/Cxx.vo and checks Print Assumptions of each Theorem.  Returns dict."""
    res = {"obligations": 0, "discharged": 0, "theorems": [], "failed": [], "axioms": {}, "log": ""}
    src = os.path.join(COQ_DIR, "theories", prop.PROPS_FILE)
    text = open(src, encoding="utf-8").read()
    names = re.findall(r"^\s*Theorem\s+([A-Za-z0-9_']+)", text, flags=re.M)
    # theorems.json pins the theorem names of every property: a pinned theorem that disappeared is a broken obligation
    pinf = os.path.join(VERIF, "theorems.json")
    pinned = json.load(open(pinf)).get(prop.ID, []) if os.path.exists(pinf) else []
    missing = [n for n in pinned if n not in names]
    res["theorems"] = names
    res["obligations"] = len(names) + len(missing)
    if missing:
        res["failed"] = missing
        res["log"] = f"pinned theorems missing from {prop.PROPS_FILE}: {missing}"
        return res
    gate = grep_gate()
    if gate:
        res["failed"] = names
        res["log"] = "forbidden constructs: " + "; ".join(gate[:10])
        return res
    rc, out = build_coq([prop.PROPS_FILE, prop.CORR_MODULE.replace(".", "/") + ".v"])
    if rc != 0:
        res["failed"] = names
        res["log"] = out[-3000:]
        return res
    d = os.path.join(BUILD, "pa")
    os.makedirs(d, exist_ok=True)
    modname = prop.PROPS_FILE[:-2].replace("/", ".")
    fn = os.path.join(d, f"pa_{prop.ID}_{os.getpid()}.v")
    with open(fn, "w") as f:
        f.write(f"From SF Require Import {modname}.\n")
        for n in names:
            f.write(f'Goal True. idtac "@@THM {n}". Abort.\nPrint Assumptions {n}.\n')
    rc, out = _sh(["coqc", "-Q", os.path.join(COQ_DIR, "theories"), "SF", fn], 600)
    for ext in (".v", ".vo", ".vok", ".vos", ".glob"):
        try:
            os.remove(fn[:-2] + ext)
        except OSError:
            pass
    try:
        os.remove(os.path.join(d, f".pa_{prop.ID}_{os.getpid()}.aux"))
    except OSError:
        pass
    if rc != 0:
        res["failed"] = names
        res["log"] = out[-3000:]
        return res
    chunks = re.split(r"@@THM (\S+)\n", out)
    seen = {}
    for i in range(1, len(chunks), 2):
        seen[chunks[i]] = chunks[i + 1]
    for n in names:
        body = seen.get(n)
        if body is None:
            res["failed"].append(n)
            continue
        if "Closed under the global context" in body:
            res["discharged"] += 1
            res["axioms"][n] = []
            continue
        axs = re.findall(r"^([A-Za-z0-9_.']+)\s*:", body, flags=re.M)
        res["axioms"][n] = axs
        if axs and all(any(a == w or a.endswith("." + w) for w in prop.AXIOM_WHITELIST) for a in axs):
            res["discharged"] += 1
        else:
            res["failed"].append(n)
    res["log"] = out[-1500:] if res["failed"] else ""
    return res


def coq_correspondence(prop: Prop, terms: list[str]):
    """terms: Gallina ccase terms. Returns (list of mismatching indexes, error text or None)."""
    if not terms:
        return [], None
    d = os.path.join(BUILD, "corr")
    os.makedirs(d, exist_ok=True)
    shards = [(i, terms[i:i + prop.COQ_SHARD]) for i in range(0, len(terms), prop.COQ_SHARD)]

    def one(sh):
        base, ts = sh
        fn = os.path.join(d, f"corr_{prop.ID}_{os.getpid()}_{base}.v")
        with open(fn, "w") as f:
            f.write("From Coq Require Import List NArith ZArith String.\n")
            f.write(f"From SF Require Import Base.Str Base.Corr {prop.CORR_MODULE}.\nImport ListNotations.\n")
            f.write("Definition cases : list ccase :=\n [ " + "\n ; ".join(ts) + " ].\n")
            f.write(f"Eval vm_compute in (mismatches {prop.CORR_CHECK} cases).\n")
        rc, out = _sh(["coqc", "-Q", os.path.join(COQ_DIR, "theories"), "SF", fn], 1200)
        keep = rc != 0
        for ext in (".vo", ".vok", ".vos", ".glob") + (() if keep else (".v",)):
            try:
                os.remove(fn[:-2] + ext)
            except OSError:
                pass
        try:
            os.remove(os.path.join(d, "." + os.path.basename(fn)[:-2] + ".aux"))
        except OSError:
            pass
        if rc != 0:
            return None, f"coqc failed on {fn}: {out[-1500:]}"
        flat = " ".join(out.split())
        m = re.search(r"= \[(.*?)\]\s*: list nat", flat)
        if not m:
            return None, f"unparsable coqc output: {flat[-500:]}"
        idx = [int(x.replace("%nat", "")) + base for x in m.group(1).split(";") if x.strip()]
        return idx, None

    bad, err = [], None
    with ThreadPoolExecutor(min(8, len(shards))) as ex:
        for idx, e in ex.map(one, shards):
            if e:
                err = e
            else:
                bad.extend(idx)
    return sorted(bad), err


# ----------------------------------------------------------------------------------------------
def anchor_files(pid):
    for line in open(os.path.join(VERIF, "properties.jsonl")):
        d = json.loads(line)
        if d["id"] == pid:
            return [f for f in d.get("anchors", {}).get("files", []) if f.endswith(".py")]
    return []


def file_digest(path):
    """Digest of the normalised AST (no positions, no docstring/comment differences in layout)."""
    import ast

    try:
        tree = ast.parse(open(path, encoding="utf-8").read())
    except (OSError, SyntaxError) as e:
        return f"unreadable:{type(e).__name__}"
    return hashlib.sha1(ast.dump(tree, annotate_fields=False, include_attributes=False).encode()).hexdigest()


def anchor_drift(pid):
    """Files anchored by the property whose AST differs from the digest recorded in anchors.json
    (recorded on the tree the model was last validated against).  Drift is never a verdict: it only makes
    the quick tier explore more cases (DESIGN.md §1)."""
    fn = os.path.join(VERIF, "anchors.json")
    rec = json.load(open(fn)).get(pid, {}) if os.path.exists(fn) else {}
    out = []
    for f in anchor_files(pid):
        if rec.get(f) != file_digest(os.path.join(REPO, f)):
            out.append(f)
    return out


def load_known(pid):
    known, fixed = [], []
    for fn in [os.path.join(VERIF, "KNOWN_FINDINGS.txt")] + sorted(glob.glob(os.path.join(VERIF, "known", "*.txt"))):
        if not os.path.exists(fn):
            continue
        for line in open(fn):
            line = line.strip()
            m = re.match(r"known:\s+property=(\S+)\s+sig=(\S+)\s+(.*)", line)
            if m and m.group(1) == pid:
                known.append((m.group(2), m.group(3)))
            m = re.match(r"fixed:\s+property=(\S+)\s+(.*)", line)
            if m and m.group(1) == pid:
                fixed.append(m.group(2))
    return known, fixed


def load_corpus(pid):
    out = []
    for fn in sorted(glob.glob(os.path.join(VERIF, "corpus", pid, "*.json"))):
        d = json.load(open(fn))
        cs = d["cases"] if isinstance(d, dict) and "cases" in d else [d.get("case", d)]
        for c in cs:
            out.append(c)
    return out


def canon(x):
    return json.dumps(x, sort_keys=True, separators=(",", ":"))


ALT = os.path.realpath(REPO) != "/repo"   # examining another tree (mutation experiments): keep /verif/evidence clean


def write_replay(pid, seed, n, payload):
    d = os.path.join(BUILD, "alt-replays") if ALT else os.path.join(VERIF, "replays")
    os.makedirs(d, exist_ok=True)
    fn = os.path.join(d, f"{pid}-{seed}-{n}.json" if not ALT else f"{pid}-{seed}-{n}-{os.getpid()}.json")
    json.dump(payload, open(fn, "w"), indent=1, sort_keys=True)
    return fn


_SHRINK_T0 = [None]


def shrink_case(prop, case, clause):
    """Greedy shrinking: keep any candidate on which the oracle still fails with the same clause.
    Bounded by prop.SHRINK_BUDGET_S seconds of wall clock per run (shrinking only makes replays smaller)."""
    cur = case
    cur_obs = None
    if _SHRINK_T0[0] is None:
        _SHRINK_T0[0] = time.time()
    for _ in range(60):
        if time.time() - _SHRINK_T0[0] > prop.SHRINK_BUDGET_S:
            break
        cands = list(prop.shrink(cur))[:40]
        if not cands:
            break
        obs = run_impl(prop, cands)
        for c, o in zip(cands, obs):
            v = prop.oracle(c, o) if o is not None else None
            if v and v[0] == clause:
                cur, cur_obs = c, o
                break
        else:
            break
    return cur, cur_obs


def run_check(pid: str, tier: str, seed: int, replay: str | None = None) -> int:
    t0 = time.time()
    prop = load_prop(pid)
    rng = random.Random(f"{pid}:{seed}")
    known, fixed = load_known(pid)
    lines = []

    if replay:
        rp = json.load(open(replay))
        cases = [rp["case"]] if "case" in rp else rp.get("cases", [])
        obs = run_impl(prop, cases)
        for c, o in zip(cases, obs):
            terms = prop.coq_case(c, o)
            bad, err = coq_correspondence(prop, [terms]) if terms else ([], None)
            print(json.dumps({"case": c, "impl": o, "oracle": prop.oracle(c, o),
                              "model_agrees": (not bad and not err) if terms else None, "coq_error": err},
                             indent=1, sort_keys=True))
        return 0

    # 1. proof obligations
    po = proof_obligations(prop)
    chk = None
    if tier == "thorough" and not po["failed"]:
        chk = coqchk(prop)
        if not chk["ok"]:
            po["failed"] = list(po["theorems"])
            po["discharged"] = 0
            po["log"] = "coqchk: " + chk["tail"]

    # 2. cases
    corpus = load_corpus(pid)
    gen = list(prop.gen(rng, tier))
    drift = anchor_drift(pid)
    if drift and tier == "quick" and prop.DRIFT_FACTOR > 1:
        # the anchored source moved since the model was last validated against it: explore more
        for k in range(1, prop.DRIFT_FACTOR):
            gen.extend(prop.gen(random.Random(f"{pid}:{seed}:drift{k}"), tier))
    cases = corpus + gen
    obs = run_impl(prop, cases)

    # 3. oracle
    failures = []  # (index, clause, msg)
    for i, (c, o) in enumerate(zip(cases, obs)):
        if o is None:
            o = obs[i] = {"crash": True, "stderr": "no observation"}
        v = prop.oracle(c, o)
        if v:
            failures.append((i, v[0], v[1]))

    # 4. correspondence
    terms, tidx, skipped = [], [], 0
    for i, (c, o) in enumerate(zip(cases, obs)):
        t = prop.coq_case(c, o)
        if t is None:
            skipped += 1
        else:
            terms.append(t)
            tidx.append(i)
    bad, cerr = coq_correspondence(prop, terms)
    mism = [tidx[b] for b in bad]

    # 4b. confirmation. An anomaly that does not reproduce when the same case is run again is not a
    # replay (the case carries every random choice, schedule seed included): it is counted and printed
    # as UNCONFIRMED, never reported. Anomalies that do reproduce are reported with the re-run observation.
    unconfirmed = []
    if mism and prop.CONFIRM:
        redo = mism[:prop.CONFIRM_MAX_MISMATCHES]
        robs = run_impl(prop, [cases[i] for i in redo])
        rterms, ridx = [], []
        for i, o in zip(redo, robs):
            t = prop.coq_case(cases[i], o) if o is not None else None
            if t is not None:
                rterms.append(t)
                ridx.append(i)
        rbad, rerr = coq_correspondence(prop, rterms)
        if rerr is None:
            still = {ridx[b] for b in rbad}
            gone = [i for i in redo if i in ridx and i not in still]
            for i in gone:
                unconfirmed.append({"what": "correspondence-mismatch", "case": cases[i], "first_observation": obs[i]})
            mism = [i for i in mism if i not in gone]

    # 5. verdict
    violations = 0
    nrep = 0
    known_hit = {}
    reported_sigs = set()
    nconfirm = 0
    for i, clause, msg in failures:
        sig = prop.signature(cases[i], obs[i], clause)
        k = next((kk for kk in known if kk[0] == sig), None)
        if k:
            known_hit.setdefault(sig, k[1])
            continue
        if sig in reported_sigs:
            continue
        if prop.CONFIRM and nconfirm < prop.CONFIRM_MAX_FAILURES:
            nconfirm += 1
            o2 = run_impl(prop, [cases[i]])[0]
            if o2 is None:
                o2 = {"crash": True, "stderr": "no observation"}
            v2 = prop.oracle(cases[i], o2)
            if not v2:
                unconfirmed.append({"what": "oracle-failure", "signature": sig, "clause": clause, "message": msg[:600],
                                    "case": cases[i], "first_observation": obs[i]})
                continue
            obs[i], clause, msg = o2, v2[0], v2[1]
            sig = prop.signature(cases[i], o2, clause)
            k = next((kk for kk in known if kk[0] == sig), None)
            if k:
                known_hit.setdefault(sig, k[1])
                continue
            if sig in reported_sigs:
                continue
        reported_sigs.add(sig)
        # shrinking re-runs the implementation many times: do it for the first two signatures only
        small, small_obs = shrink_case(prop, cases[i], clause) if nrep < 2 else (cases[i], obs[i])
        fn = write_replay(pid, seed, nrep, {
            "property": pid, "kind": "oracle-failure", "clause": clause, "message": msg, "signature": sig,
            "case": small, "impl_observation": small_obs if small_obs is not None else obs[i],
            "original_case": cases[i], "seed": seed, "tier": tier,
            "how_to_replay": f"./check {pid} --replay <this file>"})
        nrep += 1
        lines.append(f"VIOLATION property={pid} replay={fn}")
        violations += 1
    for sig, txt in known_hit.items():
        lines.append(f"KNOWN-FINDING: property={pid} {txt}")

    broken = []
    if po["failed"]:
        broken.append(("proof", f"theorems no longer checked: {po['failed']}", po["log"]))
    if cerr:
        broken.append(("correspondence-error", cerr, ""))
    # a mismatch on a case whose oracle failure is a listed known finding is expected only if the
    # model mirrors it; models mirror the code as it is, so any mismatch counts
    if mism:
        broken.append(("correspondence", f"{len(mism)} case(s) where model and implementation differ", ""))
    # property-specific floors on judged cases: MIN_JUDGED = fraction (<=1), count, or {kind: count} with judged(case, obs)
    mj = getattr(prop, "MIN_JUDGED", None)
    if isinstance(mj, dict) and hasattr(prop, "judged"):
        cnt = {}
        for c, o in zip(cases, obs):
            for k in (prop.judged(c, o) or []):
                cnt[k] = cnt.get(k, 0) + 1
        scale = 1 if tier == "quick" else 1  # floors are stated for the quick tier; larger tiers exceed them
        short = {k: (cnt.get(k, 0), v) for k, v in mj.items() if cnt.get(k, 0) < v * scale}
        if short:
            broken.append(("coverage", f"too few judged cases (have, need): {short}", ""))
    elif isinstance(mj, (int, float)) and not isinstance(mj, bool):
        need = mj * len(cases) if mj <= 1 else mj
        if len(terms) < need:
            broken.append(("coverage", f"only {len(terms)} of {len(cases)} cases were judged and reached the model "
                                       f"(floor {mj})", ""))
    if prop.CORR_MODULE and len(terms) < prop.MIN_CORR_FRACTION * max(1, len(cases)):
        broken.append(("coverage", f"only {len(terms)} of {len(cases)} cases reached the model "
                                   f"(floor {prop.MIN_CORR_FRACTION:.0%}): the run decides nothing", ""))
    ext_eval = 0
    if broken and violations == 0:
        # extended search for a concrete failing input on the implementation
        ext = list(prop.gen(random.Random(f"{pid}:{seed}:ext"), "extended"))
        for i in mism[:20]:
            ext.extend(list(prop.shrink(cases[i]))[:20])
        eobs = run_impl(prop, ext)
        ext_eval = len(ext)
        found = None
        for c, o in zip(ext, eobs):
            if o is None:
                continue
            v = prop.oracle(c, o)
            if v:
                sig = prop.signature(c, o, v[0])
                if not any(kk[0] == sig for kk in known):
                    found = (c, o, v)
                    break
        if found:
            c, o, v = found
            small, small_obs = shrink_case(prop, c, v[0])
            fn = write_replay(pid, seed, nrep, {
                "property": pid, "kind": "oracle-failure", "clause": v[0], "message": v[1],
                "signature": prop.signature(c, o, v[0]), "case": small,
                "impl_observation": small_obs if small_obs is not None else o, "original_case": c,
                "broken": [b[:2] for b in broken], "seed": seed, "tier": tier})
            lines.append(f"VIOLATION property={pid} replay={fn}")
        else:
            fn = write_replay(pid, seed, nrep, {
                "property": pid, "kind": "no-longer-shown",
                "broken": [{"what": b[0], "detail": b[1], "log": b[2][-2000:]} for b in broken],
                "disagreeing_cases": [{"case": cases[i], "impl_observation": obs[i],
                                       "model_term": prop.coq_case(cases[i], obs[i])} for i in mism[:5]],
                "searched": ext_eval, "seed": seed, "tier": tier})
            lines.append(f"VIOLATION property={pid} replay={fn} no-failing-input-found")
        violations += 1

    # 6. evidence
    distinct = {}
    for c in cases:
        if prop.nontrivial(c):
            distinct[hashlib.sha1(canon(c).encode()).hexdigest()] = 1
    dist = {}
    for c in cases:
        k = str(c.get("f", c.get("kind", "case"))) if isinstance(c, dict) else "case"
        dist[k] = dist.get(k, 0) + 1
    samples = [{"case": cases[i], "impl_observation": obs[i]} for i in
               sorted(set([0, len(corpus), len(cases) // 2, len(cases) - 1]) & set(range(len(cases))))]
    cov = {
        "obligations": po["obligations"], "discharged": po["discharged"],
        "checker_cmd": f"/verif/tools/coqbuild.py {prop.PROPS_FILE}  # full coqc of the dependency cone; then coqc of "
                       f"'Print Assumptions <thm>' for each of: " + ", ".join(po["theorems"]),
        "trusted_base": list(prop.TRUSTED) + [
            "Coq 8.16.1 kernel (coqc, vm_compute for the correspondence evaluation; no native_compute)",
            "axioms per theorem (Print Assumptions): " + (
                "all closed under the global context" if all(not a for a in po["axioms"].values())
                else json.dumps(po["axioms"])),
            "correspondence harness (Python generators, drivers, oracles) ties the hand-written model to /repo",
        ],
        "theorems": po["theorems"],
        "evaluations": len(cases), "distinct_nontrivial": len(distinct), "rule": prop.RULE,
        "samples": samples + list(prop.extra_samples()),
        "corpus_cases": len(corpus), "generated_cases": len(gen),
        "correspondence_cases": len(terms), "correspondence_mismatches": len(mism),
        "outside_model_domain": skipped, "oracle_failures": len(failures),
        "known_findings_hit": sorted(known_hit), "extended_search_cases": ext_eval,
        "unconfirmed_anomalies": len(unconfirmed), "unconfirmed_samples": unconfirmed[:3],
        "input_distribution": dist, "repo": REPO, "anchor_drift": drift,
        "programs": len(cases), "disagreements_checked": len(mism) + len(failures),
    }
    if chk:
        cov["coqchk"] = {"cmd": "coqchk -silent -o -Q theories SF SF." + prop.PROPS_FILE[:-2].replace("/", "."),
                         "axioms": chk["axioms"], "ok": chk["ok"]}
    ev = {"property_id": pid, "tier": tier, "seed": seed, "level": prop.LEVEL, "coverage": cov,
          "assumptions": list(prop.ASSUMPTIONS), "wall_s": round(time.time() - t0, 2),
          "violations": violations}
    evdir = os.path.join(BUILD, "alt-evidence") if ALT else os.path.join(VERIF, "evidence")
    os.makedirs(evdir, exist_ok=True)
    json.dump(ev, open(os.path.join(evdir, f"{pid}.json"), "w"), indent=1, sort_keys=True)

    for ln in lines:
        print(ln)
    for u in unconfirmed[:10]:
        print(f"UNCONFIRMED {pid}: {u['what']} {u.get('signature', '')} seen once, gone when the same case was run "
              f"again (not reported; counted in evidence)")
    if cerr:
        print(f"CORRESPONDENCE-ERROR {pid}: the model could not be evaluated on the cases: {cerr[:600]}")
    if po["failed"]:
        print(f"PROOF-ERROR {pid}: {po['failed']} {po['log'][-600:]}")
    print(f"{pid} {tier}: theorems {po['discharged']}/{po['obligations']}, cases {len(cases)} "
          f"(corr {len(terms)}, mismatches {len(mism)}), oracle failures {len(failures)}, "
          f"known {len(known_hit)}, violations {violations}, {ev['wall_s']}s")
    return 1 if violations else 0


def main(argv):
    import argparse

    ap = argparse.ArgumentParser()
    ap.add_argument("prop")
    ap.add_argument("--tier", default=os.environ.get("VERIF_TIER") or "quick")
    ap.add_argument("--seed", type=int, default=int(os.environ.get("VERIF_SEED") or 0))
    ap.add_argument("--replay")
    a = ap.parse_args(argv)
    if a.tier not in ("quick", "thorough"):
        a.tier = "quick"
    return run_check(a.prop.upper(), a.tier, a.seed, a.replay)


if __name__ == "__main__":
    sys.exit(main(sys.argv[1:]))
