"""C31: extract the CWL expressions found in real workflow files into corpus/C31/realworld.json.

  /venv/bin/python -m harness.props.c31_extract            (from /verif; rewrites the corpus file)

Sources: every *.cwl under /repo (tests, examples, docs) -> src "repo:<path>"; and, as a larger sample of expressions
written by other people, cwltool/tests + cwl_utils/testdata shipped in /venv -> src "pkg:<path>" (capped, seeded choice).
Every YAML string scalar containing "$(" or "${" is one case {"f": "realworld", "text": .., "lib_text": [expressionLib of
the same document], "src": .., "parts": .., "lib": ..}.  "parts"/"lib" are the translation of the text into the AST of
JsDeps/Model.v by a small recursive-descent parser of exactly that ES5 subset, or null when the expression uses
anything outside it (method calls on literals are fine, but object/array literals, loops, operators other than +, ?:,
regexes, `new`, ... are not): such cases are still run on the real code and judged by the oracle, but are outside
the model and therefore outside every proved fragment.
"""
import glob
import json
import os
import random
import re
import sys

import yaml

PARAM_RE = re.compile(r"""^\((\w+)((?:\.\w+|\['(?:[^']|\\')+'\]|\["(?:[^"]|\\")+"\]|\[[0-9]+\])*)\)$""")
SEG_RE = re.compile(r"""\.(\w+)|\['((?:[^']|\\')+)'\]|\["((?:[^"]|\\")+)"\]|\[([0-9]+)\]""")
TOK = re.compile(r"""\s*(?:(\d+)(?![\w.])|([A-Za-z_$][\w$]*)|'([^'\\\n]*)'|"([^"\\\n]*)"|([.\[\]()+?:=,;{}]))""")
KEYWORDS = {"var", "function", "return", "if", "else", "true", "false"}
JS_RESERVED = set("break do instanceof typeof case new catch finally void continue for switch while debugger this with "
                  "default throw delete in try class enum extends super const export import implements let private "
                  "public interface package protected static yield null undefined".split())
OPS = ["===", "!==", "==", "!=", "<=", ">=", "&&", "||", "++", "--", "+=", "-=", "<", ">", "*", "/", "-", "%", "!", "&", "|", "~", "^"]


def classify(msg):
    """The syntactic feature that keeps an expression outside the modelled ES5 subset."""
    m = msg.strip()
    if m.startswith("/*") or m.startswith("//"):
        return "comment"
    for op in OPS:
        if m.startswith(op):
            return "operator other than + and ?: (" + op + ")"
    if m.startswith("keyword "):
        return "statement/keyword outside the subset (" + m[8:] + ")"
    if m in ("('p', '{')", "block / object literal"):
        return "object literal"
    if m == "('p', '[')":
        return "array literal"
    if m.startswith("'") or m.startswith('"') or "escape" in m:
        return "string literal with escapes / backslash in text"
    if m[:1].isdigit() or m.startswith("."):
        return "non-integer number literal"
    if m == "parenthesisation":
        return "parenthesisation"
    if m == "non-ascii":
        return "non-ASCII text"
    if m.startswith("library"):
        return "expressionLib with statements other than function declarations"
    return "other: " + m[:20]


class NoParse(Exception):
    pass


class P:
    def __init__(self, text):
        self.toks = []
        i = 0
        text = text.rstrip()
        while i < len(text):
            m = TOK.match(text, i)
            if not m:
                if text[i:].strip() == "":
                    break
                raise NoParse(text[i:i + 10])
            if m.group(1) is not None:
                self.toks.append(("num", int(m.group(1))))
            elif m.group(2) is not None:
                w = m.group(2)
                self.toks.append(("kw", w) if w in KEYWORDS else ("id", w))
            elif m.group(3) is not None:
                self.toks.append(("str", False, m.group(3)))
            elif m.group(4) is not None:
                self.toks.append(("str", True, m.group(4)))
            else:
                self.toks.append(("p", m.group(5)))
            i = m.end()
        self.i = 0

    def peek(self, k=0):
        return self.toks[self.i + k] if self.i + k < len(self.toks) else ("eof",)

    def isp(self, c, k=0):
        return self.peek(k) == ("p", c)

    def iskw(self, w):
        return self.peek() == ("kw", w)

    def eat(self, c):
        if not self.isp(c):
            raise NoParse(f"expected {c}")
        self.i += 1

    def ident(self):
        t = self.peek()
        if t[0] != "id":
            raise NoParse("ident")
        self.i += 1
        return t[1]

    # expressions
    def assign(self):
        if self.peek()[0] == "id" and self.isp("=", 1) and not self.isp("=", 2):
            x = self.ident()
            self.eat("=")
            return ["assign", x, self.assign()]
        return self.cond()

    def cond(self):
        c = self.add()
        if self.isp("?"):
            self.eat("?")
            a = self.assign()
            self.eat(":")
            b = self.assign()
            return ["cond", c, a, b]
        return c

    def add(self):
        a = self.postfix()
        while self.isp("+"):
            self.eat("+")
            if self.isp("+") or self.isp("="):
                raise NoParse("++ / +=")
            a = ["add", a, self.postfix()]
        return a

    def postfix(self):
        e = self.primary()
        while True:
            if self.isp("."):
                self.eat(".")
                t = self.peek()
                if t[0] not in ("id", "kw"):
                    raise NoParse("field")
                self.i += 1
                e = ["dot", e, t[1]]
            elif self.isp("["):
                self.eat("[")
                k = self.assign()
                self.eat("]")
                e = ["idx", e, k]
            elif self.isp("("):
                self.eat("(")
                args = []
                while not self.isp(")"):
                    args.append(self.assign())
                    if self.isp(","):
                        self.eat(",")
                self.eat(")")
                e = ["call", e, args]
            else:
                return e

    def primary(self):
        t = self.peek()
        if t[0] == "num":
            self.i += 1
            return ["num", t[1]]
        if t[0] == "str":
            self.i += 1
            return ["str", t[1], t[2]]
        if t == ("kw", "true") or t == ("kw", "false"):
            self.i += 1
            return ["bool", t[1] == "true"]
        if t[0] == "id":
            if t[1] in JS_RESERVED:
                raise NoParse("keyword " + t[1])
            self.i += 1
            return ["id", t[1]]
        if self.isp("("):
            self.eat("(")
            e = self.assign()
            self.eat(")")
            return ["paren", e]
        if t == ("kw", "function"):
            self.i += 1
            ps, body = self.fun_rest()
            return ["fun", ps, body]
        raise NoParse(str(t))

    def fun_rest(self):
        self.eat("(")
        ps = []
        while not self.isp(")"):
            ps.append(self.ident())
            if self.isp(","):
                self.eat(",")
        self.eat(")")
        return ps, self.block()

    def block(self):
        self.eat("{")
        out = []
        while not self.isp("}"):
            out.extend(self.stmt())
        self.eat("}")
        return out

    def semi(self):
        if self.isp(";"):
            self.eat(";")
        elif not (self.isp("}") or self.peek()[0] == "eof"):
            raise NoParse("missing ;")

    def stmt(self):
        if self.isp(";"):
            self.eat(";")
            return []
        if self.iskw("var"):
            self.i += 1
            out = []
            while True:
                x = self.ident()
                if self.isp("="):
                    self.eat("=")
                    out.append(["vari", x, self.assign()])
                else:
                    out.append(["var", x])
                if self.isp(","):
                    self.eat(",")
                    continue
                break
            self.semi()
            return out
        if self.iskw("return"):
            self.i += 1
            e = self.assign()
            self.semi()
            return [["ret", e]]
        if self.iskw("if"):
            self.i += 1
            self.eat("(")
            c = self.assign()
            self.eat(")")
            t = self.block() if self.isp("{") else self.stmt()
            f = []
            if self.iskw("else"):
                self.i += 1
                f = self.block() if self.isp("{") else self.stmt()
            return [["if", c, t, f]]
        if self.iskw("function"):
            self.i += 1
            name = self.ident()
            ps, body = self.fun_rest()
            return [["fun", name, ps, body]]
        if self.isp("{"):
            raise NoParse("block / object literal")
        e = self.assign()
        self.semi()
        return [["expr", e]]

    def done(self):
        if self.peek()[0] != "eof":
            raise NoParse("trailing " + str(self.peek()))


def parse_expr(src):
    p = P(src)
    e = p.assign()
    p.done()
    return e


def parse_body(src):
    p = P(src)
    out = []
    while p.peek()[0] != "eof":
        out.extend(p.stmt())
    return out


def split_parts(text):
    """The parts of an interpolated string (cwl_utils' scanner; whitespace stripped as interpolate does)."""
    from cwl_utils.expression import scanner

    scan = text.strip()
    parts = []
    w = scanner(scan)
    while w:
        if scan[w[0]] != "$":
            raise NoParse("backslash escape")
        if w[0] > 0:
            parts.append(["text", scan[:w[0]]])
        ex = scan[w[0] + 1:w[1]]
        if ex[0] == "{":
            parts.append(["js", parse_body(ex[1:-1])])
        else:
            m = PARAM_RE.match(ex)
            if m:
                segs = []
                for g in SEG_RE.finditer(m.group(2)):
                    if g.group(1) is not None:
                        segs.append(["dot", g.group(1)])
                    elif g.group(2) is not None:
                        segs.append(["sq", g.group(2)])
                    elif g.group(3) is not None:
                        segs.append(["dq", g.group(3)])
                    else:
                        segs.append(["idx", int(g.group(4))])
                parts.append(["ref", m.group(1), segs])
            else:
                parts.append(["jsx", parse_expr(ex[1:-1])])
        scan = scan[w[1]:]
        w = scanner(scan)
    if scan:
        parts.append(["text", scan])
    for p in parts:
        if p[0] == "text" and ("$" in p[1] or "\\" in p[1]):
            raise NoParse("text with $ or backslash")
    return parts


def walk(doc, strings, libs):
    if isinstance(doc, dict):
        if doc.get("class") == "InlineJavascriptRequirement" and isinstance(doc.get("expressionLib"), list):
            libs.extend(x for x in doc["expressionLib"] if isinstance(x, str))
        if "InlineJavascriptRequirement" in doc and isinstance(doc["InlineJavascriptRequirement"], dict):
            el = doc["InlineJavascriptRequirement"].get("expressionLib")
            if isinstance(el, list):
                libs.extend(x for x in el if isinstance(x, str))
        for k, v in doc.items():
            if k == "expressionLib":
                continue
            walk(v, strings, libs)
    elif isinstance(doc, list):
        for v in doc:
            walk(v, strings, libs)
    elif isinstance(doc, str) and ("$(" in doc or "${" in doc):
        strings.append(doc)


def extract(files, tag, root):
    out = []
    for fn in files:
        try:
            doc = yaml.safe_load(open(fn, encoding="utf-8"))
        except Exception:  # noqa: BLE001
            continue
        strings, libs = [], []
        walk(doc, strings, libs)
        for s in strings:
            out.append({"text": s, "lib_text": libs, "src": f"{tag}:{os.path.relpath(fn, root)}"})
    return out


def translate(c):
    ascii_ok = all(32 <= ord(ch) < 127 or ch in "\n\t" for ch in c["text"] + "".join(c["lib_text"]))
    try:
        if not ascii_ok:
            raise NoParse("non-ascii")
        parts = split_parts(c["text"])
        lib = []
        for lt in c["lib_text"]:
            lib.extend(parse_body(lt))
        if any(s[0] != "fun" for s in lib):
            raise NoParse("library with statements other than function declarations")
        return parts, lib, None
    except NoParse as e:
        return None, None, classify(str(e))
    except Exception as e:  # noqa: BLE001  (scanner errors etc.)
        return None, None, type(e).__name__


def main():
    from harness.props.c31 import normalise

    repo = sorted(glob.glob("/repo/**/*.cwl", recursive=True))
    pk = "/venv/lib/python3.12/site-packages"
    pkg = sorted(glob.glob(pk + "/cwltool/tests/**/*.cwl", recursive=True) +
                 glob.glob(pk + "/cwl_utils/testdata/**/*.cwl", recursive=True))
    a = extract(repo, "repo", "/repo")
    b = extract(pkg, "pkg", pk)
    seen, cases = set(), []
    rng = random.Random("C31:realworld")
    rng.shuffle(b)
    for c in a + b:
        key = (c["text"], tuple(c["lib_text"]))
        if key in seen or len(c["text"]) > 600 or sum(map(len, c["lib_text"])) > 1500:
            continue
        seen.add(key)
        if c["src"].startswith("pkg:") and sum(1 for x in cases if x["src"].startswith("pkg:")) >= 160:
            continue
        parts, lib, why = translate(c)
        case = {"f": "realworld", "text": c["text"], "lib_text": c["lib_text"], "src": c["src"],
                "parts": None, "lib": None, "why_not_modelled": why}
        if parts is not None:
            n = normalise({"f": "realworld", "lib": lib, "parts": parts})
            if n["parts"] == parts and n["lib"] == lib:
                case["parts"], case["lib"] = parts, lib
            else:                           # the printed form would need parentheses the text does not have
                case["why_not_modelled"] = "parenthesisation"
        cases.append(case)
    json.dump({"cases": cases}, open(os.path.join(os.path.dirname(__file__), "..", "..", "corpus", "C31",
                                                  "realworld.json"), "w"), indent=0)
    nrepo = sum(1 for c in cases if c["src"].startswith("repo:"))
    print(len(cases), "cases;", nrepo, "from /repo;", sum(1 for c in cases if c["parts"] is not None), "translated")


if __name__ == "__main__":
    sys.exit(main())
