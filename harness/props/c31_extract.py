"""C31: extract the CWL expressions found in real workflow files into corpus/C31/realworld.json.

  /venv/bin/python -m harness.props.c31_extract            (from /verif; rewrites the corpus file)

Sources: every *.cwl under /repo (tests, examples, docs) -> src "repo:<path>"; and, as a larger sample of expressions
written by other people, cwltool/tests + cwl_utils/testdata shipped in /venv -> src "pkg:<path>" (capped, seeded choice).
Every YAML string scalar containing "$(" or "${" is one case {"f": "realworld", "text": .., "lib_text": [expressionLib of
the same document], "src": .., "parts": .., "lib": ..}.  "parts"/"lib" are the translation of the text into the AST of
JsDeps/Model.v by a small recursive-descent parser of exactly that ES5 subset, or null when the expression uses
anything outside it (method calls on literals are fine, but object/array literals, loops, operators other than +, ?:,
regexes, `new`, ... are not): such cases are still run on the real code and judged by the oracle, but are outside
the model and therefore outside every proved fragment.
"""
import glob
import json
import os
import random
import re
import sys

import yaml

PARAM_RE = re.compile(r"""^\((\w+)((?:\.\w+|\['(?:[^']|\\')+'\]|\["(?:[^"]|\\")+"\]|\[[0-9]+\])*)\)$""")
SEG_RE = re.compile(r"""\.(\w+)|\['((?:[^']|\\')+)'\]|\["((?:[^"]|\\")+)"\]|\[([0-9]+)\]""")
OPS3 = ["===", "!==", "==", "!=", "<=", ">=", "&&", "||", "++", "--", "+=", "-=", "*=", "/="]
TOK = re.compile(r"""\s*(?:/\*.*?\*/|//[^\n]*)|\s*(?:(\d+)(?![\w.])|([A-Za-z_$][\w$]*)|'((?:[^'\\\n]|\\.)*)'|"((?:[^"\\\n]|\\.)*)"|"""
                 r"""(===|!==|==|!=|<=|>=|&&|\|\||\+\+|--|\+=|-=|\*=|/=|[.\[\]()+?:=,;{}<>*/%!-]))""", re.S)
KEYWORDS = {"var", "function", "return", "if", "else", "true", "false", "null", "for", "while", "throw", "typeof"}
JS_RESERVED = set("break do instanceof case new catch finally void continue switch debugger this with "
                  "default delete in try class enum extends super const export import implements let private "
                  "public interface package protected static yield undefined".split())
ESC_OK = re.compile(r"""^(?:[^\\]|\\[\\'"nt/])*$""")


def classify(msg):
    """The syntactic feature that keeps an expression outside the modelled ES5 subset."""
    m = msg.strip()
    if m.startswith("keyword "):
        return "keyword outside the subset (" + m[8:] + ")"
    if m.startswith("feature "):
        return m[8:]
    if m[:1].isdigit() or m.startswith("."):
        return "non-integer number literal"
    if m == "non-ascii":
        return "non-ASCII text"
    if m.startswith("library"):
        return "expressionLib with statements other than function declarations"
    return "other: " + m[:24]


class NoParse(Exception):
    pass


BIN_LEVELS = [["||"], ["&&"], ["===", "!==", "==", "!="], ["<", ">", "<=", ">="], ["+", "-"], ["*", "/", "%"]]


class P:
    def __init__(self, text):
        self.toks = []
        i = 0
        text = text.rstrip()
        rx = re.compile(r"\s*/((?:[^/\\\n*]|\\.)(?:[^/\\\n]|\\.)*)/([gimuy]*)")
        while i < len(text):
            prev = self.toks[-1] if self.toks else None
            if prev is None or (prev[0] == "p" and prev[1] not in (")", "]", "}")) or prev == ("kw", "return"):
                mr = rx.match(text, i)
                if mr:                          # a regular-expression literal: an opaque non-inputs value
                    self.toks.append(("regex", mr.group(0).strip()))
                    i = mr.end()
                    continue
            m = TOK.match(text, i)
            if not m or m.end() == i:
                if text[i:].strip() == "":
                    break
                raise NoParse(text[i:].strip()[:10])
            if m.group(1) is not None:
                self.toks.append(("num", int(m.group(1))))
            elif m.group(2) is not None:
                w = m.group(2)
                self.toks.append(("kw", w) if w in KEYWORDS else ("id", w))
            elif m.group(3) is not None or m.group(4) is not None:
                raw = m.group(3) if m.group(3) is not None else m.group(4)
                if not ESC_OK.match(raw):
                    raise NoParse("feature string escape other than \\\\ \\' \\\" \\n \\t \\/")
                if "\\" in raw:
                    # the model's string literal carries its VALUE; the listener only ever looks at the text of a literal
                    # used as an index on an identifier, which postfix() refuses for escaped literals
                    val = re.sub(r"\\(.)", lambda mm: {"n": "\n", "t": "\t"}.get(mm.group(1), mm.group(1)), raw)
                    self.toks.append(("str", m.group(4) is not None, val, True))
                else:
                    self.toks.append(("str", m.group(4) is not None, raw))
            elif m.group(5) is not None:
                self.toks.append(("p", m.group(5)))
            i = m.end()
        self.i = 0

    def peek(self, k=0):
        return self.toks[self.i + k] if self.i + k < len(self.toks) else ("eof",)

    def isp(self, c, k=0):
        return self.peek(k) == ("p", c)

    def iskw(self, w):
        return self.peek() == ("kw", w)

    def eat(self, c):
        if not self.isp(c):
            raise NoParse(f"expected {c} got {self.peek()}")
        self.i += 1

    def ident(self):
        t = self.peek()
        if t[0] != "id" or t[1] in JS_RESERVED:
            raise NoParse("keyword " + str(t[1]) if t[0] == "id" else "ident")
        self.i += 1
        return t[1]

    # expressions
    def assign(self):
        if self.peek()[0] == "id" and self.peek(1)[0] == "p" and self.peek(1)[1] in ("=", "+=", "-=", "*=", "/="):
            x = self.ident()
            op = self.peek()[1]
            self.i += 1
            r = self.assign()
            if op == "=":
                return ["assign", x, r]
            if op == "+=":
                return ["assign", x, ["add", ["id", x], r]]
            return ["assign", x, ["op", op[0], [["id", x], r]]]
        e = self.cond()
        if self.isp("=") and e[0] in ("dot", "idx"):
            self.eat("=")
            return ["assignm", e, self.assign()]
        if self.peek()[0] == "p" and self.peek()[1] in ("+=", "-=", "*=", "/="):
            raise NoParse("feature compound assignment to a member")
        return e

    def cond(self):
        c = self.binary(0)
        if self.isp("?"):
            self.eat("?")
            a = self.assign()
            self.eat(":")
            b = self.assign()
            return ["cond", c, a, b]
        return c

    def binary(self, lvl):
        if lvl == len(BIN_LEVELS):
            return self.unary()
        a = self.binary(lvl + 1)
        while self.peek()[0] == "p" and self.peek()[1] in BIN_LEVELS[lvl]:
            op = self.peek()[1]
            self.i += 1
            b = self.binary(lvl + 1)
            if op == "+":
                a = ["add", a, b]
            elif op in ("&&", "||"):
                a = ["logic", op == "&&", a, b]
            else:
                a = ["op", op, [a, b]]
        return a

    def unary(self):
        if self.isp("!"):
            self.eat("!")
            return ["op", "!", [self.unary()]]
        if self.isp("-"):
            self.eat("-")
            return ["op", "neg", [self.unary()]]
        if self.iskw("typeof"):
            self.i += 1
            return ["op", "typeof", [self.unary()]]
        if self.isp("++") or self.isp("--"):
            raise NoParse("feature prefix increment")
        e = self.postfix()
        if self.isp("++") or self.isp("--"):
            raise NoParse("feature ++/-- used as a value")
        return e

    def postfix(self):
        e = self.primary()
        while True:
            if self.isp("."):
                self.eat(".")
                t = self.peek()
                if t[0] not in ("id", "kw"):
                    raise NoParse("field")
                self.i += 1
                e = ["dot", e, t[1]]
            elif self.isp("["):
                self.eat("[")
                if self.peek()[0] == "str" and len(self.peek()) == 4 and e[0] == "id":
                    raise NoParse("feature escaped string literal as index on an identifier")
                k = self.assign()
                self.eat("]")
                e = ["idx", e, k]
            elif self.isp("("):
                self.eat("(")
                args = []
                while not self.isp(")"):
                    args.append(self.assign())
                    if self.isp(","):
                        self.eat(",")
                self.eat(")")
                e = ["call", e, args]
            else:
                return e

    def primary(self):
        t = self.peek()
        if t[0] == "num":
            self.i += 1
            return ["num", t[1]]
        if t[0] == "str":
            self.i += 1
            return ["str", t[1], t[2]]
        if t == ("kw", "true") or t == ("kw", "false"):
            self.i += 1
            return ["bool", t[1] == "true"]
        if t == ("kw", "null"):
            self.i += 1
            return ["op", "null", []]
        if t[0] == "regex":
            self.i += 1
            return ["op", "regex", [], [t[1]]]
        if t[0] == "id":
            if t[1] in JS_RESERVED:
                raise NoParse("keyword " + t[1])
            self.i += 1
            return ["id", t[1]]
        if self.isp("("):
            self.eat("(")
            e = self.assign()
            self.eat(")")
            return ["paren", e]
        if self.isp("["):
            self.eat("[")
            xs = []
            while not self.isp("]"):
                xs.append(self.assign())
                if self.isp(","):
                    self.eat(",")
            self.eat("]")
            return ["op", "arr", xs]
        if self.isp("{"):
            self.eat("{")
            keys, vals = [], []
            while not self.isp("}"):
                k = self.peek()
                if k[0] in ("id", "kw"):
                    keys.append(k[1])
                elif k[0] == "str":
                    keys.append(k[2])
                elif k[0] == "num":
                    keys.append(str(k[1]))
                else:
                    raise NoParse("object key")
                self.i += 1
                self.eat(":")
                vals.append(self.assign())
                if self.isp(","):
                    self.eat(",")
            self.eat("}")
            return ["op", "obj", vals, keys]
        if t == ("kw", "function"):
            self.i += 1
            ps, body = self.fun_rest()
            return ["fun", ps, body]
        raise NoParse(str(t))

    def fun_rest(self):
        self.eat("(")
        ps = []
        while not self.isp(")"):
            ps.append(self.ident())
            if self.isp(","):
                self.eat(",")
        self.eat(")")
        return ps, self.block()

    def block(self):
        self.eat("{")
        out = []
        while not self.isp("}"):
            out.extend(self.stmt())
        self.eat("}")
        return out

    def semi(self):
        if self.isp(";"):
            self.eat(";")
        elif not (self.isp("}") or self.peek()[0] == "eof"):
            raise NoParse("missing ;")

    def incr(self):
        """i++ / i-- in statement or for-update position: i = i + 1 (the value is discarded there)."""
        if self.peek()[0] == "id" and (self.isp("++", 1) or self.isp("--", 1)):
            x = self.ident()
            op = self.peek()[1]
            self.i += 1
            one = ["num", 1]
            return ["assign", x, ["add", ["id", x], one] if op == "++" else ["op", "-", [["id", x], one]]]
        return None

    def vardecls(self):
        out = []
        while True:
            x = self.ident()
            if self.isp("="):
                self.eat("=")
                out.append(["vari", x, self.assign()])
            else:
                out.append(["var", x])
            if self.isp(","):
                self.eat(",")
                continue
            return out

    def body_of(self):
        return self.block() if self.isp("{") else self.stmt()

    def stmt(self):
        if self.isp(";"):
            self.eat(";")
            return []
        if self.iskw("var"):
            self.i += 1
            out = self.vardecls()
            self.semi()
            return out
        if self.iskw("return"):
            self.i += 1
            if self.isp(";") or self.isp("}") or self.peek()[0] == "eof":
                raise NoParse("feature return without a value")
            e = self.assign()
            self.semi()
            return [["ret", e]]
        if self.iskw("throw"):
            self.i += 1
            e = self.assign()
            self.semi()
            return [["expr", ["op", "throw", [e]]]]
        if self.iskw("if"):
            self.i += 1
            self.eat("(")
            c = self.assign()
            self.eat(")")
            t = self.body_of()
            f = []
            if self.iskw("else"):
                self.i += 1
                f = self.body_of()
            return [["if", c, t, f]]
        if self.iskw("while"):
            self.i += 1
            self.eat("(")
            c = self.assign()
            self.eat(")")
            return [["for", [], c, None, self.body_of()]]
        if self.iskw("for"):
            self.i += 1
            self.eat("(")
            init = []
            if self.iskw("var"):
                self.i += 1
                init = self.vardecls()
                if self.peek() == ("id", "in") or self.peek() == ("id", "of"):
                    raise NoParse("feature for-in loop")
            elif not self.isp(";"):
                init = [["expr", self.assign()]]
                if self.peek() == ("id", "in"):
                    raise NoParse("feature for-in loop")
            self.eat(";")
            c = None if self.isp(";") else self.assign()
            self.eat(";")
            u = None
            if not self.isp(")"):
                u = self.incr() or self.assign()
            self.eat(")")
            return [["for", init, c, u, self.body_of()]]
        if self.iskw("function"):
            self.i += 1
            name = self.ident()
            ps, body = self.fun_rest()
            return [["fun", name, ps, body]]
        if self.isp("{"):
            return self.block()
        e = self.incr() or self.assign()
        self.semi()
        return [["expr", e]]

    def done(self):
        if self.peek()[0] != "eof":
            raise NoParse("trailing " + str(self.peek()))


def parse_expr(src):
    p = P(src)
    e = p.assign()
    p.done()
    return e


def parse_body(src):
    p = P(src)
    out = []
    while p.peek()[0] != "eof":
        out.extend(p.stmt())
    return out


def split_parts(text):
    """The parts of an interpolated string (cwl_utils' scanner; whitespace stripped as interpolate does)."""
    from cwl_utils.expression import scanner

    scan = text.strip()
    parts = []
    w = scanner(scan)
    while w:
        if scan[w[0]] != "$":
            raise NoParse("backslash escape")
        if w[0] > 0:
            parts.append(["text", scan[:w[0]]])
        ex = scan[w[0] + 1:w[1]]
        if ex[0] == "{":
            parts.append(["js", parse_body(ex[1:-1])])
        else:
            m = PARAM_RE.match(ex)
            if m:
                segs = []
                for g in SEG_RE.finditer(m.group(2)):
                    if g.group(1) is not None:
                        segs.append(["dot", g.group(1)])
                    elif g.group(2) is not None:
                        segs.append(["sq", g.group(2)])
                    elif g.group(3) is not None:
                        segs.append(["dq", g.group(3)])
                    else:
                        segs.append(["idx", int(g.group(4))])
                parts.append(["ref", m.group(1), segs])
            else:
                parts.append(["jsx", parse_expr(ex[1:-1])])
        scan = scan[w[1]:]
        w = scanner(scan)
    if scan:
        parts.append(["text", scan])
    for p in parts:
        if p[0] == "text" and ("$" in p[1] or "\\" in p[1]):
            raise NoParse("text with $ or backslash")
    return parts


def walk(doc, strings, libs):
    if isinstance(doc, dict):
        if doc.get("class") == "InlineJavascriptRequirement" and isinstance(doc.get("expressionLib"), list):
            libs.extend(x for x in doc["expressionLib"] if isinstance(x, str))
        if "InlineJavascriptRequirement" in doc and isinstance(doc["InlineJavascriptRequirement"], dict):
            el = doc["InlineJavascriptRequirement"].get("expressionLib")
            if isinstance(el, list):
                libs.extend(x for x in el if isinstance(x, str))
        for k, v in doc.items():
            if k == "expressionLib":
                continue
            walk(v, strings, libs)
    elif isinstance(doc, list):
        for v in doc:
            walk(v, strings, libs)
    elif isinstance(doc, str) and ("$(" in doc or "${" in doc):
        strings.append(doc)


def extract(files, tag, root):
    out = []
    for fn in files:
        try:
            doc = yaml.safe_load(open(fn, encoding="utf-8"))
        except Exception:  # noqa: BLE001
            continue
        strings, libs = [], []
        walk(doc, strings, libs)
        for s in strings:
            out.append({"text": s, "lib_text": libs, "src": f"{tag}:{os.path.relpath(fn, root)}"})
    return out


def translate(c):
    ascii_ok = all(32 <= ord(ch) < 127 or ch in "\n\t" for ch in c["text"] + "".join(c["lib_text"]))
    try:
        if not ascii_ok:
            raise NoParse("non-ascii")
        parts = split_parts(c["text"])
        lib = []
        for lt in c["lib_text"]:
            lib.extend(parse_body(lt))
        return parts, lib, None
    except NoParse as e:
        return None, None, classify(str(e))
    except Exception as e:  # noqa: BLE001  (scanner errors etc.)
        return None, None, type(e).__name__


def main():
    repo = sorted(glob.glob("/repo/**/*.cwl", recursive=True))
    pk = "/venv/lib/python3.12/site-packages"
    pkg = sorted(glob.glob(pk + "/cwltool/tests/**/*.cwl", recursive=True) +
                 glob.glob(pk + "/cwl_utils/testdata/**/*.cwl", recursive=True))
    a = extract(repo, "repo", "/repo")
    b = extract(pkg, "pkg", pk)
    seen, cases = set(), []
    rng = random.Random("C31:realworld")
    rng.shuffle(b)
    for c in a + b:
        key = (c["text"], tuple(c["lib_text"]))
        if key in seen or len(c["text"]) > 600 or sum(map(len, c["lib_text"])) > 1500:
            continue
        seen.add(key)
        if c["src"].startswith("pkg:") and sum(1 for x in cases if x["src"].startswith("pkg:")) >= 160:
            continue
        parts, lib, why = translate(c)
        case = {"f": "realworld", "text": c["text"], "lib_text": c["lib_text"], "src": c["src"],
                "parts": None, "lib": None, "why_not_modelled": why}
        if parts is not None:
            case["parts"], case["lib"] = parts, lib
        cases.append(case)
    json.dump({"cases": cases}, open(os.path.join(os.path.dirname(__file__), "..", "..", "corpus", "C31",
                                                  "realworld.json"), "w"), indent=0)
    nrepo = sum(1 for c in cases if c["src"].startswith("repo:"))
    print(len(cases), "cases;", nrepo, "from /repo;", sum(1 for c in cases if c["parts"] is not None), "translated")


if __name__ == "__main__":
    sys.exit(main())
