"""C02 — Combinators emit exactly the right combinations, whatever the arrival order."""
import itertools
from collections import Counter

from harness.lib.framework import Prop, coq_list, coq_N, coq_nat, coq_str

ERRS = {"AttributeError": "AttributeError", "IndexError": "IndexError", "KeyError": "KeyError",
        "WorkflowExecutionException": "NoItem"}


def _is_prefix(a, b):
    """tag a is b or an ancestor of b"""
    x, y = a.split("."), b.split(".")
    return len(x) <= len(y) and y[:len(x)] == x


def _comparable(a, b):
    return _is_prefix(a, b) or _is_prefix(b, a)


def _ports(comb):
    out = []
    for it in comb["items"]:
        out.extend([it] if isinstance(it, str) else it["ports"])
    return out


def _label(comb):
    inner = [it["kind"] for it in comb["items"] if not isinstance(it, str)]
    return comb["kind"] + ("-" + inner[0] if inner else "")


# ------------------------------------------------------------------------------------------------------------
# what the property text prescribes.  A stream is a list of (payload, tag); payload = {port: id}.
def _spec_dot(streams):
    """[(tag, {item: [candidate payloads]})]: one combination for every tag of a token that is present on every
    input, a token counting as present on every deeper tag (broadcast)."""
    tags = []
    for s in streams.values():
        for _, g in s:
            if g not in tags:
                tags.append(g)
    out = []
    for k in tags:
        cands = {name: [pl for pl, g in s if _is_prefix(g, k)] for name, s in streams.items()}
        if all(cands.values()):
            out.append((k, cands))
    return out


def _spec_cart(streams, depth, names):
    """full cross product inside every group of tokens sharing the tag minus its last `depth` components;
    composite tag (depth 1): the shared prefix followed by the last component of every member, in item order"""
    groups = {}
    for name, s in streams.items():
        for pl, g in s:
            groups.setdefault(".".join(g.split(".")[:-depth]), {}).setdefault(name, []).append((pl, g))
    out = []
    for pre, by in groups.items():
        if len(by) != len(names):
            continue
        for combo in itertools.product(*[by[n] for n in names]):
            suffix = [g.split(".")[-1] for _, g in combo]
            out.append((".".join(([pre] if pre else []) + suffix) if depth == 1 else None,
                        dict(zip(names, [pl for pl, _ in combo]))))
    return out


class C02(Prop):
    ID = "C02"
    PROPS_FILE = "Props/C02.v"
    CORR_MODULE = "Comb.Corr"
    MAX_WORKERS = 4
    COQ_SHARD = 60
    CASE_TIMEOUT = 120
    LEVEL = "proof"
    LEVEL_TEXT = ("PARTIAL. Proved in Coq (closed under the global context) over a hand-written model of the combinators, "
                  "each for EVERY arrival order and unbounded numbers of ports, tags and tokens: (1) dot product over "
                  "streams without parent/child tags: exactly one combination per tag present on every port, at the "
                  "arrival of its last token, nothing else, no exception (C02_dot_flat_partial), and two arrival orders "
                  "give equal bags (C02_order_independent_flat_partial); (2) broadcast: one scattered port plus any number "
                  "of ports delivering one parent-tagged token -- every scattered tag gets exactly one combination made "
                  "of its token and the broadcast parent tokens, whenever the parents arrive "
                  "(C02_dot_broadcast_partial), and the same with SEVERAL scattered ports on one flat dot product, where the "
                  "code keeps an arrival-dependent number of copies of each parent token and the proof carries the counts "
                  "as an existential invariant (C02_dot_broadcast_multi_partial); as a bag: exactly one combination per key "
                  "whose token set holds one token per port, made of exactly those tokens, nothing else "
                  "(C02_broadcast_exactly_one_partial), and two arrival orders give equal bags "
                  "(C02_order_independent_broadcast_partial); (3) cartesian product of depth d>=1 over streams whose tag groups are "
                  "unrelated (implied by 'all tokens of one depth', C02_uniform_depth_groups_unrelated): the emitted "
                  "combinations are exactly the full cross product, each once, with the composite tag "
                  "(C02_cartesian_partial), and two arrival orders give equal bags "
                  "(C02_order_independent_cartesian_partial); (4) nesting as the CWL translator builds it -- dot( dot(S) or "
                  "cartesian_d(S), Q... ) -- the inner combinator emits what its specification says and the outer one "
                  "broadcasts the tokens of Q to every inner combination, exactly once each, at whatever order the "
                  "tokens arrive (C02_nested_dot_partial from primitive conditions on the tags; C02_nested_partial, "
                  "C02_nested_cartesian_partial with the well-formedness of the list of inner combinations as a "
                  "hypothesis stated on the specification; C02_nested_dot_exactly_one_partial: as a bag, exactly one "
                  "flattened combination per inner combination joined with the broadcast tokens; order independence of "
                  "the nested run (inner dot product): C02_order_independent_nested_partial; "
                  "C02_nested_cartesian_exactly_one_partial: the bag for the inner cartesian product). Three _refuted theorems exhibit the input classes in which "
                  "the faithful model breaks the property text (a tag and its ancestor on one port of a dot product; a "
                  "cartesian combinator with an inner combinator; a cartesian combinator over tokens of different depth). "
                  "NOT proved: several tag levels at one combinator (per-port antichains in general), trees deeper "
                  "than 2; these "
                  "are decided case by case by an oracle written from the property text on the real code (combine() and "
                  "CombinatorStep.run) under all / many arrival permutations, and the model (dict order, pop from the "
                  "right, tag re-binding, exceptions included) is compared with the real code on every such run.")
    LEVEL_NOTE = ("Universally quantified theorems cover the flat dot product, single-scattered-port broadcast and the "
                  "uniform-depth cartesian product with their order independence, and the translator's nested trees; "
                  "general per-port-antichain broadcast rests on differential testing against the model plus the text oracle. Trusted: Coq kernel + "
                  "vm_compute; the hand-written model Comb/Model.v; CPython dict/deque/itertools. Loop combinators are "
                  "not covered here. No axioms.")
    TECHNIQUE = ("Coq proof (closed-form state invariants over arrival lists; NoDup + membership for the cross product) + vm_compute "
                 "correspondence of an executable model against the real combinators + text oracle")
    RULE = ("combinator trees of depth <= 2 (dot / cartesian depth 1..2, outer over ports and flat inner combinators), "
            "0..4 tokens per port, tags of depth 1..3 rooted at 0 with multi-digit components, uniform-depth, parent/"
            "child mixes across ports and (rarely) a tag and its ancestor on one port; every case is run from a fresh "
            "combinator under all arrival permutations (<= 4 tokens) or up to 12 seeded shuffles, by calling combine() "
            "directly and, for a quarter of the cases, through the real CombinatorStep.run fed through ports one token "
            "at a time. Non-trivial = >= 2 ports with tokens and >= 2 arrival orders. Distinct = distinct canonical JSON.")
    TRUSTED = ("model: Comb/Model.v (Combinator._add_to_list/_add_to_port, DotProductCombinator._product/combine, "
               "CartesianProductCombinator._product/_add_to_port/combine, dict_product, get_tag) is hand-written; CPython "
               "dict order, deque, itertools.product are not verified, only exercised",)
    ASSUMPTIONS = ("tags are dotted decimal strings rooted at 0", "combinator trees of depth <= 2; Loop combinators are C06's")

    # ---------------------------------------------------------------- generation
    def _tag(self, rng, depth):
        return ".".join(["0"] + [str(rng.choice([0, 1, 2, 9, 10, 11])) for _ in range(depth - 1)])

    def _case(self, rng, tier):
        r = rng.random()
        shape = ("dot" if r < 0.4 else "cart" if r < 0.6 else "dot-dot" if r < 0.75 else "dot-cart" if r < 0.9
                 else "cart-dot" if r < 0.95 else "cart-cart")
        outer_kind = shape.split("-")[0]
        names = ["a", "b", "c", "d"]
        if "-" in shape:
            inner = {"kind": shape.split("-")[1], "depth": 1, "name": "in1", "ports": ["b", "c"]}
            items = rng.choice([["a", inner], [inner, "a"], [inner], ["a", inner, "d"]])
        else:
            items = names[:rng.choice([1, 2, 2, 2, 3, 3])]
        comb = {"kind": outer_kind, "depth": rng.choice([1, 1, 1, 2]) if outer_kind == "cart" else 0, "items": items}
        ports = _ports(comb)
        mix = rng.random()
        style = "uniform" if mix < 0.5 else "mixed" if mix < 0.9 else "ancestor"
        base_depth = rng.choice([1, 2, 2, 3]) if outer_kind == "dot" and "-" not in shape else rng.choice([2, 2, 3])
        toks, nid = [], 0
        for p in ports:
            n = rng.choice([0, 1, 1, 2, 2, 3, 4]) if rng.random() < 0.9 else 1
            tags = []
            for _ in range(n):
                for _try in range(20):
                    d = base_depth if style == "uniform" else rng.choice([1, 2, 3])
                    t = self._tag(rng, d)
                    if t in tags:
                        continue
                    if style != "ancestor" and any(_comparable(t, u) for u in tags):
                        continue
                    tags.append(t)
                    break
            for t in tags:
                toks.append([p, nid, t])
                nid += 1
        idx = list(range(len(toks)))
        if len(toks) <= 4:
            orders = [list(o) for o in itertools.permutations(idx)]
        else:
            orders = [idx[:], idx[::-1]]
            for _ in range(10 if tier != "quick" else 6):
                o = idx[:]
                rng.shuffle(o)
                if o not in orders:
                    orders.append(o)
        mode = "step" if rng.random() < 0.25 else "combine"
        if mode == "step":
            orders = orders[:6]
        return {"f": shape, "comb": comb, "tokens": toks, "orders": orders, "mode": mode}

    def _scatter_case(self, rng):
        """wide scatters (indices >= 10, so that 0.1 / 0.10 / 0.11 coexist) on 2..3 dot-product ports, delivered
        port by port (one port completely before the next), reversed, and interleaved"""
        ports = ["a", "b", "c"][:rng.choice([2, 2, 3])]
        w = rng.randrange(11, 14)
        pre = rng.choice(["0", "0", "0.1", "0.10"])
        toks, per = [], []
        for p in ports:
            idx = []
            for i in range(w):
                idx.append(len(toks))
                toks.append([p, len(toks), f"{pre}.{i}"])
            per.append(idx)
        seq = [i for idx in per for i in idx]
        rev = [i for idx in reversed(per) for i in idx]
        back = [i for idx in per[::-1] for i in idx[::-1]]
        inter = [i for group in zip(*per) for i in group]
        sh = seq[:]
        rng.shuffle(sh)
        return {"f": "dot", "comb": {"kind": "dot", "depth": 0, "items": ports}, "tokens": toks,
                "orders": [seq, rev, back, inter, sh], "mode": "step" if rng.random() < 0.2 else "combine"}

    def _nested_scatter_case(self, rng):
        """the tree translator._create_residual_combinator builds: dot( scatter-combinator(b, c), a [, d] ), the
        scattered ports carrying prefix.i, the others one token tagged prefix, in port-by-port and shuffled orders"""
        ikind = rng.choice(["dot", "dot", "cart"])
        inner = {"kind": ikind, "depth": 1, "name": "in1", "ports": ["b", "c"]}
        q = rng.choice([["a"], ["a", "d"]])
        pre = rng.choice(["0", "0", "0.1", "0.10"])
        w = rng.randrange(2, 5) if ikind == "cart" else rng.choice([2, 3, 5, 11, 12])
        toks, per = [], []
        for p in ["b", "c"]:
            idx = []
            for i in range(w):
                idx.append(len(toks))
                toks.append([p, len(toks), f"{pre}.{i}"])
            per.append(idx)
        for p in q:
            per.append([len(toks)])
            toks.append([p, len(toks), pre])
        seq = [i for idx in per for i in idx]
        rev = [i for idx in reversed(per) for i in idx]
        orders = [seq, rev]
        for _ in range(3):
            sh = seq[:]
            rng.shuffle(sh)
            orders.append(sh)
        return {"f": "dot-" + ikind, "comb": {"kind": "dot", "depth": 0, "items": [inner] + q}, "tokens": toks,
                "orders": orders, "mode": "step" if rng.random() < 0.2 else "combine"}

    def gen(self, rng, tier):
        n = {"quick": 260, "thorough": 2500, "extended": 1500}[tier]
        out = []
        for i in range(n):
            out.append(self._scatter_case(rng) if i % 20 == 7 else
                       self._nested_scatter_case(rng) if i % 20 == 13 else self._case(rng, tier))
        return out

    # ---------------------------------------------------------------- implementation
    def impl_init(self):
        import asyncio
        import os
        import posixpath

        from streamflow.core.exception import WorkflowExecutionException
        from streamflow.core.workflow import Status, Token, Workflow
        from streamflow.main import build_context
        from streamflow.workflow.combinator import CartesianProductCombinator, DotProductCombinator
        from streamflow.workflow.step import CombinatorStep
        from streamflow.workflow.token import TerminationToken

        self.asyncio, self.posixpath = asyncio, posixpath
        self.WEE, self.Status, self.Token, self.Workflow = WorkflowExecutionException, Status, Token, Workflow
        self.Cart, self.Dot, self.CStep, self.Term = CartesianProductCombinator, DotProductCombinator, CombinatorStep, TerminationToken
        self.loop = asyncio.new_event_loop()
        asyncio.set_event_loop(self.loop)
        self.ctx = None
        self._build_context = lambda: build_context(
            {"database": {"type": "default", "config": {"connection": ":memory:"}}, "path": os.getcwd()})
        self.nwf = 0

    def _build(self, comb, wf, name="out"):
        c = self.Cart(name, wf, comb["depth"]) if comb["kind"] == "cart" else self.Dot(name, wf)
        for it in comb.get("items", comb.get("ports")):
            if isinstance(it, str):
                c.add_item(it)
            else:
                c.add_combinator(self._build(it, wf, it["name"]), set(it["ports"]))
        return c

    @staticmethod
    def _canon(schema):
        return sorted([k, t["token"].value, t["token"].tag] for k, t in schema.items())

    async def _run_combine(self, case, order):
        comb = self._build(case["comb"], None)
        outs, err = [], None
        try:
            for i in order:
                p, tid, tag = case["tokens"][i]
                async for schema in comb.combine(p, self.Token(value=tid, tag=tag)):
                    outs.append(self._canon(schema))
        except (AttributeError, IndexError, KeyError, self.WEE) as e:
            err = type(e).__name__
        return {"outs": outs, "err": err}

    async def _run_step(self, case, order):
        asyncio = self.asyncio
        if self.ctx is None:
            self.ctx = self._build_context()
        ctx = self.ctx
        self.nwf += 1
        wf = self.Workflow(ctx, config={}, name=f"c02-{self.nwf}")
        comb = self._build(case["comb"], wf)
        step = wf.create_step(self.CStep, name="/comb", combinator=comb)
        ports = _ports(case["comb"])
        inp = {p: wf.create_port() for p in ports}
        out = {p: wf.create_port() for p in ports}
        for p in ports:
            step.add_input_port(p, inp[p])
            step.add_output_port(p, out[p])
        await wf.save(ctx.database)
        toks = []
        for p, tid, tag in case["tokens"]:
            t = self.Token(value=tid, tag=tag)
            await t.save(ctx.database, port_id=inp[p].persistent_id)
            toks.append(t)
        task = asyncio.get_running_loop().create_task(step.run())
        cons = {p: self.posixpath.join(step.name, p) for p in ports}

        async def rearmed(active):
            # the step is idle again iff it is blocked in a get on every non-terminated port with nothing queued
            for _ in range(200000):
                if task.done():
                    return
                ok = True
                for p in active:
                    q = inp[p].queues.get(cons[p])
                    if q is None or not q.empty() or not q._getters:
                        ok = False
                        break
                if ok:
                    return
                await asyncio.sleep(0.0005)
            raise TimeoutError("step never became idle")

        await rearmed(ports)
        for i in order:
            if task.done():
                break
            inp[case["tokens"][i][0]].put(toks[i])
            await rearmed(ports)
        if not task.done():
            for p in ports:
                inp[p].put(self.Term(self.Status.COMPLETED))
        err = None
        try:
            await asyncio.wait_for(task, 60)
        except (AttributeError, IndexError, KeyError, self.WEE) as e:
            err = type(e).__name__
        seqs = {p: [t for t in out[p].token_list if not isinstance(t, self.Term)] for p in ports}
        n = max([len(s) for s in seqs.values()] or [0])
        outs = []
        for k in range(n):   # the k-th emission put one token on every output port
            outs.append(sorted([p, s[k].value, s[k].tag] for p, s in seqs.items() if k < len(s)))
        return {"outs": outs, "err": err, "status": step.status.name}

    def impl_run(self, case):
        runs = []
        step = case.get("mode") == "step"
        fn = self._run_step if step else self._run_combine
        try:
            for order in case["orders"]:
                runs.append(self.loop.run_until_complete(fn(case, order)))
        finally:
            if step and self.ctx is not None:
                # aiosqlite's worker thread is not a daemon: close it or the worker process never exits
                ctx, self.ctx = self.ctx, None
                self.loop.run_until_complete(ctx.database.close())
        return {"runs": runs}

    # ---------------------------------------------------------------- oracle (from the property text)
    def _expected(self, case):
        """(list of (tag or None, {port: [candidate ids]}) , unique?) or None when the text prescribes nothing definite"""
        comb = case["comb"]
        streams = {}
        for it in comb["items"]:
            if isinstance(it, str):
                streams[it] = [({it: tid}, tag) for p, tid, tag in case["tokens"] if p == it]
            else:
                inner = {q: [({q: tid}, tag) for p, tid, tag in case["tokens"] if p == q] for q in it["ports"]}
                if it["kind"] == "dot":
                    sp = _spec_dot(inner)
                    if any(len(c) != 1 for _, cands in sp for c in cands.values()):
                        return None
                    streams[it["name"]] = [({k: v for c in cands.values() for k, v in c[0].items()}, tag)
                                           for tag, cands in sp]
                else:
                    if it["depth"] != 1 or not self._uniform(inner):
                        return None
                    streams[it["name"]] = [({k: v for pl in combo.values() for k, v in pl.items()}, tag)
                                           for tag, combo in _spec_cart(inner, 1, it["ports"])]
        names = [it if isinstance(it, str) else it["name"] for it in comb["items"]]
        if comb["kind"] == "dot":
            sp = _spec_dot(streams)
            res = []
            for tag, cands in sp:
                per_port = {}
                for c in cands.values():
                    for pl in c:
                        for k, v in pl.items():
                            per_port.setdefault(k, set()).add(v)
                res.append((tag, per_port, all(len(c) == 1 for c in cands.values())))
            return res
        if not self._uniform(streams):
            return None
        return [(tag, {k: {v} for pl in combo.values() for k, v in pl.items()}, True)
                for tag, combo in _spec_cart(streams, comb["depth"], names)]

    @staticmethod
    def _uniform(streams):
        depths = {g.count(".") for s in streams.values() for _, g in s}
        return len(depths) <= 1 and all(len({g for _, g in s}) == len(s) for s in streams.values())

    def _klass(self, case):
        byport = {}
        for p, _, t in case["tokens"]:
            byport.setdefault(p, []).append(t)
        anc = any(a != b and _comparable(a, b) or (a == b and i != j)
                  for ts in byport.values() for i, a in enumerate(ts) for j, b in enumerate(ts))
        # mixed depth is judged on the ports the cartesian combinator itself reads
        lab = _label(case["comb"])
        if "cart" in lab:
            cart_ports = set(_ports(case["comb"]))
            if lab == "dot-cart":
                cart_ports = {p for it in case["comb"]["items"] if not isinstance(it, str) for p in it["ports"]}
            if len({t.count(".") for p, _, t in case["tokens"] if p in cart_ports}) > 1:
                return "mixed-depth"
        if anc:
            return "ancestor-pair-on-port"
        return "antichain-ports"

    def oracle(self, case, obs):
        if "crash" in obs or "hang" in obs:
            return ("crash", f"implementation crashed/hung: {str(obs)[:400]}")
        runs = obs["runs"]
        for r, o in zip(runs, case["orders"]):
            if r["err"]:
                return ("raises", f"{r['err']} raised under arrival order {o}")
        bags = [Counter(str(c) for c in r["outs"]) for r in runs]
        for b, o in zip(bags[1:], case["orders"][1:]):
            if b != bags[0]:
                return ("order-independence",
                        f"arrival order {case['orders'][0]} emits {sorted(bags[0].elements())} but order {o} emits "
                        f"{sorted(b.elements())}")
        exp = self._expected(case)
        if exp is None or not runs:
            return None
        for r, o in zip(runs, case["orders"]):
            outs = [list(c) for c in r["outs"]]
            for tag, per_port, unique in exp:
                hit = [c for c in outs if ((tag is None or all(e[2] == tag for e in c)) and
                                           {e[0] for e in c} == set(per_port) and
                                           all(e[1] in per_port[e[0]] for e in c))]
                if not unique and tag is not None:
                    hit = hit[:1] if hit else hit
                if len(hit) != 1 and (unique or not hit):
                    return ("exact-combinations",
                            f"under order {o}: expected exactly one combination tagged {tag} over {per_port}, "
                            f"found {len(hit)} among {outs}")
                for c in hit:
                    outs.remove(c)
            if outs:
                return ("exact-combinations", f"under order {o}: combinations not prescribed by the text: {outs}")
        return None

    # ---------------------------------------------------------------- model side
    def _coq_comb(self, comb):
        def kind(c):
            return f"(KCart {coq_nat(c['depth'])})" if c["kind"] == "cart" else "KDot"
        items = []
        for it in comb["items"]:
            if isinstance(it, str):
                items.append(f"IPort {coq_str(it)}")
            else:
                items.append(f"IComb (mkflat {kind(it)} {coq_str(it['name'])} "
                             f"{coq_list([coq_str(p) for p in it['ports']])})")
        return f"(mkouter {kind(comb)} {coq_list(items)})"

    def coq_case(self, c, o):
        if "runs" not in o:
            return None
        runs = []
        for order, r in zip(c["orders"], o["runs"]):
            arr = coq_list([f"({coq_str(c['tokens'][i][0])}, ({coq_N(c['tokens'][i][1])}, {coq_str(c['tokens'][i][2])}))"
                            for i in order])
            outs = coq_list([coq_list([f"({coq_str(e[0])}, ({coq_N(e[1])}, {coq_str(e[2])}))" for e in s])
                             for s in r["outs"]])
            if r["err"] and r["err"] not in ERRS:
                return None
            err = f"(Some {ERRS[r['err']]})" if r["err"] else "None"
            runs.append(f"({arr}, {outs}, {err})")
        return f"CCase {self._coq_comb(c['comb'])} {coq_list(runs)}"

    def nontrivial(self, c):
        return len({t[0] for t in c["tokens"]}) >= 2 and len(c["orders"]) >= 2

    def signature(self, c, o, clause):
        # family of combinator tree / oracle clause / class of input tags
        lab = _label(c["comb"])
        if lab.startswith("cart-"):
            return f"cart-nested/{clause}" if clause == "raises" else f"cart-nested/{clause}/{self._klass(c)}"
        fam = "cart" if "cart" in lab else "dot"
        return f"{fam}/{clause}/{self._klass(c)}"

    def shrink(self, c):
        toks = c["tokens"]
        for i in range(len(toks)):
            nt = toks[:i] + toks[i + 1:]
            idx = list(range(len(nt)))
            orders = ([list(o) for o in itertools.permutations(idx)] if len(nt) <= 4
                      else [[j if j < i else j - 1 for j in o if j != i] for o in c["orders"]])
            yield {**c, "tokens": nt, "orders": orders}
        if len(c["orders"]) > 2:
            for k in range(1, len(c["orders"])):
                yield {**c, "orders": [c["orders"][0], c["orders"][k]]}
        if c.get("mode") == "step":
            yield {**c, "mode": "combine"}


PROP = C02()
