"""C20 — Provenance graph operations keep the graph consistent.

Implementation side: the real streamflow.recovery.utils.DirectedAcyclicGraph (which inherits every
DirectedGraph operation) is driven with an operation sequence and queried after every operation.
Oracle: a plain reference graph (node set + edge set) updated as the property text says.
Model side: Graph/Corr.v replays the sequence on Graph/Model.v under two set-iteration orders.
"""
import itertools

from harness.lib.framework import Prop, coq_bool, coq_list, coq_N, coq_opt


def _closure(nodes, edges, seed, prune):
    """least set containing the present seed nodes and, when pruning, every node that has successors all of
    which are in the set (an ancestor left with no remaining successor)"""
    succ = {n: set() for n in nodes}
    for u, v in edges:
        succ[u].add(v)
    rem = {n for n in seed if n in nodes}
    changed = prune
    while changed:
        changed = False
        for p in nodes:
            if p not in rem and succ[p] and succ[p] <= rem:
                rem.add(p)
                changed = True
    return rem


class Ref:
    """The plain graph of the property text."""

    def __init__(self):
        self.nodes, self.edges = set(), set()

    def apply(self, op):
        """returns the expected return value: a set of removed nodes, None, or 'ValueError'"""
        k = op[0]
        if k == "add":
            self.nodes.add(op[1])
            if op[2] is not None:
                self.nodes.add(op[2])
                self.edges.add((op[1], op[2]))
            return None
        if k == "rm":
            rem = _closure(self.nodes, self.edges, op[1], op[2])
            self._drop(rem)
            return rem
        if k == "rep":
            o, n = op[1], op[2]
            if o not in self.nodes:
                return None
            if n in self.nodes:
                return "ValueError"
            r = lambda x: n if x == o else x
            self.nodes = {r(x) for x in self.nodes}
            self.edges = {(r(u), r(v)) for u, v in self.edges}
            return None
        if k == "pro":
            x = op[1]
            if x not in self.nodes:
                return set()
            preds = {u for u, v in self.edges if v == x}
            self.edges = {(u, v) for u, v in self.edges if v != x}
            dead = {p for p in preds if not any(u == p for u, _ in self.edges)}
            rem = _closure(self.nodes, self.edges, dead, True)
            self._drop(rem)
            return rem
        raise ValueError(k)

    def _drop(self, rem):
        self.nodes -= rem
        self.edges = {(u, v) for u, v in self.edges if u not in rem and v not in rem}


class C20(Prop):
    ID = "C20"
    PROPS_FILE = "Props/C20.v"
    CORR_MODULE = "Graph.Corr"
    LEVEL_TEXT = (
        "Theorems (Coq, closed under the global context) over a model of DirectedGraph/DirectedAcyclicGraph that keeps "
        "the two adjacency dicts separate and takes the iteration order of every Python set as a parameter: for every "
        "operation sequence of add/remove_nodes/replace/promote_to_source from the empty graph and every iteration "
        "order the successor and predecessor views mirror each other and have the same keys; remove_nodes always ends "
        "with an empty stack and removes exactly the least set containing the requested present nodes and (pruning) "
        "closed under 'has successors and all of them are removed', leaving every other node and every edge among them; "
        "replace renames one node in the node set and in every edge (ValueError iff the new node exists, no-op iff the "
        "old one is absent); promote_to_source deletes exactly the incoming edges of the node and the same closure "
        "seeded with the predecessors left without successors. Unbounded graph size and sequence length. The model is "
        "tied to /repo by replaying generated operation sequences (<=12 nodes, DAG and cyclic, self-loops, duplicate and "
        "absent nodes in requests) on the real class and on the model under two iteration orders, comparing every query "
        "method after every operation; a reference plain graph written from the property text judges the real class.")
    LEVEL_NOTE = (
        "Trusted: Coq kernel + vm_compute; the hand-written model Graph/Model.v (tied to the code only by the "
        "correspondence run); CPython dict/set semantics. KeyError on a missing dict key / set.remove is not modelled "
        "(shown unreachable on mirror-consistent graphs only by the correspondence). GraphMapper operations "
        "(move_token_to_root, replace_token, remove_port) are modelled and exercised under C18 (ProvGraph), not here. No axioms.")
    TECHNIQUE = "Coq proof (loop invariants over the explicit-stack removal, extensional graph views) + vm_compute correspondence"
    RULE = ("operation sequences (add / remove_nodes with and without pruning, with duplicate and absent nodes / replace / "
            "promote_to_source) of length 4..26 on <=12 node names, in three modes: DAG (edges low->high), arbitrary "
            "digraph with cycles and self-loops, layered provenance-like DAG; thorough adds all sequences of <=3 ops over "
            "2 nodes plus samples of the 4-op (2 nodes) and 3-op (3 nodes) sequences from a small op alphabet. Non-trivial = contains a pruning removal or promote that "
            "removes >=2 nodes, or a replace of a node with edges. Distinct = distinct canonical JSON.")
    TRUSTED = ("model: Graph/Model.v (DirectedGraph.add/remove_nodes/replace, DirectedAcyclicGraph.promote_to_source, "
               "query methods) is hand-written; CPython dict and set are not verified, only exercised",)
    ASSUMPTIONS = ("set iteration order is an arbitrary permutation that may depend on the set's contents and representation",
                   "nodes are hashable values with well-behaved equality (ints in the correspondence)")
    MAX_WORKERS = 6
    COQ_SHARD = 300
    CASE_TIMEOUT = 30

    # ---------------------------------------------------------------- generation
    def _seq(self, rng, mode, k, nops):
        ops = []
        present = set()
        new_name = 100

        def pick():
            return rng.randrange(k) if (not present or rng.random() < 0.2) else rng.choice(sorted(present))

        nbuild = rng.randrange(2, 2 * k + 4)
        for i in range(nops):
            r = rng.random()
            if i < nbuild or r < 0.35:
                if mode == "layer":
                    layers = 4
                    u = rng.randrange(k)
                    cands = [v for v in range(k) if v % layers == u % layers + 1]
                    v = rng.choice(cands) if cands and rng.random() < 0.9 else None
                else:
                    u, v = rng.randrange(k), rng.randrange(k)
                    if mode == "dag":
                        if u == v:
                            v = None
                        elif u > v:
                            u, v = v, u
                    if rng.random() < 0.1:
                        v = None
                ops.append(["add", u, v])
                present.add(u)
                if v is not None:
                    present.add(v)
            elif r < 0.6:
                ns = [pick() for _ in range(rng.choice([1, 1, 1, 2, 2, 3, 4]))]
                if rng.random() < 0.15 and ns:
                    ns.append(ns[0])
                ops.append(["rm", ns, rng.random() < 0.7])
                # present is only a generation hint
            elif r < 0.8:
                o = pick()
                if rng.random() < 0.75:
                    n = new_name
                    new_name += 1
                else:
                    n = pick()
                ops.append(["rep", o, n])
                if o in present and n not in present:
                    present.discard(o)
                    present.add(n)
            else:
                ops.append(["pro", pick()])
        return ops

    def gen(self, rng, tier):
        n = {"quick": 700, "thorough": 6000, "extended": 4000}[tier]
        cases = []
        for i in range(n):
            mode = ("dag", "any", "layer")[i % 3]
            k = rng.choice([2, 3, 4, 5, 6, 8, 10, 12])
            cases.append({"f": "seq", "mode": mode, "ops": self._seq(rng, mode, k, rng.randrange(4, 27))})
        if tier == "thorough":
            def alpha(k):
                a = [["add", u, v] for u in range(k) for v in list(range(k)) + [None]]
                a += [["rm", [u], p] for u in range(k) for p in (True, False)]
                a += [["rm", [0, 1], True]]
                a += [["rep", u, v] for u in range(k) for v in range(k + 1) if u != v] + [["rep", 0, 0]]
                a += [["pro", u] for u in range(k)]
                return a
            a2 = alpha(2)
            for L in range(1, 4):                      # every sequence of <=3 ops over 2 nodes
                for ops in itertools.product(a2, repeat=L):
                    if ops[0][0] != "add":
                        continue
                    cases.append({"f": "seq", "mode": "exh2", "ops": [list(o) for o in ops]})
            four = [ops for ops in itertools.product(a2, repeat=4) if ops[0][0] == "add"]
            for ops in rng.sample(four, 5000):         # a sample of the 4-op sequences
                cases.append({"f": "seq", "mode": "exh2", "ops": [list(o) for o in ops]})
            a3 = [o for o in alpha(3) if not (o[0] == "add" and o[2] is None)]
            three = [ops for ops in itertools.product(a3, repeat=3) if ops[0][0] == "add"]
            for ops in rng.sample(three, 3000):
                cases.append({"f": "seq", "mode": "exh3", "ops": [list(o) for o in ops]})
        return cases

    # ---------------------------------------------------------------- implementation
    def impl_init(self):
        from streamflow.recovery.utils import DirectedAcyclicGraph

        self.DAG = DirectedAcyclicGraph

    def _observe(self, g):
        nodes = sorted(g.get_nodes())
        return {
            "nodes": nodes,
            "succ": sorted([u, v] for u in nodes for v in g.successors(u)),
            "pred": sorted([v, u] for v in nodes for u in g.predecessors(v)),
            "sources": sorted(g.get_sources()),
            "sinks": sorted(g.get_sinks()),
            "indeg": sorted([k, v] for k, v in g.in_degree().items()),
            "outdeg": sorted([k, v] for k, v in g.out_degree().items()),
            "empty": bool(g.empty()),
            "contains": sorted(n for n in nodes if g.contains(n)),
        }

    def impl_run(self, c):
        g = self.DAG("g")
        steps = []
        for op in c["ops"]:
            try:
                if op[0] == "add":
                    r = g.add(op[1], op[2])
                elif op[0] == "rm":
                    if len(op[1]) == 1 and op[2]:
                        r = g.remove_node(op[1][0])          # the single-node entry point (prune by default)
                    else:
                        r = g.remove_nodes(list(op[1]), prune_dead_end=op[2])
                elif op[0] == "rep":
                    r = g.replace(op[1], op[2])
                elif op[0] == "pro":
                    r = g.promote_to_source(op[1])
                else:
                    raise AssertionError(op)
                ret = None if r is None else sorted(r)
            except ValueError:
                ret = "ValueError"
            except Exception as e:  # noqa: anything else is an observation too
                ret = "Exc:" + type(e).__name__
            o = self._observe(g)
            o["ret"] = ret
            steps.append(o)
            if isinstance(ret, str) and ret.startswith("Exc:"):
                break
        return {"steps": steps}

    # ---------------------------------------------------------------- oracle (from the property text)
    def oracle(self, c, o):
        if "crash" in o or "hang" in o:
            return ("crash", f"implementation crashed/hung: {str(o)[:300]}")
        ref = Ref()
        for i, (op, s) in enumerate(zip(c["ops"], o["steps"])):
            kind = op[0]
            want = ref.apply(op)
            where = f"after op #{i} {op}"
            if isinstance(s["ret"], str) and s["ret"].startswith("Exc:"):
                return ("unexpected-exception", f"{s['ret']} {where}")
            succ = {tuple(e) for e in s["succ"]}
            pred = {(u, v) for v, u in s["pred"]}
            if succ != pred or len(succ) != len(s["succ"]) or len(pred) != len(s["pred"]):
                return ("mirror", f"successor view {sorted(succ)} and predecessor view {sorted(pred)} differ {where}")
            if set(s["nodes"]) != ref.nodes or succ != ref.edges:
                if kind == "rm":
                    clause = "remove-exact" if op[2] else "remove-noprune-exact"
                else:
                    clause = {"add": "add-graph", "rep": "replace-edges", "pro": "promote-exact"}[kind]
                return (clause, f"graph is nodes={s['nodes']} edges={sorted(succ)}; a plain graph gives "
                                f"nodes={sorted(ref.nodes)} edges={sorted(ref.edges)} {where}")
            if not succ <= {(u, v) for u in ref.nodes for v in ref.nodes}:
                return ("dangling-edge", f"edge to a missing node {where}")
            if want == "ValueError" or s["ret"] == "ValueError":
                if want != s["ret"]:
                    return ("replace-valueerror", f"returned {s['ret']}, expected {want} {where}")
            elif want is None:
                if s["ret"] is not None:
                    return ("return-value", f"returned {s['ret']} instead of None {where}")
            else:
                if s["ret"] is None or sorted(want) != s["ret"]:
                    return ("removed-list", f"returned {s['ret']}, removed set is {sorted(want)} {where}")
            # derived query methods agree with the plain graph
            indeg = {n: 0 for n in ref.nodes}
            outdeg = {n: 0 for n in ref.nodes}
            for u, v in ref.edges:
                outdeg[u] += 1
                indeg[v] += 1
            if (s["sources"] != sorted(n for n in ref.nodes if indeg[n] == 0)
                    or s["sinks"] != sorted(n for n in ref.nodes if outdeg[n] == 0)
                    or s["indeg"] != sorted([k, v] for k, v in indeg.items())
                    or s["outdeg"] != sorted([k, v] for k, v in outdeg.items())
                    or s["empty"] != (not ref.nodes) or s["contains"] != sorted(ref.nodes)):
                return ("queries", f"sources/sinks/degrees/empty/contains disagree with the plain graph {where}: {s}")
        if len(o["steps"]) != len(c["ops"]):
            return ("unexpected-exception", "sequence stopped early")
        return None

    # ---------------------------------------------------------------- model side
    def _op(self, op):
        if op[0] == "add":
            return f"(Add {coq_N(op[1])} {coq_opt(op[2], coq_N)})"
        if op[0] == "rm":
            return f"(RemoveNodes {coq_list([coq_N(x) for x in op[1]])} {coq_bool(op[2])})"
        if op[0] == "rep":
            return f"(Replace {coq_N(op[1])} {coq_N(op[2])})"
        return f"(Promote {coq_N(op[1])})"

    def coq_case(self, c, o):
        if "crash" in o or "hang" in o:
            return None
        steps = []
        pairs = lambda l: coq_list([f"({coq_N(a)},{coq_N(b)})" for a, b in l])
        ns = lambda l: coq_list([coq_N(x) for x in l])
        nsteps = len(o["steps"])
        for i, (op, s) in enumerate(zip(c["ops"], o["steps"])):
            r = s["ret"]
            if r is None:
                ret = "RetNone"
            elif r == "ValueError":
                ret = "ValueErr"
            elif isinstance(r, str):
                return None  # an exception the model does not have; the oracle reports it
            else:
                ret = f"(Ret {ns(r)})"
            if i % 4 == 3 or i == nsteps - 1:    # predecessor view + derived queries: every 4th step and the last (term size)
                steps.append(f"({self._op(op)}, mkObs {ns(s['nodes'])} {pairs(s['succ'])} {pairs(s['pred'])} {ret} "
                             f"{ns(s['sources'])} {ns(s['sinks'])} {pairs(s['indeg'])} {pairs(s['outdeg'])} "
                             f"{coq_bool(s['empty'])} true)")
            else:
                steps.append(f"({self._op(op)}, mkObs {ns(s['nodes'])} {pairs(s['succ'])} [] {ret} "
                             f"[] [] [] [] false false)")
        return f"CSeq {coq_list(steps)}"

    def nontrivial(self, c):
        ref = Ref()
        for op in c["ops"]:
            had_edges = op[0] == "rep" and any(op[1] in e for e in ref.edges) and op[2] not in ref.nodes
            r = ref.apply(op)
            if had_edges or (isinstance(r, set) and len(r) >= 2 and (op[0] == "pro" or op[2])):
                return True
        return False

    def signature(self, c, o, clause):
        return clause

    def shrink(self, c):
        ops = c["ops"]
        for i in range(len(ops) - 1, -1, -1):
            yield {**c, "ops": ops[:i] + ops[i + 1:]}
        for i, op in enumerate(ops):
            if op[0] == "rm" and len(op[1]) > 1:
                for j in range(len(op[1])):
                    yield {**c, "ops": ops[:i] + [["rm", op[1][:j] + op[1][j + 1:], op[2]]] + ops[i + 1:]}


PROP = C20()
