"""Driving ONE real StreamFlow step with a prescribed arrival order (used by C01 and C06).

The step runs as an asyncio task inside a bare Workflow on an in-memory database.  Its input ports are
ObsPort instances (a Port subclass that only counts).  A token is put on a port only when the step is
*quiescent*, and the next one only when it is quiescent again.  Quiescence is decided structurally, never
by yielding a few times:

  the step task is suspended on a pending future, that future is not the one it was suspended on before the
  put (so it did wake up), every token put so far has been taken from the port, and the port that received
  the token has a reader blocked on it again (unless it received its termination token).

Because the real steps re-arm the read of a port only after they have completely processed the token they
took from it (including the awaited database writes), this means "the token has been fully processed".
Only imported inside worker processes (PYTHONPATH points at the tree under examination).
"""
import asyncio
import json
import os


def make_env():
    from streamflow.core.workflow import Port, Token, Workflow
    from streamflow.main import build_context
    from streamflow.workflow.token import ListToken, ObjectToken, TerminationToken, IterationTerminationToken

    class ObsPort(Port):
        def __init__(self, workflow, name):
            super().__init__(workflow, name)
            self.waiting = 0
            self.delivered = 0
            self.nput = 0
            self.terminated = False

        async def get(self, consumer):
            self.waiting += 1
            try:
                t = await super().get(consumer)
            finally:
                self.waiting -= 1
            self.delivered += 1
            return t

        def feed(self, tok):
            self.nput += 1
            if isinstance(tok, TerminationToken):
                self.terminated = True
            self.put(tok)

    class Env:
        pass

    e = Env()
    e.ObsPort, e.Port, e.Token, e.Workflow = ObsPort, Port, Token, Workflow
    e.ListToken, e.ObjectToken, e.TerminationToken = ListToken, ObjectToken, TerminationToken
    e.IterationTerminationToken = IterationTerminationToken
    e.build_context = lambda: build_context(
        {"database": {"type": "default", "config": {"connection": ":memory:"}}, "path": os.getcwd()})
    return e


async def until(cond):
    n = 0
    while not cond():
        n += 1
        await asyncio.sleep(0 if n < 30 else 0.0003)


def _blocked(task):
    w = getattr(task, "_fut_waiter", None)
    return w is not None and not w.done()


async def drive(step, in_ports, arrivals, after_each=None):
    """Runs step.run(); feeds arrivals [(port_name, token)] one per quiescent state.
    Returns True if the step's run() returned, False if it is still waiting for input after the last
    arrival (it is then cancelled).  Exceptions of run() propagate."""
    task = asyncio.ensure_future(step.run())
    await until(lambda: task.done() or (all(p.waiting == 1 for p in in_ports.values()) and _blocked(task)))
    for pn, tok in arrivals:
        if task.done():
            break
        p = in_ports[pn]
        if p.terminated:
            raise ValueError("harness: arrival on a port that already got its termination token")
        w0 = task._fut_waiter
        p.feed(tok)
        # after a termination token the port is not read again: the step is quiescent once it blocks with some
        # other port still being read; if no port is read any more it is on its way out and we wait for run() to return
        await until(lambda: task.done() or (
            w0.done() and p.delivered == p.nput and _blocked(task)
            and (any(q.waiting == 1 for q in in_ports.values()) if p.terminated else p.waiting == 1)))
        if after_each is not None:
            after_each(pn, tok)
    if task.done():
        task.result()
        return True
    task.cancel()
    try:
        await task
    except asyncio.CancelledError:
        pass
    # readers the step left behind
    for t in asyncio.all_tasks():
        if t is not asyncio.current_task() and not t.done():
            t.cancel()
    return False


# ---- canonical JSON form of tokens:  ["T", tag, payload-string] | ["L", tag, [tokens]] ----
def canon_tok(e, t):
    if isinstance(t, e.TerminationToken):
        return ["Term", t.value.name]
    if isinstance(t, e.IterationTerminationToken):
        return ["I", t.tag]
    if isinstance(t, e.ListToken):
        return ["L", t.tag, [canon_tok(e, x) for x in t.value]]
    if isinstance(t, e.ObjectToken):
        return ["T", t.tag, "O:" + json.dumps({k: canon_tok(e, v) for k, v in t.value.items()}, sort_keys=True)]
    return ["T", t.tag, json.dumps(t.value, sort_keys=True)]
