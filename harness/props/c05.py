"""C05 — Workflow results do not depend on the interleaving."""
import copy
import random

from harness.lib.framework import Prop, coq_list, coq_nat
from harness.props import netlib
from harness.props.c04 import coq_specs, coq_tok, coq_win, net_fuel, port_sources


def variant(case, v):
    """the same workflow and inputs: another schedule, other suspension points (job completion order), and the
    injected tokens of every input port in another order"""
    c = copy.deepcopy(case)
    c.pop("variants", None)
    r = random.Random(v)
    c["sched"] = r.randrange(1 << 30)
    for s in c["steps"]:
        if s["k"] in ("xf", "exec"):
            s["yields"] = r.choice([0, 0, 1, 2, 3, 5, 12, 30])
    if v != 0:
        for p in c["inputs"]:
            r.shuffle(c["inputs"][p])
    # a cartesian/dot combinator must see each of its ports deliver first in some variant
    lag = [s for s in c["steps"] if s["n"] in ("/da", "/db")]
    if c.get("bcast") and len(lag) == 2:
        # the non-scattered (parent-tagged) token reaches the dot product before, between or after the scattered ones
        for s in lag:
            s.pop("hold", None)
        if v != 0:
            lag[r.randrange(2)]["hold"] = True
    elif len(lag) == 2 and v != 0:
        first = r.randrange(2)
        lag[first]["yields"], lag[1 - first]["yields"] = 0, r.choice([8, 20, 40])
    return c


class C05(netlib.Guarded, Prop):
    ID = "C05"
    PROPS_FILE = "Props/C05.v"
    CORR_MODULE = "Net.Corr"
    LEVEL = "proof"
    MAX_WORKERS = 6
    CASE_TIMEOUT = netlib.GUARD_CASE_TIMEOUT      # outer guard only: a hang verdict is structural (see netlib)
    SHARD_TIMEOUT = netlib.GUARD_SHARD_TIMEOUT
    LEVEL_TEXT = (
        "Theorems (Coq, closed): (a) for networks of round machines (every step built on _get_inputs: Transformer, "
        "ConditionalStep) any two maximal executions from the same state — any two interleavings — end in the same "
        "state, so every port carries the same history and every output port the same tag->value map; no hypothesis "
        "on the round function or the graph; (b) composition: in an acyclic network of order-insensitive processes "
        "(output bags a function of input bags) any two complete behaviours carry equal bags on every port. "
        "Order-insensitivity is a theorem for GatherStep, LoopOutputStep, the flat dot product and the cartesian product "
        "(C05_contract_*: corollaries of the C01/C06/C02 models, in their own token types); for the network scatter -> "
        "transform -> gather of log machines every fully terminated execution delivers exactly the transformed list "
        "(C05_scatter_gather_outputs, no hypothesis on the steps); a flat dot-product combinator in a network never "
        "raises and emits the same bag of combinations in every fully terminated execution, which plugs into C29's "
        "scatter/dot/job/gather theorem (C05_scatter_comb_gather_outputs_partial); C05_mixed_bags_partial links "
        "the operational network of log machines to such per-machine statements; it stays an assumption for "
        "ExecuteStep with concurrent jobs, LoopCombinatorStep and the embedding of those models into the network's "
        "histories; for tag-grouping steps it needs the shape "
        "hypothesis, shown necessary by a refutation witness. Tied to /repo by running each generated workflow under "
        "several seeded permuting event loops, with different suspension points and different orders of the injected "
        "tokens, comparing the output ports' tag->value bags between runs (oracle) and with the model.")
    LEVEL_NOTE = ("partial: order-insensitivity is proved for GatherStep, LoopOutputStep, flat dot product and cartesian product "
                  "(per machine, and per port inside a network for the two combinators), and the composition theorem is "
                  "instantiated without hypotheses for Transformer networks and for scatter->transform->gather; it is still "
                  "assumed for ExecuteStep with concurrent jobs and LoopCombinatorStep, and no single network joins the "
                  "combinator and the gather (different token types). asyncio is not modelled")
    TECHNIQUE = ("Coq proof (diamond property => unique maximal execution; induction over the topological order for "
                 "bags) + vm_compute correspondence against StreamFlowExecutor.run() under permuted schedules")
    RULE = ("each case = one generated workflow (as C04, no failure; shape-regular DAGs of Transformer/Conditional "
            "steps, scatter/gather/dot/cartesian graphs, a dot product of a scattered and a non-scattered port whose token "
            "arrives before or after all scattered ones) x 4 variants (schedule seed, suspension points, order of "
            "the injected tokens). Non-trivial = >=2 steps and >=2 tags. Distinct = distinct canonical JSON.")
    TRUSTED = ("model: Net/Model.v (see C04); asyncio, aiosqlite, SQLite not modelled, only exercised",
               "output values are read from token_list of the workflow output ports; run()'s return value keeps only "
               "the last token of a port and is compared only for ports carrying at most one token")
    ASSUMPTIONS = ("shape hypothesis: all input ports of a tag-grouping step carry the same tags, each once",)

    def gen(self, rng, tier):
        n_tg, n_sg = {"quick": (70, 40), "thorough": (300, 150), "extended": (200, 100)}[tier]
        cases = []
        for _ in range(n_tg):
            c = netlib.gen_tg_net(rng, big=(tier != "quick"), fail_p=0.0, unequal_p=0.0, quirk_p=0.1, hold_p=0.0)
            for s in c["steps"]:
                s.pop("hold", None)
            c["f"] = "det"
            c["variants"] = [0] + [rng.randrange(1, 1 << 30) for _ in range(3)]
            cases.append(c)
        for _ in range(n_sg):
            c = netlib.gen_sg_net(rng, fail_p=0.0)
            c["f"] = "det"
            c["variants"] = [0] + [rng.randrange(1, 1 << 30) for _ in range(3)]
            cases.append(c)
        for _ in range({"quick": 12, "thorough": 60, "extended": 40}[tier]):
            c = netlib.gen_exec_net(rng, fail_p=0.0)
            c["f"] = "det"
            c["variants"] = [0] + [rng.randrange(1, 1 << 30) for _ in range(3)]
            cases.append(c)
        return cases

    def impl_init(self):
        import logging

        self.env = netlib.Env()
        logging.getLogger("streamflow").setLevel(logging.CRITICAL)

    def impl_run(self, c):
        runs = []
        for v in c["variants"]:
            o = netlib.run_net(self.env, variant(c, v))
            runs.append({"ret": o["ret"],
                         "out": {p: sorted(o["ports"][p]["toks"]) for p in c["outputs"]},
                         "raw": {p: o["ports"][p]["toks"] for p in c["outputs"]},
                         "retval": o["outputs"],
                         "final": o["final"]})
        return {"runs": runs}

    def oracle(self, c, o):
        o = self.resolve(c, o)
        if o is None:
            return None                     # the wall-clock guard expired twice: no verdict
        if "crash" in o:
            return ("crash", f"the harness could not contain the run: {str(o)[:300]}")
        r0 = o["runs"][0]
        for k, r in enumerate(o["runs"]):
            if r["ret"] == "hang":
                return ("hang", f"variant {k}: run() never returned although nothing could move any more")
            if r["ret"] != "ok":
                return ("run-failed", f"variant {k} ended with {r['ret']} although no failure was injected")
            for p in c["outputs"]:
                tags = [t for t, _ in r["out"][p]]
                if len(set(tags)) != len(tags):
                    return ("tag-bound-twice", f"variant {k}: port {p} binds a tag twice: {r['out'][p]}")
                if r["out"][p] != r0["out"][p]:
                    return ("outputs-differ", f"port {p}: variant 0 gives {r0['out'][p]}, variant {k} gives "
                                              f"{r['out'][p]}")
                if len(r["out"][p]) <= 1 and r["retval"].get(p) != r0["retval"].get(p):
                    return ("return-differs", f"run() value of {p}: {r0['retval'].get(p)} vs {r['retval'].get(p)}")
        return None

    def coq_case(self, c, o):
        o = self.resolve(c, o)
        if o is None or "crash" in o or not netlib.tg_only(c):
            return None
        for r in o["runs"]:
            for toks in r["out"].values():
                if any(not isinstance(v, int) or isinstance(v, bool) for _, v in toks):
                    return None
        src = port_sources(c)
        obs = coq_list([coq_list([coq_list([coq_tok(t, v) for t, v in r["out"][p]]) for p in c["outputs"]])
                        for r in o["runs"]])
        return (f"COut {coq_win(c)} {coq_specs(c)} {coq_nat(net_fuel(c))} "
                f"{coq_list([src[p] for p in c['outputs']])} {obs}")

    def nontrivial(self, c):
        n = max(len(v) for v in c["inputs"].values())
        return len(c["steps"]) >= 2 and (n >= 2 or not netlib.tg_only(c))

    def signature(self, c, o, clause):
        return f"det/{clause}/{'tg' if netlib.tg_only(c) else 'sg'}"

    def shrink(self, c):
        if len(c["variants"]) > 2:
            for i in range(1, len(c["variants"])):
                yield {**c, "variants": [c["variants"][0], c["variants"][i]]}
        used = netlib.consumers(c)
        if len(c["steps"]) > 1 and not any(p in used for p in c["steps"][-1]["outs"].values()):
            d = copy.deepcopy(c)
            d["steps"].pop()
            yield netlib.fix_outputs(d)
        if any(len(v) > 1 for v in c["inputs"].values()) and netlib.tg_only(c):
            d = copy.deepcopy(c)
            d["inputs"] = {p: v[:-1] if len(v) > 1 else v for p, v in d["inputs"].items()}
            yield d


    def extra_samples(self):
        return [self.guard_sample()]


PROP = C05()
