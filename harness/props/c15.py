"""C15 — Each scheduled job gets its own existing working directories."""
from harness.lib.framework import Prop, coq_bool, coq_list, coq_opt, coq_str


def comps(p):
    return [c for c in p.split("/") if c]


class C15(Prop):
    ID = "C15"
    PROPS_FILE = "Props/C15.v"
    CORR_MODULE = "JobDirs.Corr"
    MAX_WORKERS = 4
    CASE_TIMEOUT = 900          # a 9-job two-node case needs ~4 s on a calm machine, 40 s at load 60, >120 s observed
    SHARD_TIMEOUT = 7200
    LEVEL_TEXT = ("Theorems (Coq, closed under the global context): directories not fixed by the step are pairwise "
                  "distinct for distinct (job, role) for any number of jobs, given an injective name source (uuid4); "
                  "fixed directories are used verbatim; after the registration loop of ScheduleStep._schedule every "
                  "directory is available in the C21 registry model on every allocated location, from any registry "
                  "state, and stays so; mkdir -p on an abstract file system makes the directory and its ancestors "
                  "exist; the realpath branch of the registration loop (SYMBOLIC_LINK + real path) is modelled with the "
                  "file system's answer as an oracle and the same availability theorem holds for every oracle. The real "
                  "ScheduleStep is run (local deployment, and a shell-backed remote deployment of 2..3 "
                  "nodes with separate directories reached through /bin/sh and jobs allocated on 1 or 2 nodes; 1..10 "
                  "concurrent jobs of one step, with and without fixed directories) and its JobTokens, the real file "
                  "system of every allocated node and get_data_locations per node are compared with the model and "
                  "judged by an oracle written from the property text.")
    LEVEL_NOTE = ("Partial: the file system is an abstract set in the model (real mkdir only exercised: local location and "
                  "shell-backed nodes, one of them with a symbolic-link work directory in some cases); wrapped locations and a "
                  "symbolic-link work directory on the FIRST allocated location are not covered by the "
                  "correspondence; task interleavings are sampled by seeded permutations, not enumerated; uuid4 uniqueness is an assumption. No axioms.")
    TECHNIQUE = "Coq proof over a hand-written model (on top of the C21 registry model) + vm_compute correspondence"
    RULE = ("a ScheduleStep receives n in 1..10 (thorough: ..40) tokens with distinct tags, so that n jobs are scheduled "
            "concurrently, alternately on the local deployment and on a shell-backed remote deployment of 2..3 nodes "
            "with 1 or 2 locations per job, about half of the cases under a seeded permutation of the ready task "
            "steps of every event-loop turn; each of input/output/tmp directory is either left to the step or fixed "
            "(possibly with a blank in its name, possibly nested, possibly shared between roles). Non-trivial = at "
            "least 2 jobs. Distinct = distinct canonical JSON.")
    TRUSTED = ("model: JobDirs/Model.v and DataReg/Model.v are hand-written; os.path.join, pathlib mkdir/resolve, "
               "uuid4 and the local connector are not verified, only exercised",)
    ASSUMPTIONS = ("utils.random_name() never returns the same name twice (uuid4)",
                   "the real path of a job directory is the same on every allocated location: the code resolves each "
                   "directory on the FIRST location only (step.py _set_job_directories) and registers that string on "
                   "all of them",
                   "a fixed directory is a non-empty string ('' is falsy in _get_directory and draws a name like None)",
                   "the work directory of the target is not a symbolic link (realpath == directory)")

    def gen(self, rng, tier):
        n = {"quick": 24, "thorough": 80, "extended": 60}[tier]   # 24 -> two worker shards
        hi = 10 if tier == "quick" else 40
        cases = []
        for i in range(n):
            fix = []
            for role in ("in", "out", "tmp"):
                r = rng.random()
                fix.append(None if r < 0.55 else "" if r < 0.62 else
                           rng.choice([f"fixed/{role}", f"fixed {role}", f"fx/{role}/deep", "shared"]))
            c = {"f": "sched", "n": 1 if i == 0 else rng.randrange(2, hi + 1), "fix": fix}
            if i % 2 == 1:
                # shell-backed remote deployment with 2..3 nodes; a job takes 1 or 2 of them
                c.update({"dep": "shell", "nodes": rng.choice([2, 2, 3]), "locations": rng.choice([1, 2, 2])})
                if i % 6 == 3:
                    # on node n2 the work directory is a symbolic link: the directories resolve elsewhere there, so
                    # _schedule takes its realpath branch (n1 stays the first location: both nodes are allocated)
                    c.update({"nodes": 2, "locations": 2, "symlink": ["n2"]})
            if i % 4 >= 2 or i == 1:
                # seeded task interleaving: the ready task steps of every event-loop turn are permuted with this seed
                c["sched"] = rng.randrange(1, 10**6)
            cases.append(c)
        return cases

    def impl_init(self):
        import asyncio
        import json
        import os
        import shutil
        import tempfile

        from streamflow.core.config import BindingConfig
        from streamflow.core.deployment import DeploymentConfig, Target
        from streamflow.core.scheduling import AvailableLocation
        from streamflow.core.workflow import Token, Workflow
        from streamflow.deployment.connector import connector_classes
        from streamflow.deployment.connector.base import BaseConnector
        from streamflow.main import build_context
        from streamflow.workflow.port import ConnectorPort
        from streamflow.workflow.step import DeployStep, ScheduleStep
        from streamflow.workflow.token import JobToken, TerminationToken

        class ShellNodesConnector(BaseConnector):
            """A 'remote' deployment of several nodes.  Node <name> is the directory <root>/<name> on this machine,
            reached through /bin/sh (BaseConnector.run: persistent shell, else a subprocess).  Remote absolute paths
            live under the virtual root VROOT, which is rewritten to the node's directory in every command and back
            in every output, so the nodes have separate file systems although they share the machine."""

            VROOT = "/sfvroot"

            def __init__(self, deployment_name, config_dir, root, nodes, symlink=None, transferBufferSize=2**16):
                super().__init__(deployment_name, config_dir, transferBufferSize)
                self.root, self.nodes, self.symlink = root, nodes, symlink or []

            @classmethod
            def get_schema(cls):
                return json.dumps({"$schema": "https://json-schema.org/draft/2020-12/schema",
                                   "$id": "https://streamflow.di.unito.it/schemas/verif/shellnodes.json",
                                   "type": "object",
                                   "properties": {"root": {"type": "string"}, "nodes": {"type": "integer"},
                                                  "symlink": {"type": "array", "items": {"type": "string"}}},
                                   "required": ["root", "nodes"], "additionalProperties": False})

            def node_dir(self, name):
                return os.path.join(self.root, name) + self.VROOT

            async def deploy(self, external):
                for k in range(self.nodes):
                    d = self.node_dir(f"n{k + 1}")
                    os.makedirs(d, exist_ok=True)
                    if f"n{k + 1}" in self.symlink:        # <node>/sfvroot/wd -> realwd
                        os.makedirs(os.path.join(d, "realwd"), exist_ok=True)
                        os.symlink("realwd", os.path.join(d, "wd"))

            async def get_available_locations(self, service=None):
                return {f"n{k + 1}": AvailableLocation(name=f"n{k + 1}", deployment=self.deployment_name,
                                                       service=service, hostname="localhost", local=False, slots=1000)
                        for k in range(self.nodes)}

            async def run(self, location, command, environment=None, workdir=None, stdin=None,
                          stdout=asyncio.subprocess.STDOUT, stderr=asyncio.subprocess.STDOUT, capture_output=False,
                          timeout=None, job_name=None):
                real = self.node_dir(location.name)
                res = await super().run(location, [str(x).replace(self.VROOT, real) for x in command], environment,
                                        workdir.replace(self.VROOT, real) if workdir else workdir, stdin, stdout, stderr,
                                        capture_output, timeout, job_name)
                if res is not None and isinstance(res[0], str):
                    res = (res[0].replace(real, self.VROOT), res[1])
                return res

        connector_classes["sfv-shellnodes"] = ShellNodesConnector

        import random

        class PermutingLoop(asyncio.SelectorEventLoop):
            """Before every turn, the ready callbacks that are steps/wake-ups of asyncio Tasks are permuted among
            themselves with a seeded generator (a task has at most one of them pending, so every permutation is an
            interleaving of different tasks); transport and future callbacks keep their places, so that the bytes of
            a pipe are never reordered."""

            def __init__(self, seed):
                super().__init__()
                self._sfv_rng = random.Random(seed)
                self.permuted = 0

            def _run_once(self):
                ready = self._ready
                idx = [i for i in range(len(ready)) if type(ready[i]._callback).__name__.startswith("Task")]  # no iteration: threads may append
                if len(idx) > 1:
                    hs = [ready[i] for i in idx]
                    self._sfv_rng.shuffle(hs)
                    for i, h in zip(idx, hs):
                        ready[i] = h
                    self.permuted += 1
                super()._run_once()

        self.PermutingLoop = PermutingLoop
        self.m = dict(asyncio=asyncio, os=os, shutil=shutil, tempfile=tempfile, BindingConfig=BindingConfig,
                      DeploymentConfig=DeploymentConfig, Target=Target, Token=Token, Workflow=Workflow,
                      build_context=build_context, ConnectorPort=ConnectorPort, DeployStep=DeployStep,
                      ScheduleStep=ScheduleStep, JobToken=JobToken, TerminationToken=TerminationToken,
                      VROOT=ShellNodesConnector.VROOT)

    async def _run(self, c, base):
        m = self.m
        os = m["os"]
        ctx = m["build_context"]({"database": {"type": "default", "config": {"connection": ":memory:"}}, "path": base})
        try:
            shell = c.get("dep") == "shell"
            vbase = m["VROOT"] if shell else base          # what the step sees as the root of its directories
            wd = vbase + "/wd"
            fixed = [vbase + "/" + f if f else f for f in c["fix"]]      # None stays None, "" stays ""
            wf = m["Workflow"](ctx, config={}, name="w")
            if shell:
                dc = m["DeploymentConfig"](name="nodes", type="sfv-shellnodes",
                                           config={"root": os.path.join(base, "remote"), "nodes": c["nodes"],
                                                   "symlink": c.get("symlink", [])},
                                           external=False, lazy=False, workdir=wd)
            else:
                dc = m["DeploymentConfig"](name="__LOCAL__", type="local", config={}, external=True, lazy=False, workdir=wd)
            cport = wf.create_port(cls=m["ConnectorPort"])
            dstep = wf.create_step(cls=m["DeployStep"], name="/__deploy__/d", deployment_config=dc, connector_port=cport)
            bc = m["BindingConfig"](targets=[m["Target"](deployment=dc, workdir=wd, locations=c.get("locations", 1))])
            sstep = wf.create_step(cls=m["ScheduleStep"], name="/s/__schedule__", job_prefix="/s",
                                   connector_ports={dc.name: cport}, binding_config=bc,
                                   input_directory=fixed[0], output_directory=fixed[1], tmp_directory=fixed[2])
            inp = wf.create_port()
            sstep.add_input_port("in", inp)
            for i in range(c["n"]):
                inp.put(m["Token"](value=i, tag=f"0.{i}"))
            inp.put(m["TerminationToken"]())
            await wf.save(ctx.database)
            await m["asyncio"].gather(dstep.run(), sstep.run())
            jobs = []
            for t in sstep.get_output_port().token_list:
                if isinstance(t, m["JobToken"]):
                    j = t.value
                    locs = ctx.scheduler.get_locations(j.name)
                    dirs = [j.input_directory, j.output_directory, j.tmp_directory]

                    def real(loc, d):
                        return os.path.join(base, "remote", loc.name) + d if shell else d

                    extra = {}
                    if c.get("symlink"):
                        extra["reg"] = [[sorted([x.deployment, x.name, x.path, x.data_type.name]
                                                for x in ctx.data_manager.get_data_locations(d, dc.name, f"n{k + 1}"))
                                         for k in range(c["nodes"])] for d in dirs]
                    jobs.append({**extra, "name": j.name, "dirs": dirs, "locs": sorted(l.name for l in locs),
                                 "exist": [[l.name for l in locs if not os.path.isdir(real(l, d))] for d in dirs],
                                 "registered": [[l.name for l in locs if not ctx.data_manager.get_data_locations(
                                     d, l.deployment, l.name)] for d in dirs]})
            return {"status": sstep.status.name, "jobs": jobs, "vbase": vbase}
        finally:
            await ctx.deployment_manager.undeploy_all()
            await ctx.close()

    def impl_run(self, c):
        m = self.m
        base = m["os"].path.realpath(m["tempfile"].mkdtemp(prefix="sfv-c15-", dir="/var/tmp"))
        try:
            if c.get("sched") is None:
                ob = m["asyncio"].run(self._run(c, base))
            else:
                loop = self.PermutingLoop(c["sched"])
                m["asyncio"].set_event_loop(loop)
                try:
                    ob = loop.run_until_complete(self._run(c, base))
                    ob["permuted_turns"] = loop.permuted > 0
                finally:
                    m["asyncio"].set_event_loop(None)
                    loop.close()
        finally:
            m["shutil"].rmtree(base, ignore_errors=True)
        # canonical form: the root becomes /B, drawn names become u0, u1, ... in order of appearance;
        # "exist"/"registered" list the locations of the job where the directory is missing / not registered
        vbase = ob.pop("vbase")
        names = {}

        def canon(d):
            if d is None:
                return None
            if not d.startswith(vbase + "/"):
                return "!" + d
            cs = comps(d[len(vbase):])
            if len(cs) == 2 and cs[0] in ("wd", "realwd"):
                cs[1] = names.setdefault(cs[1], f"u{len(names)}")
            return "/B/" + "/".join(cs)

        ob["jobs"].sort(key=lambda j: [int(x) for x in j["name"].rsplit("/", 1)[1].split(".")])
        for j in ob["jobs"]:
            j["dirs"] = [canon(d) for d in j["dirs"]]
        for j in ob["jobs"]:                      # after every directory got its canonical name
            if "reg" in j:
                j["reg"] = [[sorted([it[0], it[1], canon(it[2]), it[3]] for it in items) for items in per_dir]
                            for per_dir in j["reg"]]
        return ob

    # ---------------------------------------------------------------- oracle (from the property text)
    def oracle(self, c, o):
        if "crash" in o or "hang" in o:
            return ("crash", f"implementation crashed/hung: {str(o)[:400]}")
        if len(o["jobs"]) != c["n"]:
            return ("jobs", f"{c['n']} tokens but {len(o['jobs'])} jobs scheduled (status {o['status']})")
        fixed = {"/B/" + f for f in c["fix"] if f}
        seen = {}
        for j in o["jobs"]:
            for role, d, ex, rg, fx in zip(("input", "output", "tmp"), j["dirs"], j["exist"], j["registered"], c["fix"]):
                if d is None or d.startswith("!"):
                    return ("directory", f"job {j['name']}: {role} directory {d!r} is not under the work directory")
                if len(j["locs"]) != c.get("locations", 1):
                    return ("locations", f"job {j['name']} has locations {j['locs']}, {c.get('locations', 1)} asked")
                if ex:
                    return ("exists", f"job {j['name']}: {role} directory {d} does not exist on location(s) {ex}")
                if rg:
                    return ("registered", f"job {j['name']}: {role} directory {d} is not registered on location(s) {rg}")
                if fx and d != "/B/" + fx:
                    return ("fixed", f"job {j['name']}: {role} directory fixed to /B/{fx} but is {d}")
                if not fx:
                    if d in fixed:
                        return ("distinct", f"job {j['name']}: {role} directory {d} collides with a fixed directory")
                    if d in seen and seen[d] != j["name"]:
                        return ("distinct", f"jobs {seen[d]} and {j['name']} share the directory {d}")
                    seen[d] = j["name"]
        return None

    # ---------------------------------------------------------------- model side
    def _cpath(self, p):
        return coq_list([coq_str(x) for x in comps(p)])

    def coq_case(self, c, o):
        if "crash" in o or "hang" in o or len(o["jobs"]) != c["n"]:
            return None
        names, jobs = [], []
        for j in o["jobs"]:
            if any(d is None or d.startswith("!") for d in j["dirs"]):
                return None
            for d, fx in zip(j["dirs"], c["fix"]):
                names.append(comps(d)[-1] if not fx else "")
            jobs.append(f"CJob {self._cpath(j['dirs'][0])} {self._cpath(j['dirs'][1])} {self._cpath(j['dirs'][2])} "
                        f"{coq_bool(not any(j['exist']))} {coq_bool(not any(j['registered']))}")
        f = "mkfixed " + " ".join(coq_opt(("/B/" + x) if x else None, self._cpath) for x in c["fix"])
        if c.get("symlink"):
            if any("reg" not in j for j in o["jobs"]):
                return None
            tab = coq_list([f'mkloc ({coq_str("nodes")}, {coq_str(f"n{k + 1}")}) false None []' for k in range(c["nodes"])])
            syms = coq_list([f"{int(n[1:]) - 1}%nat" for n in c["symlink"]])
            item = lambda it: f"(({coq_str(it[0])}, {coq_str(it[1])}), {self._cpath(it[2])}, {it[3]})"
            obs = coq_list([coq_list([coq_list([coq_list([item(it) for it in items]) for items in per_dir])
                                      for per_dir in j["reg"]]) for j in o["jobs"]])
            return (f"CJobsRp {self._cpath('/B/wd')} {self._cpath('/B/realwd')} {syms} {tab} ({f}) "
                    f"{coq_list([coq_str(n) for n in names])} {coq_list(jobs)}\n   {obs}")
        return f"CJobs {self._cpath('/B/wd')} ({f}) {coq_list([coq_str(n) for n in names])} {coq_list(jobs)}"

    def nontrivial(self, c):
        return c["n"] >= 2

    def signature(self, c, o, clause):
        return f"{clause}/{c.get('dep', 'local')}/{'fixed' if any(c['fix']) else 'free'}"

    def shrink(self, c):
        if c["n"] > 1:
            yield {**c, "n": c["n"] // 2}
            yield {**c, "n": c["n"] - 1}
        if c.get("nodes", 2) > 2:
            yield {**c, "nodes": 2}
        if c.get("sched") is not None:
            yield {k: v for k, v in c.items() if k != "sched"}
        for i in range(3):
            if c["fix"][i]:
                yield {**c, "fix": c["fix"][:i] + [None] + c["fix"][i + 1:]}


PROP = C15()
