"""C04 — Every well-formed workflow terminates, and failures terminate every step."""
import copy

from harness.lib.framework import Prop, coq_bool, coq_list, coq_nat, coq_str, coq_Z
from harness.props import netlib

CODE = {"WAITING": 0, "FIREABLE": 1, "RUNNING": 2, "SKIPPED": 3, "COMPLETED": 4, "FAILED": 5, "CANCELLED": 6,
        "ROLLBACK": 7, "RECOVERY": 8, "RECOVERED": 9}
TERMINAL = ("SKIPPED", "COMPLETED", "FAILED", "CANCELLED")


# ---------------------------------------------------------------------------------- Gallina rendering (shared with C05)
def coq_tok(tag, v):
    return f"(Tok {coq_str(tag)} {coq_Z(v)})"


def coq_term(name):
    return f"(Term {name})"


def port_sources(case):
    src = {}
    for k, p in enumerate(case["inputs"]):
        src[p] = f"(WIn {coq_nat(k)})"
    for si, s in enumerate(case["steps"]):
        for j, p in enumerate(s["outs"].values()):
            src[p] = f"(SOut {coq_nat(si)} {coq_nat(j)})"
    return src


def coq_specs(case):
    src = port_sources(case)
    out = []
    for s in case["steps"]:
        ins = coq_list([src[p] for p in s["ins"].values()])
        if s["k"] == "xf":
            kind = f"(KXf {coq_Z(s.get('add', 0))} {coq_list([coq_str(t) for t in s.get('fail', [])])})"
        else:
            names = list(s["ins"])
            fwd = coq_list([coq_nat(names.index(o)) for o in s["outs"]])
            kind = f"(KCond {coq_Z(s.get('mod', 2))} {coq_Z(s.get('rem', 0))} {fwd} {coq_bool(s.get('skip', True))})"
        out.append(f"(mkT {kind} {ins} {coq_nat(len(s['outs']))})")
    return coq_list(out)


def coq_win(case):
    return coq_list([coq_list([coq_tok(t, v) for t, v in toks] + [coq_term("COMPLETED")])
                     for toks in case["inputs"].values()])


def net_fuel(case):
    m = max([len(v) for v in case["inputs"].values()] + [0])
    return min(4000, len(case["steps"]) * (m + 2) + 2)


def coq_port_obs(o, p):
    d = o["ports"][p]
    return coq_list([coq_tok(t, v) for t, v in d["toks"]] + [coq_term(x) for x in d["terms"]])


def in_model(case, o):
    if not netlib.tg_only(case) or "ports" not in o:
        return False
    for d in o["ports"].values():
        for t, v in d["toks"]:
            if not isinstance(v, int) or isinstance(v, bool):
                return False
    return True


def coq_net_case(case, o, failrun):
    obs = coq_list([f"({coq_Z(CODE[o['final'][s['n']][0]])}, "
                    f"{coq_list([coq_port_obs(o, p) for p in s['outs'].values()])})" for s in case["steps"]])
    return (f"CNet {coq_win(case)} {coq_specs(case)} {coq_nat(net_fuel(case))} {coq_bool(failrun)} {obs} "
            f"{coq_bool(o['ret'].startswith('raise'))}")


class C04(netlib.Guarded, Prop):
    ID = "C04"
    PROPS_FILE = "Props/C04.v"
    CORR_MODULE = "Net.Corr"
    LEVEL = "proof"
    MAX_WORKERS = 6
    CASE_TIMEOUT = netlib.GUARD_CASE_TIMEOUT      # outer guard only: a hang verdict is structural (see netlib)
    SHARD_TIMEOUT = netlib.GUARD_SHARD_TIMEOUT
    LEVEL_TEXT = (
        "Theorems (Coq, closed) over a network model: steps are deterministic round machines over single-writer ports "
        "listed in topological order; an execution is ANY list of scheduling choices. Proved for every such network "
        "whose round function honours a three-clause contract (a round that reads a TerminationToken terminates the "
        "step; a round emits one list per output port; data lists contain no TerminationToken): every execution is "
        "no longer than the canonical one, every maximal execution ends with every step terminated and exactly one "
        "TerminationToken, last, on every output port (Net_terminates). The contract is proved for the modelled "
        "Transformer/ConditionalStep rounds (_get_inputs, _group_by_tag, _reduce_statuses, _get_status, terminate); "
        "GatherStep's termination for every arrival list is proved from the C01 model (C04_contract_gather); "
        "for networks mixing sequential and merge-style steps (log machines) no-deadlock / stuck-implies-terminated / "
        "no-read-past-a-termination-token hold for every execution and every execution can be completed "
        "(C04_mixed_net_partial, C04_mixed_net_can_complete), instantiated with no hypothesis for ScatterStep, one-input "
        "Transformer, GatherStep and CombinatorStep with any C02 combinator tree; LoopCombinatorStep/LoopOutputStep/"
        "ExecuteStep/Schedule/Transfer are only assumed to honour the contracts. FAILED is absorbing "
        "through _reduce_statuses/_get_status when no CANCELLED is present. The executor's closing logic is a state machine "
        "over (_closed, every step's terminated flag and status): close() turns unterminated steps into CANCELLED ones, the "
        "raise is read off the state; in every reachable network state a FAILED termination token belongs to a FAILED "
        "step, hence run() raises and every step is terminated (C04_failure_raises_and_terminates_all; repaired "
        "_cancel; the pre-fix behaviour is kept as C04_prefix_cancel_leaves_steps_refuted). "
        "asyncio itself, task cancellation and real jobs are not modelled: they are exercised by running the real "
        "StreamFlowExecutor under a seeded permuting event loop on generated DAGs and comparing every step's final "
        "status and every port's history with the model.")
    LEVEL_NOTE = ("partial: asyncio and task cancellation are outside the proof (exercised only). Proved contracts: Transformer/"
                  "ConditionalStep rounds, ScatterStep, one-input Transformer, GatherStep, CombinatorStep (any C02 tree) as log "
                  "machines; still assumed: LoopCombinatorStep, LoopOutputStep (not single-writer: stays with C06), ExecuteStep, "
                  "ScheduleStep, TransferStep, DeployStep, InputInjectorStep. Mixed networks have no uniform bound on "
                  "execution length. Steps without input ports are excluded by well-formedness. Executor: the re-open "
                  "branch of _wait_outputs (ports added while running) and run() without output ports are not modelled. "
                  "Engine runs of scatter/gather/combinator/execute graphs are judged by the oracle only")
    TECHNIQUE = ("Coq proof (diamond property of rounds + canonical topological schedule) + vm_compute correspondence "
                 "against StreamFlowExecutor.run() under permuted asyncio schedules")
    RULE = ("net: random DAGs of 1..7 Transformer/ConditionalStep subclasses over 1..3 injected ports with 0..12 tags "
            "(incl. >=10, shuffled tag order, unequal port lengths, int values colliding with Status codes), optional "
            "failing tag, optional held step (a long job in another branch), optional extra suspension points, 8% with one "
            "sink port left out of the workflow outputs, each run "
            "under its own seeded permutation of the asyncio ready queue; plus scatter->transform->gather and "
            "scatter x scatter -> dot/cartesian -> transform graphs, and Deploy/Schedule/Execute pipelines on the local "
            "deployment whose ExecuteStep runs one job per scattered element concurrently, one of them failing while its "
            "siblings are held (all oracle only); reduce/get_status: random status "
            "lists. Non-trivial = a net with >=2 steps or a failure; distinct = distinct canonical JSON (schedule seed "
            "included).")
    TRUSTED = ("model: Net/Model.v (round abstraction of _get_inputs-based steps; Port = token_list + cursor; executor "
               "closing logic) is hand-written; asyncio (gather/wait/Queue/cancel), aiosqlite and SQLite are not "
               "modelled, only exercised",
               "the harness' Transformer/ConditionalStep subclasses (netlib.VTransformer, VCond) stand for user steps")
    ASSUMPTIONS = ("well-formed = acyclic, single-writer ports, every step has at least one input port (a Transformer/"
                   "ConditionalStep without input ports is not covered), every injected port ends with a TerminationToken; the "
                   "'runs to completion without failure' clause is judged only on shape-regular graphs (all input "
                   "ports of a step carry the same tags once)",
                   "the executor observes a held step like a long-running job: it finishes when nothing else can move")

    # ------------------------------------------------------------------ generation
    def gen(self, rng, tier):
        n_net, n_sg, n_red = {"quick": (160, 30, 100), "thorough": (900, 150, 500),
                              "extended": (600, 100, 100)}[tier]
        cases = []
        for _ in range(n_net):
            cases.append(netlib.gen_tg_net(rng, big=(tier != "quick"), drop_sink_p=0.08))
        for _ in range(n_sg):
            cases.append(netlib.gen_sg_net(rng))
        for _ in range({"quick": 30, "thorough": 150, "extended": 100}[tier]):
            cases.append(netlib.gen_exec_net(rng))
        for _ in range(n_red):
            vals = [rng.choice([3, 4, 4, 4, 3, 9, 5, 6, 0, 1, 2, 7, 8, 17, 30]) for _ in range(rng.randrange(0, 6))]
            if rng.random() < 0.5:
                vals = [v for v in vals if v not in (5, 6)]
            cases.append({"f": "reduce", "vals": vals})
        # every ordered pair of statuses, and the triples around FAILED / CANCELLED / RECOVERED / SKIPPED
        for a in range(10):
            for b in range(10):
                cases.append({"f": "reduce", "vals": [a, b]})
        for a in (3, 4, 5, 6, 9):
            for b in (3, 4, 5, 6, 9):
                for d in (3, 5, 6, 9):
                    cases.append({"f": "reduce", "vals": [a, b, d]})
        for s in range(10):
            for e in (False, True):
                cases.append({"f": "get_status", "s": s, "empty": e})
        return cases

    # ------------------------------------------------------------------ implementation
    def impl_init(self):
        import logging

        self.env = netlib.Env()
        logging.getLogger("streamflow").setLevel(logging.CRITICAL)
        from streamflow.core.workflow import Status
        from streamflow.workflow import step as wstep

        self.Status, self.wstep = Status, wstep

    def impl_run(self, c):
        f = c["f"]
        if f == "net":
            o = netlib.run_net(self.env, c)
            o.pop("persisted", None)
            return o
        if f == "reduce":
            vals = [self.Status(v) if 0 <= v <= 9 else v for v in c["vals"]]
            return {"r": int(self.wstep._reduce_statuses(vals))}
        if f == "get_status":
            env = self.env

            class P:
                def __init__(self, e):
                    self.e = e

                def empty(self):
                    return self.e

            class S(env.VTransformer):
                def __init__(self, e):
                    self.e = e

                def get_output_ports(self):
                    return {"o": P(self.e), "q": P(False)}

            return {"r": int(S(c["empty"])._get_status(self.Status(c["s"])))}
        raise ValueError(f)

    # ------------------------------------------------------------------ oracle (from the property text)
    def oracle(self, c, o):
        o = self.resolve(c, o)
        if o is None:
            return None                     # the wall-clock guard expired twice: no verdict
        if "crash" in o:
            return ("crash", f"the harness could not contain the run: {str(o)[:300]}")
        if c["f"] != "net":
            return None
        if o["ret"] == "hang":
            return ("hang", "executor.run() never returned although nothing could move any more")
        failed = bool(o["raised"])
        notterm = [n for n, (st, t) in o["at_return"].items() if not t or st not in TERMINAL]
        if failed:
            if not o["ret"].startswith("raise"):
                return ("failure-not-raised", f"step(s) {o['raised']} failed but run() returned normally")
            if notterm:
                return ("failure-leaves-steps", f"run() raised while steps {notterm} were not terminated: "
                                                f"{ {n: o['at_return'][n] for n in notterm} }")
        else:
            if c.get("regular", False) and o["ret"] != "ok":
                return ("completes", f"no step failed but run() ended with {o['ret']}; statuses {o['at_return']}")
            if notterm:
                return ("return-before-terminated", f"run() ended ({o['ret']}) while steps {notterm} were not "
                                                    f"terminated: { {n: o['at_return'][n] for n in notterm} }")
        if o["pending"]:
            return ("task-hangs", f"tasks still pending after quiescence: {o['pending']}")
        for s in c["steps"]:
            for p in s["outs"].values():
                if len(o["ports"][p]["terms"]) != 1:
                    return ("term-count", f"port {p} of {s['n']} carries termination tokens {o['ports'][p]['terms']}")
        return None

    # ------------------------------------------------------------------ model side
    def coq_case(self, c, o):
        o = self.resolve(c, o)
        if o is None or "crash" in o:
            return None
        f = c["f"]
        if f == "reduce":
            return f"CReduce {coq_list([coq_Z(v) for v in c['vals']])} {coq_Z(o['r'])}"
        if f == "get_status":
            return f"CGetStatus {coq_Z(c['s'])} {coq_bool(c['empty'])} {coq_Z(o['r'])}"
        if f == "net":
            if o["ret"] == "hang":
                return None
            if c.get("_exec"):
                def steps(l):
                    return coq_list([f"({coq_bool(t)}, {coq_Z(code)})" for _, t, code in l])

                evs = []
                for e in o["exec_at_return"]:
                    if len(e) < 5:
                        return None
                    evs.append(f"(mkXO {'XCancel' if e[0] == 'cancel' else 'XClose'} {coq_bool(e[1])} "
                               f"{steps(e[2])} {coq_bool(e[3])} {steps(e[4])})")
                if not o["exec_at_return"]:
                    return None
                failed_out = any(e[0] == "cancel" for e in o["exec_at_return"])
                at_ret = coq_list([f"({coq_bool(t)}, {coq_Z(CODE[st])})" for _, (st, t) in sorted(o["at_return"].items())])
                return (f"CExec {coq_list(evs)} {coq_bool(failed_out)} {coq_bool(o['ret'].startswith('raise'))} "
                        f"{steps(o['exec_at_return'][0][2])} {at_ret}")
            if not in_model(c, o):
                return None
            tolerant = bool(o["raised"]) or not c.get("regular", False) or netlib.has_unobserved_sink(c)
            return coq_net_case(c, o, tolerant)
        return None

    def nontrivial(self, c):
        return c["f"] != "net" or len(c["steps"]) >= 2 or any(s.get("fail") for s in c["steps"])

    def signature(self, c, o, clause):
        o = self.resolve(c, o) or {}
        if c["f"] != "net":
            return f"{c['f']}/{clause}"
        path = "cancel" if any(e[0] == "cancel" for e in o.get("exec", [])) else "close"
        kinds = "tg" if netlib.tg_only(c) else "sg"
        sink = "/sink" if netlib.has_unobserved_sink(c) else ""
        return f"net/{clause}/{path}/{kinds}{sink}"

    def shrink(self, c):
        if c["f"] != "net":
            return
        for i, s in enumerate(c["steps"]):
            if s.get("yields"):
                d = copy.deepcopy(c)
                d["steps"][i]["yields"] = 0
                yield d
        # drop the last step when nothing consumes its outputs
        used = netlib.consumers(c)
        if len(c["steps"]) > 1 and not any(p in used for p in c["steps"][-1]["outs"].values()):
            d = copy.deepcopy(c)
            d["steps"].pop()
            yield netlib.fix_outputs(d)
        # shorten every injected port by its last tag
        if any(len(v) > 1 for v in c["inputs"].values()):
            d = copy.deepcopy(c)
            d["inputs"] = {p: v[:-1] if len(v) > 1 else v for p, v in d["inputs"].items()}
            keep = {t for v in d["inputs"].values() for t, _ in v}
            if all(set(s.get("fail", [])) <= keep for s in d["steps"]):
                yield d

    def extra_samples(self):
        return [self.guard_sample()]


class _Both(C04):
    """a net case is rendered as the network comparison AND the executor-logic comparison (CBoth)"""

    def coq_case(self, c, o):
        a = super().coq_case(c, o)
        b = None
        if c.get("f") == "net" and "exec_at_return" in o and o.get("ret") != "hang":
            b = super().coq_case({**c, "_exec": True}, o)
        if a is not None and b is not None:
            return f"CBoth ({a}) ({b})"
        return a if a is not None else b


PROP = _Both()
