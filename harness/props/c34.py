"""C34 — Exported run provenance is self-contained and consistent.

Verified-checker design (translation validation).  Every case is a small CWL workflow (built from a
compact spec) that is run for real with `python -m streamflow run` (on-disk sqlite database, local
deployment, TMPDIR inside the case directory under /var/tmp), then exported with
`python -m streamflow prov`.  The worker parses the zip and ro-crate-metadata.json and returns the
graph, the archive entries (name, sha1, size — digests computed by the harness) and the run's
workflow-level input/output values (inputs from the case spec, outputs from the JSON StreamFlow printed
plus the files on disk).  The main process judges the crate with a Python oracle written from the
property text and hands graph/entries/values to the proven-sound Coq checker `Crate.Checker.crate_ok`,
evaluated inside Coq; `check_case` compares the checker's verdict with the oracle's.
"""
import hashlib
import json
import os
import re
import shutil
import subprocess
import sys
import zipfile

from harness.lib.framework import Prop, coq_bool, coq_list, coq_N, coq_str

BASE = "/var/tmp/sfv-c34-run"
UUID = re.compile(r"[0-9a-f]{8}-[0-9a-f]{4}-[0-9a-f]{4}-[0-9a-f]{4}-[0-9a-f]{12}")
TIMEKEYS = ("startTime", "endTime", "datePublished")
META_ENTRIES = ("ro-crate-metadata.json", "ro-crate-preview.html")

# ------------------------------------------------------------------------------------------------
# step kinds: name -> (input signature [(port, type)], output type)
KINDS = {
    "cat": ([("f", "File"), ("m", "string")], "File"),
    "echo": ([("m", "string")], "File"),
    "num": ([("n", "int")], "File"),
    "flag": ([("b", "boolean")], "File"),
    "expr": ([("m", "string")], "string"),
    "len": ([("m", "string")], "int"),
    "ls": ([("d", "Directory")], "File"),
    "mkd": ([("m", "string")], "Directory"),
    "scat": ([("f", "File[]"), ("m", "string")], "File[]"),
    "secho": ([("m", "string[]")], "File[]"),
    "split": ([("m", "string")], "File[]"),
    "join": ([("f", "File[]")], "File"),
    "words": ([("m", "string")], "string[]"),
    "idn": ([("n", "int")], "int"),
    "neg": ([("b", "boolean")], "boolean"),
    "ints": ([("n", "int")], "int[]"),
    "nsum": ([("n", "int[]")], "int"),
    "smkd": ([("m", "string[]")], "Directory[]"),
    "rcat": ([("r", "Rec")], "File"),
    "rmk": ([("r", "Rec")], "QRec"),
    "sfcat": ([("f", "SFile")], "File"),
    "sfmk": ([("m", "string")], "SFileOut"),
    "xn": ([("a", "string[]"), ("b", "string[]")], "File[][]"),
    "xf": ([("a", "string[]"), ("b", "string[]")], "File[]"),
}

_UNIQ = [0]


def _cwl_type(t):
    """CWL type (JSON) of a generator type name; record schemas get fresh names."""
    _UNIQ[0] += 1
    if t == "Rec":
        return {"type": "record", "name": f"Rec{_UNIQ[0]}", "fields": {"rf": "File", "rs": "string", "rn": "int"}}
    if t == "QRec":
        return {"type": "record", "name": f"QRec{_UNIQ[0]}", "fields": {"qs": "string", "qn": "int"}}
    if t == "File[][]":
        return {"type": "array", "items": {"type": "array", "items": "File"}}
    return t


def _cwl_param(t):
    """input/output parameter object of a generator type name"""
    if t == "SFile":
        return {"type": "File", "secondaryFiles": [".idx"]}
    if t == "SFileOut":
        return {"type": "File", "secondaryFiles": [".bak"]}
    return {"type": _cwl_type(t)}



def _tool(kind, sname, dup=False):
    """CWL (as JSON) of the tool implementing a step kind. sname makes output names distinct per step."""
    sh = lambda script, *args: {"baseCommand": ["sh", "-c"], "arguments": [script, "x"] + list(args)}
    t = {"class": "CommandLineTool", "cwlVersion": "v1.2"}
    ins = {p: ty for p, ty in KINDS[kind][0]}
    if kind == "cat":
        t.update(sh('cat "$1"; printf "%s\\n" "$2"', "$(inputs.f.path)", "$(inputs.m)"))
        t.update(inputs=ins, stdout=sname + ".txt", outputs={"o": "stdout"})
    elif kind == "echo":
        t.update(sh('printf "%s\\n" "$1"', "$(inputs.m)"))
        t.update(inputs=ins, stdout=sname + ".txt", outputs={"o": "stdout"})
    elif kind == "num":
        t.update(sh('printf "n=%s\\n" "$1"', "$(inputs.n)"))
        t.update(inputs=ins, stdout=sname + ".txt", outputs={"o": "stdout"})
    elif kind == "flag":
        t.update(sh('printf "b=%s\\n" "$1"', "$(inputs.b)"))
        t.update(inputs=ins, stdout=sname + ".txt", outputs={"o": "stdout"})
    elif kind == "expr":
        t = {"class": "ExpressionTool", "cwlVersion": "v1.2", "requirements": {"InlineJavascriptRequirement": {}},
             "inputs": ins, "outputs": {"o": "string"}, "expression": "${return {o: inputs.m + '!'};}"}
    elif kind == "len":
        t = {"class": "ExpressionTool", "cwlVersion": "v1.2", "requirements": {"InlineJavascriptRequirement": {}},
             "inputs": ins, "outputs": {"o": "int"}, "expression": "${return {o: inputs.m.length};}"}
    elif kind == "words":
        t = {"class": "ExpressionTool", "cwlVersion": "v1.2", "requirements": {"InlineJavascriptRequirement": {}},
             "inputs": ins, "outputs": {"o": "string[]"},
             "expression": "${return {o: [inputs.m + '1', inputs.m + '2', inputs.m + '1']};}"}
    elif kind in ("idn", "neg", "ints", "nsum"):
        e = {"idn": "inputs.n", "neg": "!inputs.b", "ints": "[0, inputs.n, 0]",
             "nsum": "inputs.n.reduce(function(a, b){return a + b;}, 0)"}[kind]
        t = {"class": "ExpressionTool", "cwlVersion": "v1.2", "requirements": {"InlineJavascriptRequirement": {}},
             "inputs": ins, "outputs": {"o": KINDS[kind][1]}, "expression": "${return {o: " + e + "};}"}
    elif kind == "ls":
        t.update(sh('cd "$1" && find . | sort', "$(inputs.d.path)"))
        t.update(inputs=ins, stdout=sname + ".txt", outputs={"o": "stdout"})
    elif kind == "mkd":
        t.update(sh('mkdir -p "$2/sub/deep" "$2/empty"; printf "%s\\n" "$1" > "$2/a.txt"; '
                    'printf "%s-%s\\n" "$1" "$1" > "$2/sub/b.txt"; printf "%s\\n" "$1" > "$2/sub/deep/a.txt"; '
                    'printf "%s+\\n" "$1" > "$2/sub/a.txt"',
                    "$(inputs.m)", sname + "_dir"))
        t.update(inputs=ins, outputs={"o": {"type": "Directory", "outputBinding": {"glob": sname + "_dir"}}})
    elif kind == "rcat":
        t.update(sh('cat "$1"; printf "%s %s\\n" "$2" "$3"', "$(inputs.r.rf.path)", "$(inputs.r.rs)", "$(inputs.r.rn)"))
        t.update(inputs={"r": _cwl_param("Rec")}, stdout=sname + ".txt", outputs={"o": "stdout"})
    elif kind == "rmk":
        t = {"class": "ExpressionTool", "cwlVersion": "v1.2", "requirements": {"InlineJavascriptRequirement": {}},
             "inputs": {"r": _cwl_param("Rec")}, "outputs": {"o": _cwl_param("QRec")},
             "expression": "${return {o: {qs: inputs.r.rs + '!', qn: inputs.r.rn * 0}};}"}
    elif kind == "sfcat":
        t.update(sh('cat "$1" "$1.idx"', "$(inputs.f.path)"))
        t.update(inputs={"f": _cwl_param("SFile")}, stdout=sname + ".txt", outputs={"o": "stdout"})
    elif kind == "sfmk":
        t.update(sh('printf "%s\\n" "$1" > ' + sname + '.dat; printf "bak %s\\n" "$1" > ' + sname + ".dat.bak",
                    "$(inputs.m)"))
        t.update(inputs=ins, outputs={"o": {"type": "File", "secondaryFiles": [".bak"],
                                            "outputBinding": {"glob": sname + ".dat"}}})
    elif kind in ("xn", "xf"):
        t.update(sh('printf "%s-%s\\n" "$1" "$2"', "$(inputs.a)", "$(inputs.b)"))
        t.update(inputs={"a": "string", "b": "string"}, stdout="$(inputs.a)_$(inputs.b)_" + sname + ".txt",
                 outputs={"o": "stdout"})
    elif kind == "smkd":
        # every scatter job writes rep/summary.txt and rep/details/summary.txt: same names, different content,
        # inside one tree and across the jobs
        t.update(sh('mkdir -p rep/details; printf "%s\\n" "$1" > rep/summary.txt; '
                    'printf "%s!\\n" "$1" > rep/details/summary.txt; printf "same\\n" > rep/common.txt', "$(inputs.m)"))
        t.update(inputs={"m": "string"}, outputs={"o": {"type": "Directory", "outputBinding": {"glob": "rep"}}})
    elif kind == "scat":
        t.update(sh('cat "$1"; printf "%s\\n" "$2"', "$(inputs.f.path)", "$(inputs.m)"))
        t.update(inputs={"f": "File", "m": "string"}, stdout="$(inputs.f.nameroot)_" + sname + ".txt",
                 outputs={"o": "stdout"})
    elif kind == "secho":
        t.update(sh('printf "%s\\n" "$1"', "$(inputs.m)"))
        t.update(inputs={"m": "string"}, stdout="$(inputs.m)_" + sname + ".txt", outputs={"o": "stdout"})
    elif kind == "split":
        # three files; with dup the first and the third have identical content (same checksum, two names)
        third = "$1" if dup else "$1 $1 $1"
        t.update(sh('printf "%s\\n" "$1" > ' + sname + '_p1.dat; printf "%s\\n" "$1 $1" > ' + sname +
                    '_p2.dat; printf "%s\\n" "' + third + '" > ' + sname + "_p3.dat", "$(inputs.m)"))
        t.update(inputs=ins, outputs={"o": {"type": "File[]", "outputBinding": {"glob": sname + "_p*.dat"}}})
    elif kind == "join":
        # /dev/null first: with an empty array a bare `cat` would wait on stdin for ever
        t = {"class": "CommandLineTool", "cwlVersion": "v1.2", "baseCommand": ["cat", "/dev/null"],
             "inputs": {"f": {"type": "File[]", "inputBinding": {"position": 1}}},
             "stdout": sname + ".txt", "outputs": {"o": "stdout"}}
    return t


def _sha1(b):
    return hashlib.sha1(b).hexdigest()


def _tree_files(tree, prefix=""):
    """[(relative path, bytes)] of a directory spec {name: str content | dict subtree}."""
    out = []
    for k in sorted(tree):
        v = tree[k]
        if isinstance(v, dict):
            out.extend(_tree_files(v, prefix + k + "/"))
        else:
            out.append((prefix + k, v.encode()))
    return out


def _write_tree(root, tree):
    os.makedirs(root, exist_ok=True)
    for k, v in tree.items():
        p = os.path.join(root, k)
        if isinstance(v, dict):
            _write_tree(p, v)
        else:
            with open(p, "wb") as f:
                f.write(v.encode())


def _lit_alts(v):
    """Texts accepted as a rendering of a literal (Python str() and JSON)."""
    alts = [str(v)]
    j = json.dumps(v) if not isinstance(v, str) else v
    if j not in alts:
        alts.append(j)
    return alts


class C34(Prop):
    ID = "C34"
    PROPS_FILE = "Props/C34.v"
    CORR_MODULE = "Crate.Corr"
    LEVEL = "translation_validation"
    LEVEL_TEXT = ("Translation validation by a checker proved sound AND complete in Coq (closed under the global context): "
                  "doc_ok metadata entries values stepvalues = true iff the declarative predicate wf_doc holds (the metadata is an "
                  "object with an @context whose @graph is an array; every entity has a string @id, @ids unique, every nested {\"@id\"} reference that is not an http(s) URL resolves, every "
                  "File entity records a sha1 and has an archive entry of that name whose digest equals it and whose size equals "
                  "the recorded contentSize when present, every workflow-level input/output value of the run is represented by "
                  "an entity listed under object/result of the root CreateAction, tied by exampleOfWork to the formal parameter "
                  "of that name, with matching sha1+size archive entry for files, literal text for literals, element-wise for "
                  "arrays and hasPart-reachable File entities for directory members; every CreateAction orchestrated for a step is "
                  "the record of one of the step's jobs - its object lists a carrier of everything the job consumed, and "
                  "nothing else when all its inputs are known, its result lists at least one entity and only carriers of "
                  "what the job produced - and every job, one per element for a scattered step, has such a record). Each exported crate of a real, small, "
                  "offline CWL run (streamflow run + streamflow prov on an on-disk sqlite database) is parsed and the checker "
                  "is evaluated inside Coq on it; an oracle written independently in Python from the property text judges "
                  "the same crate and the two verdicts are compared. The crate generator (run_crate.py) is NOT modelled.")
    LEVEL_NOTE = ("Proved: the checker decides the predicate, for all graphs/archives/value lists. Not proved: anything about "
                  "the generator; a crate is only known good when it was actually checked. Trusted: Coq kernel + vm_compute; "
                  "Python json/zipfile/hashlib used to parse the archive and compute digests; the rendering of JSON as "
                  "Gallina terms; the harness's computation of the run's input/output values (inputs from the case spec, "
                  "outputs from StreamFlow's printed result object and the files on disk; what a job consumed or produced is "
                  "known to the harness only when the source is a workflow input or a step output that is also a workflow "
                  "output. Records (File/string/int fields), Files with secondaryFiles (a Collection) and cross-product scatter "
                  "over two inputs (a grid of jobs) are generated and judged; nested records, arrays of records and "
                  "dotproduct over several inputs are not.")
    TECHNIQUE = ("verified checker (Coq soundness+completeness proof of crate_ok w.r.t. a declarative predicate) evaluated "
                 "with vm_compute on crates exported from real runs; independent Python oracle from the property text")
    RULE = ("cases are typed random workflow specs over step kinds cat/echo/num/flag/expr/len/words/ls/mkd/scat/secho/"
            "split/join/idn/neg/ints/nsum/smkd/rcat/rmk/sfcat/sfmk/xn/xf (records, Files with secondaryFiles, nested and flat cross-product scatter over two inputs; files vs literals incl. the falsy ones 0, false, \"\", zeros in arrays, scatter over File[] and string[], nested directories in and out, members with one basename and different content inside a tree and across scatter jobs, the same "
            "file/content used for two inputs, step outputs consumed by later steps and/or exported, inputs passed "
            "straight to outputs, embedded vs external tool files, optional deletion of an input/output/intermediate "
            "file or directory member before export; one case per run has 11-13 steps s1..s13 sharing one tool file). Non-trivial = the run completed and the crate was exported. "
            "Distinct = distinct canonical spec.")
    TRUSTED = ("checker: Crate/Checker.v crate_ok is what is proved (sound and complete for Crate/Spec.v wf_crate); the "
               "generator streamflow/provenance/run_crate.py is not modelled, only its output on each run is checked",
               "Python json, zipfile, hashlib (parsing the exported archive, digests and sizes of its entries)",
               "harness: CWL workflow builder, computation of the run values, JSON->Gallina rendering")
    ASSUMPTIONS = ("run values are the workflow-level inputs (job file) and outputs (result object printed by `streamflow run`), "
                   "plus, per step job, the consumed and produced values whose source is a workflow input or an exported step output",
                   "references whose @id starts with http:// or https:// are web resources and need no entity in the graph",
                   "a zip archive with two members of one name is not 'consistent' (which one is 'the' file of that name?): "
                   "member names must be unique",
                   "nested arrays are compared flattened (the exporter flattens them); record fields are compared as a set",
                   "a literal is represented by its Python str() or JSON text")
    MIN_JUDGED = 20        # floor on cases with an oracle verdict AND a Coq term (set per tier in gen)
    MAX_WORKERS = 8
    SHRINK_BUDGET_S = 0    # every shrink candidate is two engine runs; replays carry the unshrunk case
    CASES_PER_WORKER = 1   # every case is two real engine processes (run + prov)
    CASE_TIMEOUT = 600
    SHARD_TIMEOUT = 3000
    COQ_SHARD = 6

    # ------------------------------------------------------------------------------------------ generation
    WORDS = ["alpha", "beta", "gamma", "delta", "x1", "y-2", "z_3", "hello world", "q", "", ""]

    def _mkinput(self, rng, ty, idx, pool):
        n = f"i{idx}"
        if ty == "File":
            if pool and rng.random() < 0.3:   # same path again, or same content under another name
                prev = rng.choice(pool)
                if rng.random() < 0.5:
                    return {"n": n, "t": ty, "v": dict(prev)}
                return {"n": n, "t": ty, "v": {"name": "copy_" + prev["name"], "content": prev["content"]}}
            v = {"name": rng.choice(["a.txt", "b.dat", "c", "data.csv", "e f.txt"]) if rng.random() < 0.5 else f"in{idx}.txt",
                 "content": rng.choice(["", "hello\n", "x", "line1\nline2\n"]) + rng.choice(self.WORDS) * rng.randrange(0, 3)}
            if any(q["name"] == v["name"] for q in pool):   # one path, one content (same path again is the case above)
                v["name"] = f"in{idx}.txt"
            pool.append(v)
            return {"n": n, "t": ty, "v": v}
        if ty == "string":
            return {"n": n, "t": ty, "v": rng.choice(self.WORDS)}
        if ty == "int":
            return {"n": n, "t": ty, "v": rng.choice([0, 0, 1, 7, 10, 42, 123456789])}
        if ty == "boolean":
            return {"n": n, "t": ty, "v": rng.random() < 0.5}
        if ty == "string[]":
            k = rng.choice([0, 1, 2, 3])
            return {"n": n, "t": ty, "v": [rng.choice(["alpha", "beta", "gamma", "x1", "q"]) + str(j) for j in range(k)]}
        if ty == "Rec":
            return {"n": n, "t": ty, "v": {"rf": {"name": f"rec{idx}.txt", "content": rng.choice(["rf\n", "hello\n", ""])},
                                          "rs": rng.choice(self.WORDS), "rn": rng.choice([0, 3])}}
        if ty == "SFile":
            return {"n": n, "t": ty, "v": {"name": f"sf{idx}.txt", "content": rng.choice(["main\n", "hello\n"]),
                                          "idx": rng.choice(["index\n", "main\n", ""])}}
        if ty == "int[]":
            return {"n": n, "t": ty, "v": rng.choice([[], [0], [0, 3, 0], [5, 7], [0, 0], [12]])}
        if ty == "File[]":
            k = rng.choice([0, 1, 2, 3])
            vs = []
            for j in range(k):
                c = rng.choice(["same\n", f"f{j}\n", "hello\n"])
                vs.append({"name": f"arr{idx}_{j}.txt", "content": c})
            return {"n": n, "t": ty, "v": vs}
        if ty == "Directory":
            r = rng.random()
            if r < 0.15:
                tree = {}
            elif r < 0.5:
                tree = {"f1": "x\n", "f2": rng.choice(["y\n", "x\n"])}
            elif r < 0.75:
                tree = {"f1": "x\n", "sub": {"f2": "y\n", "deep": {"f3": rng.choice(["z\n", "x\n"])}},
                        "sub2": {"f2": "y\n"}}
            else:   # one basename, different content, at three depths of one tree
                tree = {"f1": "x\n", "summary.txt": f"top{idx}\n",
                        "details": {"summary.txt": "inner\n", "more": {"summary.txt": "deep\n", "f1": "other\n"}}}
            return {"n": n, "t": ty, "v": {"name": f"dir{idx}", "tree": tree}}
        raise ValueError(ty)

    def _spec(self, rng):
        ninp = rng.randrange(1, 5)
        types = ["File", "string", "int", "boolean", "Directory", "File[]", "string[]", "int[]", "Rec", "SFile"]
        weights = [4, 3, 2, 2, 2, 2, 2, 1, 1, 1]
        inputs, pool = [], []
        for i in range(ninp):
            inputs.append(self._mkinput(rng, rng.choices(types, weights)[0], i, pool))
        avail = {}  # type -> [source]
        for i in inputs:
            avail.setdefault(i["t"], []).append(i["n"])
        steps = []
        for s in range(rng.randrange(0, 5)):
            kinds = list(KINDS)
            rng.shuffle(kinds)
            for k in kinds:
                sig, out = KINDS[k]
                need = {ty for _, ty in sig}
                missing = [ty for ty in need if ty not in avail]
                for ty in missing:   # add an input of the missing type (keeps the step choice unbiased)
                    if len(inputs) < 7 and rng.random() < 0.6:
                        ni = self._mkinput(rng, ty, len(inputs), pool)
                        inputs.append(ni)
                        avail.setdefault(ty, []).append(ni["n"])
                if all(ty in avail for ty in need):
                    st = {"n": f"s{s}", "k": k, "in": {p: rng.choice(avail[ty]) for p, ty in sig}}
                    if k == "split":
                        st["dup"] = rng.random() < 0.5
                    steps.append(st)
                    avail.setdefault(out, []).append(f"s{s}/o")
                    break
        tyof = {i["n"]: i["t"] for i in inputs}
        tyof.update({f"{st['n']}/o": KINDS[st["k"]][1] for st in steps})
        outputs = []
        cands = [f"{st['n']}/o" for st in steps]
        for c in cands:
            if rng.random() < 0.6:
                outputs.append({"n": f"o{len(outputs)}", "src": c, "t": tyof[c]})
        if rng.random() < 0.25:   # an input passed straight through
            i = rng.choice(inputs)
            outputs.append({"n": f"o{len(outputs)}", "src": i["n"], "t": i["t"]})
        consumed = {s for st in steps for s in st["in"].values()} | {o["src"] for o in outputs}
        for c in cands:   # a step nobody waits for is cancelled when the outputs are complete and the run FAILS
            if c not in consumed:
                outputs.append({"n": f"o{len(outputs)}", "src": c, "t": tyof[c]})
        return {"f": "run", "inputs": inputs, "steps": steps, "outputs": outputs,
                "ext": rng.random() < 0.3, "delete": None}

    def _many(self, rng):
        """>= 11 steps running the SAME external tool file, with step names that are prefixes of one another
        (s1, s10, s11, s12): _update_actions matches steps by name prefix within one tool."""
        k = rng.choice([11, 12, 13])
        inputs = [{"n": f"i{j}", "t": "string", "v": f"w{j}"} for j in range(k)]
        steps = [{"n": f"s{j + 1}", "k": "echo", "in": {"m": f"i{j}"}, "shared": True} for j in range(k)]
        outputs = [{"n": f"o{j}", "src": f"s{j + 1}/o", "t": "File"} for j in range(k)]
        return {"f": "run", "inputs": inputs, "steps": steps, "outputs": outputs, "ext": True, "delete": None}

    def gen(self, rng, tier):
        n = {"quick": 24, "thorough": 160, "extended": 48}[tier]
        if tier in ("quick", "thorough"):   # at least 60 % of the cases (18 corpus + n) must yield a judged crate
            self.MIN_JUDGED = int(0.6 * (n + 18))
        cases = []
        cases.append(self._many(rng))
        for _ in range(n - 1):
            c = self._spec(rng)
            r = rng.random()
            if r < 0.12:
                c["delete"] = rng.choice(["input", "output", "workdir", "dirmember"])
            cases.append(c)
        return cases

    # ------------------------------------------------------------------------------------------ implementation
    def impl_init(self):
        self.counter = 0
        os.makedirs(BASE, exist_ok=True)

    def _build(self, c, d):
        """Writes the workflow, job and config files for spec c in directory d; returns expected input values."""
        os.makedirs(os.path.join(d, "data"))
        os.makedirs(os.path.join(d, "tmp"))
        job, values = {}, []
        for i in c["inputs"]:
            n, ty, v = i["n"], i["t"], i["v"]
            if ty == "File":
                p = os.path.join(d, "data", v["name"])
                with open(p, "wb") as f:
                    f.write(v["content"].encode())
                job[n] = {"class": "File", "path": p}
                b = v["content"].encode()
                values.append({"dir": "in", "param": n, "kind": "file", "sha1": _sha1(b), "size": len(b)})
            elif ty == "File[]":
                arr, items = [], []
                for fv in v:
                    p = os.path.join(d, "data", fv["name"])
                    with open(p, "wb") as f:
                        f.write(fv["content"].encode())
                    arr.append({"class": "File", "path": p})
                    b = fv["content"].encode()
                    items.append({"kind": "file", "sha1": _sha1(b), "size": len(b)})
                job[n] = arr
                values.append({"dir": "in", "param": n, "kind": "list", "items": items})
            elif ty == "Directory":
                p = os.path.join(d, "data", v["name"])
                _write_tree(p, v["tree"])
                job[n] = {"class": "Directory", "path": p}
                values.append({"dir": "in", "param": n, "kind": "dir",
                               "files": [{"sha1": _sha1(b), "size": len(b)} for _, b in _tree_files(v["tree"])]})
            elif ty == "Rec":
                p = os.path.join(d, "data", v["rf"]["name"])
                b = v["rf"]["content"].encode()
                with open(p, "wb") as f:
                    f.write(b)
                job[n] = {"rf": {"class": "File", "path": p}, "rs": v["rs"], "rn": v["rn"]}
                values.append({"dir": "in", "param": n, "kind": "record",
                               "fields": [{"kind": "file", "sha1": _sha1(b), "size": len(b)},
                                          {"kind": "lit", "alts": _lit_alts(v["rs"])},
                                          {"kind": "lit", "alts": _lit_alts(v["rn"])}]})
            elif ty == "SFile":
                p = os.path.join(d, "data", v["name"])
                b, bi = v["content"].encode(), v["idx"].encode()
                with open(p, "wb") as f:
                    f.write(b)
                with open(p + ".idx", "wb") as f:
                    f.write(bi)
                job[n] = {"class": "File", "path": p}
                values.append({"dir": "in", "param": n, "kind": "coll", "sha1": _sha1(b), "size": len(b),
                               "secs": [{"sha1": _sha1(bi), "size": len(bi)}]})
            elif ty in ("string[]", "int[]"):
                job[n] = v
                values.append({"dir": "in", "param": n, "kind": "list",
                               "items": [{"kind": "lit", "alts": _lit_alts(x)} for x in v]})
            else:
                job[n] = v
                values.append({"dir": "in", "param": n, "kind": "lit", "alts": _lit_alts(v)})
        wf = {"cwlVersion": "v1.2", "class": "Workflow",
              "requirements": {"ScatterFeatureRequirement": {}, "InlineJavascriptRequirement": {}},
              "inputs": {i["n"]: _cwl_param(i["t"]) for i in c["inputs"]},
              "outputs": {o["n"]: {**_cwl_param(o["t"]), "outputSource": o["src"]} for o in c["outputs"]},
              "steps": {}}
        if c.get("ext"):
            os.makedirs(os.path.join(d, "tools"))
        for st in c["steps"]:
            tool = _tool(st["k"], "$(inputs.m)_sh" if st.get("shared") else st["n"], st.get("dup", False))
            if c.get("ext"):
                tname = f"shared_{st['k']}.cwl" if st.get("shared") else f"{st['n']}_{st['k']}.cwl"
                tp = os.path.join(d, "tools", tname)
                json.dump(tool, open(tp, "w"), indent=1)
                run = os.path.join("tools", tname)
            else:
                tool.pop("cwlVersion", None)
                run = tool
            step = {"run": run, "in": dict(st["in"]), "out": ["o"]}
            if st["k"] == "scat":
                step["scatter"] = "f"
            if st["k"] in ("secho", "smkd"):
                step["scatter"] = "m"
            if st["k"] in ("xn", "xf"):
                step["scatter"] = ["a", "b"]
                step["scatterMethod"] = "nested_crossproduct" if st["k"] == "xn" else "flat_crossproduct"
            wf["steps"][st["n"]] = step
        json.dump(wf, open(os.path.join(d, "wf.cwl"), "w"), indent=1)
        json.dump(job, open(os.path.join(d, "job.json"), "w"), indent=1)
        with open(os.path.join(d, "streamflow.yml"), "w") as f:
            f.write("version: v1.0\nworkflows:\n  w1:\n    type: cwl\n    config:\n      file: wf.cwl\n"
                    "      settings: job.json\ndatabase:\n  type: default\n  config:\n    connection: "
                    + os.path.join(d, "sf.db") + "\n")
        return values

    def _sf(self, d, args, timeout=240):
        env = dict(os.environ)
        env["TMPDIR"] = os.path.join(d, "tmp")
        env["PYTHONPATH"] = os.environ.get("VERIF_REPO", "/repo")
        env.pop("PYTHONHASHSEED", None)
        try:
            return subprocess.run([sys.executable, "-m", "streamflow"] + args, cwd=d, env=env, timeout=timeout,
                                  stdout=subprocess.PIPE, stderr=subprocess.PIPE, text=True)
        except subprocess.TimeoutExpired as e:   # machine overloaded (a 3 s job): not an observation of the crate
            return subprocess.CompletedProcess(e.cmd, 124, "", "harness timeout")

    def _outvalue(self, name, v):
        """Run value of a workflow output, digests computed by the harness from the file on disk."""
        def filev(x):
            b = open(x["path"], "rb").read()
            return {"kind": "file", "sha1": _sha1(b), "size": len(b), "path": x["path"]}

        def dirfiles(x):
            out = []
            for root, _, files in sorted(os.walk(x["path"])):
                for fn in sorted(files):
                    b = open(os.path.join(root, fn), "rb").read()
                    out.append({"sha1": _sha1(b), "size": len(b), "path": os.path.join(root, fn)})
            return out

        def flat(l):
            return [y for x in l for y in (flat(x) if isinstance(x, list) else [x])]

        if v is None:
            return None
        if isinstance(v, dict) and v.get("class") == "File" and v.get("secondaryFiles"):
            m = filev(v)
            return {"dir": "out", "param": name, "kind": "coll", "sha1": m["sha1"], "size": m["size"], "path": m["path"],
                    "secs": [{k: x for k, x in filev(sf).items() if k != "kind"} for sf in v["secondaryFiles"]]}
        if isinstance(v, dict) and v.get("class") == "File":
            return {"dir": "out", "param": name, **filev(v)}
        if isinstance(v, dict) and "class" not in v:   # a record
            fields = []
            for k in v:
                x = v[k]
                if isinstance(x, dict) and x.get("class") == "File":
                    fields.append(filev(x))
                elif isinstance(x, (dict, list)) or x is None:
                    return {"dir": "out", "param": name, "kind": "unsupported"}
                else:
                    fields.append({"kind": "lit", "alts": _lit_alts(x)})
            return {"dir": "out", "param": name, "kind": "record", "fields": fields}
        if isinstance(v, dict) and v.get("class") == "Directory":
            return {"dir": "out", "param": name, "kind": "dir", "files": dirfiles(v), "path": v["path"]}
        if isinstance(v, list):
            items = []
            for x in flat(v):   # the exporter flattens nested arrays
                if isinstance(x, dict) and x.get("class") == "File":
                    items.append(filev(x))
                elif isinstance(x, dict) and x.get("class") == "Directory":
                    items.append({"kind": "dir", "files": dirfiles(x), "path": x["path"]})
                elif isinstance(x, (dict, list)) or x is None:
                    return {"dir": "out", "param": name, "kind": "unsupported"}
                else:
                    items.append({"kind": "lit", "alts": _lit_alts(x)})
            return {"dir": "out", "param": name, "kind": "list", "items": items}
        if isinstance(v, dict):
            return {"dir": "out", "param": name, "kind": "unsupported"}
        return {"dir": "out", "param": name, "kind": "lit", "alts": _lit_alts(v)}

    def impl_run(self, c):
        self.counter += 1
        d = os.path.join(BASE, f"{os.getpid()}-{self.counter}")
        shutil.rmtree(d, ignore_errors=True)
        os.makedirs(d)
        try:
            return self._run(c, d)
        finally:
            if not os.environ.get("C34_KEEP"):
                shutil.rmtree(d, ignore_errors=True)

    def _run(self, c, d):
        values = self._build(c, d)
        r = self._sf(d, ["run", "streamflow.yml", "--name", "run", "--outdir", os.path.join(d, "out"), "--quiet"])
        if r.returncode != 0:
            return {"status": "run-failed", "stderr": r.stderr[-600:]}
        try:
            so = r.stdout
            result = json.loads(so[so.index("{"):so.rindex("}") + 1])
        except ValueError:
            return {"status": "run-failed", "stderr": "no result object: " + r.stdout[-300:]}
        outpaths = []
        for o in c["outputs"]:
            ov = self._outvalue(o["n"], result.get(o["n"]))
            if ov is not None:
                values.append(ov)
        # deletion before export
        deleted = None
        dl = c.get("delete")
        if dl == "input":
            fs = [i for i in c["inputs"] if i["t"] == "File"]
            if fs:
                deleted = os.path.join(d, "data", fs[0]["v"]["name"])
                os.remove(deleted)
        elif dl == "output":
            for v in values:
                if v["dir"] == "out" and v["kind"] == "file":
                    deleted = v["path"]
                    os.remove(deleted)
                    break
        elif dl == "workdir":
            deleted = os.path.join(d, "tmp")
            shutil.rmtree(deleted, ignore_errors=True)
            os.makedirs(deleted)
        elif dl == "dirmember":
            ds = [i for i in c["inputs"] if i["t"] == "Directory" and i["v"]["tree"]]
            if ds:
                rel = _tree_files(ds[0]["v"]["tree"])[-1][0]
                deleted = os.path.join(d, "data", ds[0]["v"]["name"], rel)
                os.remove(deleted)
        # what the jobs of every step consumed and produced, as far as the harness knows it: a source is known when
        # it is a workflow input or a step output that is also a workflow output
        def val_of(src):
            if "/" not in src:
                ov = next((v for v in values if v["dir"] == "in" and v["param"] == src), None)
            else:
                o = next((o for o in c["outputs"] if o["src"] == src), None)
                ov = o and next((v for v in values if v["dir"] == "out" and v["param"] == o["n"]), None)
            if not ov or ov["kind"] == "unsupported":
                return None
            return json.loads(json.dumps({k: x for k, x in ov.items() if k not in ("dir", "param", "path")}))

        steps = []
        for st in c["steps"]:
            scattered = {"scat": "f", "secho": "m", "smkd": "m"}.get(st["k"])
            out = val_of(f"{st['n']}/o")
            consts = [(p_, val_of(src)) for p_, src in st["in"].items() if p_ != scattered]
            known = [v for _, v in consts if v is not None]
            closed = all(v is not None for _, v in consts)
            if st["k"] in ("xn", "xf"):
                la, lb = val_of(st["in"]["a"]), val_of(st["in"]["b"])
                if la is None or lb is None:
                    continue
                na, nb = len(la["items"]), len(lb["items"])
                outs = out["items"] if out and out["kind"] == "list" and len(out["items"]) == na * nb else None
                jobs = [{"ins": [dict(la["items"][i_]), dict(lb["items"][j_])], "closed": True,
                         "out": dict(outs[i_ * nb + j_]) if outs else None}
                        for i_ in range(na) for j_ in range(nb)]
                steps.append({"step": "wf.cwl#" + st["n"], "jobs": jobs})
                continue
            if scattered is None:
                jobs = [{"ins": known, "closed": closed, "out": out}]
            else:
                lst = val_of(st["in"][scattered])
                if lst is None or lst["kind"] != "list":
                    continue
                outs = out["items"] if out and out["kind"] == "list" and len(out["items"]) == len(lst["items"]) else None
                jobs = [{"ins": [dict(it)] + known, "closed": closed, "out": dict(outs[k]) if outs else None}
                        for k, it in enumerate(lst["items"])]
            steps.append({"step": "wf.cwl#" + st["n"], "jobs": jobs})

        def strip(v):
            if isinstance(v, dict):
                v.pop("path", None)
                for x in v.values():
                    strip(x)
            elif isinstance(v, list):
                for x in v:
                    strip(x)

        strip(values)
        strip(steps)
        r = self._sf(d, ["prov", "run", "--file", "streamflow.yml", "--outdir", os.path.join(d, "crate"),
                         "--name", "crate.zip"])
        zp = os.path.join(d, "crate", "crate.zip")
        if r.returncode == 124 and r.stderr == "harness timeout":
            return {"status": "run-failed", "stderr": "export timed out (overloaded machine)"}
        if r.returncode != 0 or not os.path.exists(zp):
            return {"status": "export-failed", "deleted": bool(deleted), "stderr": _strip_paths(r.stderr[-900:])}
        entries = []
        with zipfile.ZipFile(zp) as z:
            for zi in z.infolist():
                b = z.read(zi)
                entries.append([zi.filename, _sha1(b), len(b)])
            try:
                raw = z.read("ro-crate-metadata.json")
            except KeyError:
                return {"status": "exported", "deleted": bool(deleted), "meta": None, "archive": entries, "values": values, "steps": steps}
        try:
            meta = json.loads(raw.decode("utf-8"))
        except ValueError:
            return {"status": "exported", "deleted": bool(deleted), "meta": None, "archive": entries, "values": values, "steps": steps}
        return {"status": "exported", "deleted": bool(deleted), "meta": _canon_meta(meta),
                "archive": [e if e[0] not in META_ENTRIES else [e[0], "-", 0] for e in entries],   # their bytes hold uuids
                "values": values, "steps": steps}

    # ------------------------------------------------------------------------------------------ oracle
    def oracle(self, c, o):
        if "hang" in o or "crash" in o:
            return ("harness", f"worker crashed/hung: {str(o)[:300]}")
        if o["status"] == "run-failed":
            return None   # the property quantifies over runs that complete
        if o["status"] == "export-failed":
            if o.get("deleted"):
                return ("export-fails-after-delete", "export raised after a file was deleted: " + o["stderr"][-200:])
            return ("export-fails", "a completed run cannot be exported: " + o["stderr"][-300:])
        v = oracle_crate(o["meta"], o["archive"], o["values"], o.get("steps", []))
        return v

    def signature(self, c, o, clause):
        """oracle clause / what was deleted before export / where: the raising function and exception for a
        failed export, top-level file vs directory member for a File entity without archive entry."""
        dl = c.get("delete") if o.get("deleted") else None
        site = "-"
        if clause.startswith("export-fails"):
            fns = re.findall(r", in (\w+)\n", o.get("stderr", ""))
            exc = re.findall(r"^(\w+(?:\.\w+)*)(?::|$)", o.get("stderr", "").strip().splitlines()[-1] if o.get("stderr", "").strip() else "")
            site = f"{fns[-1] if fns else '?'}:{exc[0].split('.')[-1] if exc else '?'}"
        elif clause == "file-missing" and isinstance(o.get("meta"), dict):
            names = {n for n, _, _ in o["archive"]}
            miss = [e["@id"] for e in o["meta"].get("@graph", []) if isinstance(e, dict) and "File" in _types(e)
                    and e.get("@id") not in names]
            site = "dirmember" if miss and all("/" in m for m in miss) else "top"
            if site == "dirmember" and dl in ("input", "output"):
                dl = None   # deleting a top-level input/output file cannot remove a directory member from the archive
        return f"{clause}/delete={dl}/{site}"

    def nontrivial(self, c):
        return True

    def coq_case(self, c, o):
        if o.get("status") != "exported" or o.get("meta") is None:
            return None
        for v in o["values"]:
            if v["kind"] == "unsupported":
                return None
        verdict = oracle_crate(o["meta"], o["archive"], o["values"], o.get("steps", [])) is None
        graph = coq_json(o["meta"])
        ar = coq_list([f"({coq_str(n)}, {coq_str(h)}, {coq_N(s)})" for n, h, s in o["archive"]])
        vals = coq_list([coq_rv(v) for v in o["values"]])
        svs = coq_list([coq_sv(v) for v in o.get("steps", [])])
        return f"CCrate {graph}\n   {ar}\n   {vals}\n   {svs} {coq_bool(verdict)}"

    def shrink(self, c):
        # drop outputs, then trailing steps nobody uses, then unused inputs
        used = lambda cc: {s for st in cc["steps"] for s in st["in"].values()} | {o["src"] for o in cc["outputs"]}
        for i in range(len(c["outputs"])):
            yield {**c, "outputs": c["outputs"][:i] + c["outputs"][i + 1:]}
        for i in reversed(range(len(c["steps"]))):
            if f"{c['steps'][i]['n']}/o" not in used(c):
                yield {**c, "steps": c["steps"][:i] + c["steps"][i + 1:]}
        for i in range(len(c["inputs"])):
            if c["inputs"][i]["n"] not in used(c):
                yield {**c, "inputs": c["inputs"][:i] + c["inputs"][i + 1:]}
        if c.get("ext"):
            yield {**c, "ext": False}


# ----------------------------------------------------------------------------------------------------
def _canon_meta(meta):
    """uuids -> stable numbering by first appearance; timestamps -> 'T' (no uuids/timestamps in observations)."""
    names = {}

    def ren(s):
        return UUID.sub(lambda m: names.setdefault(m.group(0), f"u{len(names)}"), s)

    def walk(x, key=None):
        if isinstance(x, dict):
            return {ren(k): walk(v, k) for k, v in x.items()}
        if isinstance(x, list):
            return [walk(v, key) for v in x]
        if isinstance(x, str):
            return "T" if key in TIMEKEYS else ren(x)
        return x

    return walk(meta)


def _strip_paths(t):
    return UUID.sub("U", re.sub(r"/var/tmp/sfv-c34-run/[^/\s\"']+", "<case>", t))


def coq_json(x):
    if x is None:
        return "JNull"
    if isinstance(x, bool):
        return f"(JBool {coq_bool(x)})"
    if isinstance(x, (int, float)):
        return f"(JNum {coq_str(json.dumps(x))})"
    if isinstance(x, str):
        return f"(JStr {coq_str(x)})"
    if isinstance(x, list):
        return "(JArr " + coq_list([coq_json(v) for v in x]) + ")"
    if isinstance(x, dict):
        return "(JObj " + coq_list([f"({coq_str(k)}, {coq_json(v)})" for k, v in x.items()]) + ")"
    raise TypeError(type(x))


def coq_item(it):
    if it["kind"] == "dir":
        return "(IDir " + coq_list(["(" + coq_str(f["sha1"]) + ", " + coq_N(f["size"]) + ")" for f in it["files"]]) + ")"
    if it["kind"] == "file":
        return f"(IFile {coq_str(it['sha1'])} {coq_N(it['size'])})"
    return f"(ILit {coq_list([coq_str(a) for a in it['alts']])})"


def coq_value(v):
    if v["kind"] == "file":
        return f"(VItem (IFile {coq_str(v['sha1'])} {coq_N(v['size'])}))"
    if v["kind"] == "lit":
        return f"(VItem (ILit {coq_list([coq_str(a) for a in v['alts']])}))"
    if v["kind"] == "list":
        return f"(VList {coq_list([coq_item(i) for i in v['items']])})"
    if v["kind"] == "dir":
        fs = coq_list(["(" + coq_str(f["sha1"]) + ", " + coq_N(f["size"]) + ")" for f in v["files"]])
        return f"(VDir {fs})"
    if v["kind"] == "record":
        return f"(VRecord {coq_list([coq_item(i) for i in v['fields']])})"
    if v["kind"] == "coll":
        fs = coq_list(["(" + coq_str(f["sha1"]) + ", " + coq_N(f["size"]) + ")" for f in v["secs"]])
        return f"(VColl {coq_str(v['sha1'])} {coq_N(v['size'])} {fs})"
    raise ValueError(v["kind"])


def coq_rv(v):
    return f"(RV {'true' if v['dir'] == 'in' else 'false'} {coq_str(v['param'])} {coq_value(v)})"


def coq_sv(v):
    jobs = [f"(Job {coq_list([coq_value(x) for x in j['ins']])} {coq_bool(j['closed'])} "
            f"{'None' if j['out'] is None else '(Some ' + coq_value(j['out']) + ')'})" for j in v["jobs"]]
    return f"(SV {coq_str(v['step'])} {coq_list(jobs)})"


# ----------------------------------------------------------------------------------------------------
# The oracle proper: written from the property text, independently of Crate/Checker.v
#   "valid JSON-LD metadata with unique identifiers, every file it references is present in the archive with
#    the recorded size and checksum, and every input and output value of the run is represented"
def _types(e):
    t = e.get("@type")
    if isinstance(t, str):
        return [t]
    if isinstance(t, list):
        return [x for x in t if isinstance(x, str)]
    return []


def _refs(x, top=True):
    """ids of all {"@id": ...} objects nested anywhere below (not the entity's own @id)."""
    out = []
    if isinstance(x, dict):
        if not top and isinstance(x.get("@id"), str):
            out.append(x["@id"])
        for k, v in x.items():
            out.extend(_refs(v, False))
    elif isinstance(x, list):
        for v in x:
            out.extend(_refs(v, False))
    return out


def _vrefs(x):
    """ids referenced by a property value (a reference object, a list of them, nested values)."""
    return _refs(x, False)


def _is_url(s):
    return s.startswith("http://") or s.startswith("https://")


def oracle_crate(meta, archive, values, steps=()):
    # -- valid JSON-LD metadata
    if meta is None:
        return ("json-ld", "ro-crate-metadata.json missing or not JSON")
    if not isinstance(meta, dict) or "@context" not in meta or not isinstance(meta.get("@graph"), list):
        return ("json-ld", "metadata is not an object with @context and an @graph array")
    g = meta["@graph"]
    for e in g:
        if not isinstance(e, dict) or not isinstance(e.get("@id"), str):
            return ("json-ld", f"graph element without a string @id: {str(e)[:120]}")
    # -- unique identifiers
    seen = {}
    for e in g:
        if e["@id"] in seen:
            return ("unique-id", f"@id {e['@id']!r} occurs twice")
        seen[e["@id"]] = e
    # -- consistent: every local reference resolves
    for e in g:
        for r in _refs(e):
            if not _is_url(r) and r not in seen:
                return ("dangling-ref", f"{e['@id']!r} references {r!r}, which is not in the graph")
    # -- the archive has one member per name
    names = [n for n, _, _ in archive]
    for n in names:
        if names.count(n) > 1:
            return ("entry-dup", f"archive member {n!r} occurs {names.count(n)} times")
    # -- every file it references is present in the archive with the recorded size and checksum
    for e in g:
        if "File" in _types(e):
            ents = [(h, s) for n, h, s in archive if n == e["@id"]]
            if not ents:
                return ("file-missing", f"File entity {e['@id']!r} ({e.get('alternateName')}) has no archive entry")
            if not isinstance(e.get("sha1"), str):
                return ("file-no-checksum", f"File entity {e['@id']!r} records no sha1")
            for h, s in ents:
                if "sha1" in e and e["sha1"] != h:
                    return ("file-digest", f"File entity {e['@id']!r} records sha1 {e['sha1']}, archive entry has {h}")
                if "contentSize" in e and (isinstance(e["contentSize"], bool) or not isinstance(e["contentSize"], (str, int))
                                           or str(e["contentSize"]) != str(s)):
                    return ("file-size", f"File entity {e['@id']!r} records size {e['contentSize']}, entry has {s}")
    # -- every input and output value of the run is represented
    root = seen.get("./")
    main = root.get("mainEntity").get("@id") if root is not None and isinstance(root.get("mainEntity"), dict) else None
    actions = []
    if isinstance(main, str):
        for a in g:
            if "CreateAction" in _types(a) and a["@id"] in _vrefs(root.get("mentions", [])) \
                    and isinstance(a.get("instrument"), dict) and a["instrument"].get("@id") == main:
                actions.append(a)
    for v in values:
        if v["kind"] == "unsupported":
            continue
        if not any(_represented(seen, archive, a, seen.get(main, {}), v) for a in actions):
            return ("value-missing", f"{v['dir']}put value of {v['param']!r} ({v['kind']}) is not represented: "
                                     f"{json.dumps(v)[:200]}")
    # -- consistent at step level: the actions of a step are the records of its jobs
    def carries(x, v):
        return x in seen and _val_ok(seen, archive, seen[x], x, v)

    def parts(a, j):
        obj, res = _vrefs(a.get("object", [])), _vrefs(a.get("result", []))
        ins = all(any(carries(x, v) for x in obj) for v in j["ins"])
        closed = (not j["closed"]) or all(any(carries(x, v) for v in j["ins"]) for x in obj)
        out = j["out"] is None or (bool(res) and all(carries(x, j["out"]) for x in res))
        return ins, closed, out

    for sv in steps:
        ctl = [c for c in g if "ControlAction" in _types(c) and isinstance(c.get("instrument"), dict)
               and c["instrument"].get("@id") == sv["step"]]
        acts = [a for a in g if any(a["@id"] in _vrefs(c.get("object", [])) for c in ctl)]
        for a in acts:
            ps = [parts(a, j) for j in sv["jobs"]]
            if not any(all(p_) for p_ in ps):
                best = max(ps, key=sum) if ps else (True, True, True)
                clause = ("step-action-without-job" if not ps else "step-input-missing" if not best[0]
                          else "step-input-foreign" if not best[1] else "step-foreign-result")
                return (clause, f"action {a.get('name')!r} of step {sv['step']} (object {len(_vrefs(a.get('object', [])))}, "
                                f"result {len(_vrefs(a.get('result', [])))}) is not the record of any of the step's "
                                f"{len(sv['jobs'])} job(s): {json.dumps(sv['jobs'])[:260]}")
        for j in sv["jobs"]:
            if not any(all(parts(a, j)) for a in acts):
                return ("step-job-unrecorded", f"no action of step {sv['step']} ({len(acts)} action(s)) records the job "
                                               f"{json.dumps(j)[:260]}")
    return None


def _file_ok(seen, archive, fid, sha1, size):
    """fid names a File entity with that checksum, present in the archive with that digest and size."""
    e = seen.get(fid)
    ents = [(h, s) for n, h, s in archive if n == fid]
    return e is not None and "File" in _types(e) and e.get("sha1") == sha1 and bool(ents) and all(
        h == sha1 and s == size for h, s in ents)


def _lit_text(j):
    if isinstance(j, bool):
        return "true" if j else "false"
    if isinstance(j, str):
        return j
    if isinstance(j, (int, float)):
        return json.dumps(j)
    return None


def _item_ok(seen, archive, j, it):
    if it["kind"] == "dir":
        if not (isinstance(j, dict) and isinstance(j.get("@id"), str)):
            return False
        y = j["@id"]
        if y not in seen or "Dataset" not in _types(seen[y]):
            return False
        reach = _reach(seen, y)
        return all(any(_file_ok(seen, archive, z, f["sha1"], f["size"]) for z in reach) for f in it["files"])
    if it["kind"] == "file":
        return isinstance(j, dict) and isinstance(j.get("@id"), str) and _file_ok(seen, archive, j["@id"], it["sha1"], it["size"])
    t = _lit_text(j)
    return t is not None and t in it["alts"]


DIR_DEPTH = 16


def _reach(seen, start):
    """ids reachable from start through at most DIR_DEPTH hasPart links."""
    out, level = {start}, {start}
    for _ in range(DIR_DEPTH):
        nxt = set()
        for x in level:
            e = seen.get(x)
            if e is not None:
                nxt.update(_vrefs(e.get("hasPart", [])))
        nxt -= out
        if not nxt:
            break
        out |= nxt
        level = nxt
    return out


def _val_ok(seen, archive, e, x, v):
    """entity e (whose id is x) carries the value v"""
    if v["kind"] == "file":
        return _file_ok(seen, archive, x, v["sha1"], v["size"])
    if v["kind"] == "lit":
        return "PropertyValue" in _types(e) and "value" in e and _item_ok(seen, archive, e["value"], v)
    if v["kind"] == "list":
        if "PropertyValue" in _types(e) and "value" in e:
            val = e["value"] if isinstance(e["value"], list) else [e["value"]]
            return len(val) == len(v["items"]) and all(_item_ok(seen, archive, j, it) for j, it in zip(val, v["items"]))
        return False
    if v["kind"] == "record":
        if "PropertyValue" in _types(e) and "value" in e:
            els = e["value"] if isinstance(e["value"], list) else [e["value"]]
            ids_ = [el.get("@id") if isinstance(el, dict) and isinstance(el.get("@id"), str) else None for el in els]

            def icarried(y, it):
                return y is not None and y in seen and _val_ok(seen, archive, seen[y], y, it)

            return (all(any(icarried(y, it) for y in ids_) for it in v["fields"])
                    and all(any(icarried(y, it) for it in v["fields"]) for y in ids_))
        return False
    if v["kind"] == "coll":
        if "Collection" not in _types(e):
            return False
        me = e.get("mainEntity")
        if not (isinstance(me, dict) and isinstance(me.get("@id"), str)
                and _file_ok(seen, archive, me["@id"], v["sha1"], v["size"])):
            return False
        parts = _vrefs(e.get("hasPart", []))
        return all(any(_file_ok(seen, archive, z, f["sha1"], f["size"]) for z in parts) for f in v["secs"])
    if v["kind"] == "dir":
        if "Dataset" in _types(e):
            reach = _reach(seen, x)
            return all(any(_file_ok(seen, archive, y, f["sha1"], f["size"]) for y in reach) for f in v["files"])
        return False
    return False


def _represented(seen, archive, action, main, v):
    side = "input" if v["dir"] == "in" else "output"
    params = [p for p in _vrefs(main.get(side, [])) if p in seen and "FormalParameter" in _types(seen[p])
              and seen[p].get("name") == v["param"]]
    listed = _vrefs(action.get("object" if v["dir"] == "in" else "result", []))
    for x in listed:
        e = seen.get(x)
        if e is None or not any(p in _vrefs(e.get("exampleOfWork", [])) for p in params):
            continue
        if _val_ok(seen, archive, e, x, v):
            return True
    return False


PROP = C34()

if __name__ == "__main__":   # debugging aid: python -m harness.props.c34 <seed> [n]
    import random

    p = PROP
    p.impl_init()
    seed, n = int(sys.argv[1]), int(sys.argv[2]) if len(sys.argv) > 2 else 3
    cs = p.gen(random.Random(f"C34:{seed}"), "quick")[:n]
    for c in cs:
        o = p.impl_run(c)
        print(json.dumps(c))
        print(o["status"], p.oracle(c, o), (o.get("stderr") or "")[-400:])
