"""C33 — Tag ordering and tag selection follow numeric component order."""
import re

from harness.lib.framework import Prop, coq_bool, coq_list, coq_opt, coq_str, coq_Z

DIG = re.compile(r"^[0-9]*$")
TAG = re.compile(r"^[0-9]+(\.[0-9]+)*$")


def _key(t):
    c = [int(x) for x in t.split(".")]
    return (len(c), c)


def _sgn(x):
    return (x > 0) - (x < 0)


class C33(Prop):
    ID = "C33"
    PROPS_FILE = "Props/C33.v"
    CORR_MODULE = "Tags.Corr"
    LEVEL_TEXT = ("Theorems (Coq, closed under the global context) over a string-level model of compare_tags, get_tag and "
                  "the job-name helpers: total order, depth-first then numeric-lexicographic, string level = list level "
                  "on rendered tags, get_tag = deepest tag of any prefix chain rooted at 0 in any list order, job names "
                  "split back for every normalised absolute step path and tag; all for unbounded depth and component "
                  "size. The model is tied to /repo by running both on generated tags (multi-digit boundaries, leading "
                  "zeros, malformed strings, unnormalised paths) and comparing, with a property oracle on the real functions.")
    LEVEL_NOTE = ("Trusted: Coq kernel + vm_compute; the hand-written model Tags/Model.v (tied to the code only by the "
                  "correspondence run); CPython int/split/len/PurePosixPath/posixpath.join. No axioms.")
    TECHNIQUE = "Coq proof (induction over tag lists / strings) + vm_compute correspondence against the Python functions"
    RULE = ("compare: pairs of dotted tags (boundary components 9/10/11/99/100, leading zeros, equal and "
            "unequal depth; thorough: all pairs of depth<=2 over components 0..12) plus a malformed stream; "
            "get_tag: shuffled prefix chains rooted at 0 and arbitrary tag lists; job: normalised absolute step "
            "paths x tags plus unnormalised paths. Non-trivial = a compare with a multi-digit component or "
            "unequal depth, a get_tag list of >=2 tags, any job case. Distinct = distinct canonical JSON.")
    TRUSTED = ("model: Tags/Model.v (compare_tags, get_tag, _is_parent_tag, get_job_step_name/get_job_tag via a "
               "PurePosixPath fragment, posixpath.join for two arguments) is hand-written; CPython's int(), "
               "str.split, len, PurePosixPath and posixpath.join are not verified, only exercised",)
    ASSUMPTIONS = ("int() leniencies (sign, blanks, underscores, non-ASCII digits) are outside the model's domain",
                   "tags and paths are compared as ASCII strings")

    # ---------------------------------------------------------------- generation
    def _comp(self, rng):
        r = rng.random()
        if r < 0.35:
            return str(rng.choice([0, 1, 2, 8, 9, 10, 11, 12, 19, 20, 99, 100, 101, 109, 110]))
        if r < 0.7:
            return str(rng.randrange(0, 13))
        if r < 0.9:
            return str(rng.randrange(0, 100000))
        if r < 0.95:
            return "0" * rng.randrange(1, 3) + str(rng.randrange(0, 50))
        return str(rng.randrange(10**18, 10**22))

    def _tag(self, rng, depth=None):
        d = depth or rng.choice([1, 1, 2, 2, 2, 3, 3, 4, 6])
        return ".".join(self._comp(rng) for _ in range(d))

    def gen(self, rng, tier):
        n = {"quick": 500, "thorough": 4000, "extended": 3000}[tier]
        cases = []
        for _ in range(n):
            a = self._tag(rng)
            r = rng.random()
            if r < 0.5:
                b = self._tag(rng, depth=a.count(".") + 1)
            elif r < 0.6:
                b = a
            elif r < 0.75:  # differ in one component only
                cs = a.split(".")
                i = rng.randrange(len(cs))
                cs[i] = self._comp(rng)
                b = ".".join(cs)
            else:
                b = self._tag(rng)
            cases.append({"f": "compare", "a": a, "b": b})
        if tier == "thorough":
            tags = [str(i) for i in range(13)] + [f"{i}.{j}" for i in range(13) for j in range(13)]
            for a in tags:
                for b in tags:
                    cases.append({"f": "compare", "a": a, "b": b})
            t3 = [f"{i}.{j}.{k}" for i in (0, 9, 10) for j in range(13) for k in range(13)]
            for a in rng.sample(t3, 150):
                for b in rng.sample(t3, 40):
                    cases.append({"f": "compare", "a": a, "b": b})
        bad = ["", ".", "0.", ".0", "0..1", "a", "0.x", "x.0", "-1", "+5", " 7", "1_0", "0.-1", "1.5e3", "٣"]
        for a in bad:
            for b in ["0", "0.1", "1.x", a]:
                cases.append({"f": "compare", "a": a, "b": b})
                cases.append({"f": "compare", "a": b, "b": a})
        for _ in range(n // 3):
            d = ["0"] + [self._comp(rng) for _ in range(rng.randrange(0, 5))]
            chain = [".".join(d[:k]) for k in range(1, len(d) + 1)]
            r = rng.random()
            if r < 0.7:
                ts = [rng.choice(chain) for _ in range(rng.randrange(0, 5))] + [chain[-1]]
                rng.shuffle(ts)
            elif r < 0.85:
                ts = [self._tag(rng) for _ in range(rng.randrange(0, 5))]
            else:
                ts = [rng.choice(chain) for _ in range(rng.randrange(0, 4))]
            cases.append({"f": "get_tag", "tags": ts})
        for _ in range(n // 3):
            cases.append({"f": "is_parent", "t": self._tag(rng), "p": self._tag(rng)})
            t = self._tag(rng)
            cases.append({"f": "is_parent", "t": t, "p": ".".join(t.split(".")[:rng.randrange(1, t.count(".") + 2)])})
        alpha = "abcxyz019-_."
        for _ in range(n // 3):
            k = rng.randrange(0, 4)
            comps = []
            for _ in range(k):
                c = "".join(rng.choice(alpha) for _ in range(rng.randrange(1, 6)))
                comps.append(c)
            r = rng.random()
            if r < 0.75:
                comps = [c for c in comps if c != "."]
                step = "/" + "/".join(comps)
            elif r < 0.85:
                step = "/".join(comps)  # relative
            elif r < 0.95:
                step = "/" + "//".join(comps) + rng.choice(["", "/", "/.", "//"])
            else:
                step = "//" + "/".join(comps)
            cases.append({"f": "job", "step": step, "tag": self._tag(rng)})
        return cases

    # ---------------------------------------------------------------- implementation
    def impl_init(self):
        import posixpath

        from streamflow.core import utils
        from streamflow.workflow import step as wstep
        from streamflow.workflow.token import Token

        self.u, self.ws, self.Token, self.pp = utils, wstep, Token, posixpath

    def impl_run(self, c):
        f = c["f"]
        if f == "compare":
            try:
                return {"r": self.u.compare_tags(c["a"], c["b"])}
            except ValueError:
                return {"err": "ValueError"}
        if f == "get_tag":
            return {"r": self.u.get_tag([self.Token(value=None, tag=t) for t in c["tags"]])}
        if f == "is_parent":
            return {"r": bool(self.ws._is_parent_tag(c["t"], c["p"]))}
        if f == "job":
            name = self.pp.join(c["step"], c["tag"])
            return {"name": name, "step": self.u.get_job_step_name(name), "tag": self.u.get_job_tag(name)}
        raise ValueError(f)

    # ---------------------------------------------------------------- oracle (from the property text)
    def oracle(self, c, o):
        if "crash" in o or "hang" in o:
            return ("crash", f"implementation crashed/hung: {o}")
        f = c["f"]
        if f == "compare" and TAG.match(c["a"]) and TAG.match(c["b"]):
            if "r" not in o:
                return ("compare-raises", f"compare_tags raised on valid tags {c['a']} {c['b']}")
            ka, kb = _key(c["a"]), _key(c["b"])
            want = (ka > kb) - (ka < kb)
            if _sgn(o["r"]) != want:
                return ("compare-order", f"compare_tags({c['a']},{c['b']}) = {o['r']}, numeric depth-first order "
                                         f"says sign {want}")
        if f == "get_tag":
            ts = c["tags"]
            if ts and all(TAG.match(t) for t in ts):
                deep = max(ts, key=lambda t: t.count("."))
                chain = deep.split(".")[0] == "0" and all(
                    deep.split(".")[:t.count(".") + 1] == t.split(".") for t in ts)
                if chain and o.get("r") != deep:
                    return ("get-tag-deepest", f"get_tag({ts}) = {o.get('r')}, deepest of the chain is {deep}")
        if f == "job":
            st, tg = c["step"], c["tag"]
            comps = st[1:].split("/") if st != "/" else []
            if st.startswith("/") and all(x not in ("", ".") for x in comps) and TAG.match(tg):
                if o.get("step") != st or o.get("tag") != tg:
                    return ("job-name-split", f"job {o.get('name')} splits into {o.get('step')!r},{o.get('tag')!r}, "
                                              f"built from {st!r},{tg!r}")
        return None

    # ---------------------------------------------------------------- model side
    def coq_case(self, c, o):
        if "crash" in o or "hang" in o:
            return None
        f = c["f"]
        asc = lambda s: all(32 <= ord(ch) < 127 for ch in s)
        if f == "compare":
            if not all(DIG.match(x) for x in (c["a"] + "." + c["b"]).split(".")):
                return None
            return f"CCompare {coq_str(c['a'])} {coq_str(c['b'])} {coq_opt(o.get('r'), coq_Z)}"
        if f == "get_tag":
            if not all(asc(t) for t in c["tags"]):
                return None
            return f"CGetTag {coq_list([coq_str(t) for t in c['tags']])} {coq_str(o['r'])}"
        if f == "is_parent":
            return f"CIsParent {coq_str(c['t'])} {coq_str(c['p'])} {coq_bool(o['r'])}"
        if f == "job":
            if not asc(c["step"] + c["tag"]):
                return None
            return (f"CJob {coq_str(c['step'])} {coq_str(c['tag'])} {coq_str(o['name'])} "
                    f"{coq_str(o['step'])} {coq_str(o['tag'])}")
        return None

    def nontrivial(self, c):
        if c["f"] == "compare":
            return bool(re.search(r"[0-9]{2}", c["a"] + "." + c["b"])) or c["a"].count(".") != c["b"].count(".")
        if c["f"] == "get_tag":
            return len(c["tags"]) >= 2
        return True

    def signature(self, c, o, clause):
        return f"{c['f']}/{clause}"

    def shrink(self, c):
        if c["f"] == "compare":
            for k in ("a", "b"):
                cs = c[k].split(".")
                for i in range(len(cs)):
                    if len(cs) > 1:
                        yield {**c, k: ".".join(cs[:i] + cs[i + 1:])}
                    if len(cs[i]) > 1:
                        yield {**c, k: ".".join(cs[:i] + [cs[i][:-1]] + cs[i + 1:])}
        elif c["f"] == "get_tag":
            for i in range(len(c["tags"])):
                yield {**c, "tags": c["tags"][:i] + c["tags"][i + 1:]}


PROP = C33()
