"""C32 — Remapping CWL file values between directories is lossless."""
import json

from harness.lib.framework import Prop, coq_opt, coq_str

NORMAL = ["a", "b", "data", "f.txt", "dir", "out-1", "x_y"]
HOSTILE = ["a b", "100%", "a%20b", "%41", "%C3%A9", "é", "日本", "x:y", "q?x=1", "#h", "a+b", "~t", "%", "%%", "%zz",
           "%2", "[b]", "a&b", "'q'", "(p)", "a%2Fb", "%e9", " lead", "c:", "ü%", "%25"]
SAFE = set(b"ABCDEFGHIJKLMNOPQRSTUVWXYZabcdefghijklmnopqrstuvwxyz0123456789_.-~/")
HEX = "0123456789abcdefABCDEF"


def my_quote(s):
    """percent-encoding as StreamFlow builds locations: every UTF-8 byte outside [A-Za-z0-9_.-~/]"""
    return "".join(chr(b) if b in SAFE else "%%%02X" % b for b in s.encode("utf-8"))


def my_unquote_bytes(s):
    b = s.encode("utf-8")
    out = bytearray()
    i = 0
    while i < len(b):
        if b[i] == 37 and i + 2 < len(b) and chr(b[i + 1]) in HEX and chr(b[i + 2]) in HEX:
            out.append(int(b[i + 1:i + 3].decode(), 16))
            i += 3
        else:
            out.append(b[i])
            i += 1
    return bytes(out)


def _runs_valid_utf8(s):
    """Python's unquote decodes every maximal ASCII run on its own (errors='replace'): the str result has
    the byte-level decoding iff every run decodes to valid UTF-8."""
    run = ""
    for ch in s + "Ā":
        if ord(ch) < 128:
            run += ch
        else:
            try:
                my_unquote_bytes(run).decode("utf-8")
            except UnicodeDecodeError:
                return False
            run = ""
    return True


def _normal_abs(p):
    return p.startswith("/") and not p.startswith("//") and (p == "/" or all(c not in ("", ".", "..") for c in p[1:].split("/")))


def _under(p, d):
    """p is a normalised absolute path strictly below the normalised absolute directory d"""
    if not (_normal_abs(p) and _normal_abs(d)):
        return False
    pre = d if d.endswith("/") else d + "/"
    return p.startswith(pre) and len(p) > len(pre)


def _ctl(s):
    return any(ord(ch) < 32 or ord(ch) == 127 for ch in s)


def _file_strings(v, acc, in_file=False):
    """(key, string) for every location/path of a File/Directory object, as remap_token_value sees them"""
    if isinstance(v, list):
        for x in v:
            _file_strings(x, acc)
    elif isinstance(v, dict):
        cls = v.get("class", v.get("type"))
        if cls in ("File", "Directory"):
            for k in ("location", "path"):
                if k in v:
                    acc.append((k, v[k]))
            for k in ("secondaryFiles", "listing"):
                if isinstance(v.get(k), list):
                    for x in v[k]:
                        _file_strings(x, acc)
        else:
            for x in v.values():
                _file_strings(x, acc)
    return acc


class C32(Prop):
    ID = "C32"
    PROPS_FILE = "Props/C32.v"
    CORR_MODULE = "Remap.Corr"
    MAX_WORKERS = 4
    LEVEL_TEXT = ("Theorems (Coq, closed under the global context) over a byte-level model of remap_path / remap_token_value "
                  "(urllib unquote/quote, the ':/' and scheme tests, os.path.relpath on absolute paths, posixpath.join): "
                  "for directories and names given as arbitrary lists of components (any bytes except '/', not '', '.', "
                  "'..'; any depth), a plain path below old_dir is mapped below new_dir and mapped back exactly, a "
                  "file:// location in canonical percent-encoding likewise (unquote (quote s) = s for every byte string), "
                  "other schemes are returned unchanged; the value-level recursion restores a whole CWL value whenever "
                  "each of its file strings round-trips, hence (C32_value_roundtrip_in_domain_partial) every value whose file "
                  "strings are plain paths / canonical locations below old_dir or other-scheme URLs. Non-canonical spellings "
                  "of a location are canonicalised, not restored (C32_noncanonical_location_refuted; C32_roundtrip_file is "
                  "the statement for canonical locations only). The code before the two fixes is refuted (a%20b, 100%25; /c:/f). Tied to /repo "
                  "by running the real functions and the model on generated nested CWL values with hostile names.")
    LEVEL_NOTE = ("Partial: relative paths (os.getcwd()), control characters, invalid UTF-8 after decoding and URL strings on "
                  "which urlsplit raises are outside the model (such cases are run on the implementation and judged by the "
                  "oracle only); non-canonical spellings of a file:// location are canonicalised, not restored literally. "
                  "Plain paths are restored for every component bytes, ':' at the end of a component included "
                  "(C32_roundtrip_plain, after fix 356cf56; C32_colon_slash_before_fix_refuted is the code before it). "
                  "Trusted: Coq kernel + vm_compute; the hand-written model incl. its rendering of the urllib/posixpath "
                  "functions; UTF-8 byte representation of str. No axioms.")
    TECHNIQUE = "Coq proof (induction over strings, component lists and CWL values) + vm_compute correspondence"
    RULE = ("bare strings and nested CWL values (File/Directory with location, path, secondaryFiles, listing; arrays; records; "
            "atoms) whose names mix ordinary and hostile components (blank, %, %XX, invalid escapes, UTF-8, ':', '?', '#', "
            "brackets); locations canonical (quote), raw, other schemes, FILE://, file:/; old/new directories of depth 1..3; "
            "paths mostly below old_dir, sometimes elsewhere, unnormalised or relative. Non-trivial = some file string contains "
            "'%', a blank or a non-ASCII character, or the value nests a File inside secondaryFiles/listing. Distinct = "
            "distinct canonical JSON.")
    TRUSTED = ("model: Remap/Model.v (remap_path, remap_token_value, get_token_class and the fragments of urllib.parse.unquote/"
               "quote/urlsplit, os.path.relpath, posixpath.join they use) is hand-written",
               "CPython str/UTF-8, urllib, posixpath")
    ASSUMPTIONS = ("a file:// location 'of name n' is the canonical one StreamFlow builds: 'file://' + quote(path); other "
                   "spellings of the same location must be restored up to percent-decoding",
                   "old_dir and new_dir are normalised absolute paths")

    # ---------------------------------------------------------------- generation
    def _name(self, rng, hostile=0.45):
        return rng.choice(HOSTILE) if rng.random() < hostile else rng.choice(NORMAL)

    def _dir(self, rng):
        return "/" + "/".join(self._name(rng, 0.15) for _ in range(rng.randrange(1, 4)))

    def _path(self, rng, old):
        r = rng.random()
        rel = "/".join(self._name(rng) for _ in range(rng.randrange(1, 4)))
        if r < 0.86:
            return old + "/" + rel
        if r < 0.9:
            return "/elsewhere/" + rel
        if r < 0.93:
            return old + "//" + rel + rng.choice(["/", "/.", ""])
        if r < 0.95:
            return old + "/x/../" + rel
        if r < 0.97:
            return old
        if r < 0.985:
            return rel  # relative
        return ""

    def _location(self, rng, p):
        r = rng.random()
        if r < 0.7:
            return "file://" + my_quote(p)
        if r < 0.8:
            return "file://" + p
        if r < 0.84:
            return "file://" + my_quote(p).lower()
        if r < 0.9:
            return rng.choice(["http://example.com", "s3://bucket", "https://h:8080", "ftp://h"]) + my_quote(p)
        if r < 0.93:
            return "FILE://" + my_quote(p)
        if r < 0.96:
            return "file:" + my_quote(p)
        return p

    def _file(self, rng, old, depth):
        p = self._path(rng, old)
        cls = "File" if rng.random() < 0.7 else "Directory"
        o = {}
        fields = ["class", "location", "path", "basename", "extra"]
        rng.shuffle(fields)
        for k in fields:
            if k == "class":
                o["class" if rng.random() < 0.9 else "type"] = cls
            elif k == "location" and rng.random() < 0.85:
                o["location"] = self._location(rng, p)
            elif k == "path" and rng.random() < 0.8:
                o["path"] = p
            elif k == "basename" and rng.random() < 0.6:
                o["basename"] = p.rsplit("/", 1)[-1]
            elif k == "extra" and rng.random() < 0.3:
                o["size"] = rng.randrange(0, 1000)
        if "class" not in o and "type" not in o:
            o["class"] = cls
        if depth > 0 and rng.random() < 0.4:
            k = "secondaryFiles" if cls == "File" else "listing"
            o[k] = [self._file(rng, old, depth - 1) for _ in range(rng.randrange(0, 3))]
        return o

    def _value(self, rng, old, depth):
        r = rng.random()
        if depth == 0 or r < 0.45:
            return self._file(rng, old, 2)
        if r < 0.6:
            return [self._value(rng, old, depth - 1) for _ in range(rng.randrange(0, 4))]
        if r < 0.8:
            return {rng.choice(["k", "in", "location", "path", "files", "n"]) + str(i): self._value(rng, old, depth - 1)
                    for i in range(rng.randrange(0, 4))}
        return rng.choice([None, True, 3, "text", old + "/looks/like/a/path", "file://" + old + "/u", 2.5, ""])

    def gen(self, rng, tier):
        n = {"quick": 700, "thorough": 3000, "extended": 3000}[tier]
        cases = []
        for _ in range(n):
            old, new = self._dir(rng), self._dir(rng)
            p = self._path(rng, old)
            cases.append({"f": "path", "old": old, "new": new, "p": self._location(rng, p) if rng.random() < 0.5 else p})
        for _ in range(n // 2):
            old, new = self._dir(rng), self._dir(rng)
            cases.append({"f": "value", "old": old, "new": new, "v": self._value(rng, old, 3)})
        return cases

    # ---------------------------------------------------------------- implementation
    def impl_init(self):
        import copy
        import posixpath

        from streamflow.cwl import utils

        self.u, self.pp, self.copy = utils, posixpath, copy

    def impl_run(self, c):
        def call(f, *a):
            try:
                return {"r": f(*a)}
            except Exception as e:  # noqa
                return {"err": type(e).__name__, "msg": str(e)[:200]}

        if c["f"] == "path":
            o1 = call(self.u.remap_path, self.pp, c["p"], c["old"], c["new"])
            o2 = call(self.u.remap_path, self.pp, o1["r"], c["new"], c["old"]) if "r" in o1 else None
        else:
            o1 = call(self.u.remap_token_value, self.pp, c["old"], c["new"], self.copy.deepcopy(c["v"]))
            o2 = (call(self.u.remap_token_value, self.pp, c["new"], c["old"], self.copy.deepcopy(o1["r"]))
                  if "r" in o1 else None)
        return {"fwd": o1, "back": o2}

    # ---------------------------------------------------------------- oracle (from the property text)
    @staticmethod
    def _class(s, old):
        """how the property text speaks about a location/path string"""
        if s.startswith("file://"):
            try:
                dec = my_unquote_bytes(s[7:]).decode("utf-8")
            except UnicodeDecodeError:
                return ("outside", None)
            if not _runs_valid_utf8(s[7:]) or not _under(dec, old):
                return ("outside", None)
            return ("location", dec)
        head = s.split(":", 1)[0]
        if "://" in s and head and head[0].isascii() and head[0].isalpha() and \
                all(ch.isascii() and (ch.isalnum() or ch in "+-.") for ch in head):
            return ("other-scheme", None) if head.lower() != "file" else ("outside", None)
        if _under(s, old):
            return ("path", s)
        return ("outside", None)

    def _judge_string(self, s, fwd, back, old, new):
        kind, dec = self._class(s, old)
        if kind == "other-scheme":
            if fwd != s:
                return ("other-scheme-changed", f"{s!r} (not a file location) became {fwd!r}")
            return None
        if kind == "outside" or not _normal_abs(new) or _ctl(s):
            return None
        if kind == "path":
            if back != s:
                # a plain path with a component ending in ':' is taken for a URL: its own class of finding
                colon = ":/" in s or (isinstance(fwd, str) and ":/" in fwd)
                return ("roundtrip-path-colon-slash" if colon else "roundtrip-path",
                        f"path {s!r} -> {fwd!r} -> {back!r} (old {old!r}, new {new!r})")
            return None
        canonical = s == "file://" + my_quote(dec)
        if canonical and back != s:
            return ("roundtrip-location", f"location {s!r} -> {fwd!r} -> {back!r} (old {old!r}, new {new!r})")
        if not canonical:
            ok = isinstance(back, str) and back.startswith("file://")
            if ok:
                try:
                    ok = my_unquote_bytes(back[7:]).decode("utf-8") == dec
                except UnicodeDecodeError:
                    ok = False
            if not ok:
                return ("roundtrip-location-equiv", f"location {s!r} -> {fwd!r} -> {back!r} names another file")
        return None

    def _walk(self, v, f, b, old, new, in_file_key=None):
        """compare original / forward / back values structurally"""
        if isinstance(v, list):
            if not (isinstance(f, list) and isinstance(b, list) and len(f) == len(v) == len(b)):
                return ("structure", f"list {v!r} became {f!r} / {b!r}")
            for x, y, z in zip(v, f, b):
                r = self._walk(x, y, z, old, new)
                if r:
                    return r
            return None
        if isinstance(v, dict):
            if not (isinstance(f, dict) and isinstance(b, dict) and list(f) == list(v) == list(b)):
                return ("structure", f"keys of {v!r} became {f!r} / {b!r}")
            cls = v.get("class", v.get("type"))
            isfile = cls in ("File", "Directory")
            for k in v:
                if isfile and k in ("location", "path") and isinstance(v[k], str):
                    r = self._judge_string(v[k], f[k], b[k], old, new)
                elif isfile and k in ("secondaryFiles", "listing") and isinstance(v[k], list):
                    r = self._walk(v[k], f[k], b[k], old, new)
                elif isfile:
                    r = None if f[k] == v[k] == b[k] else ("non-file-changed", f"field {k}: {v[k]!r} -> {f[k]!r} -> {b[k]!r}")
                else:
                    r = self._walk(v[k], f[k], b[k], old, new)
                if r:
                    return r
            return None
        if f != v or b != v or type(f) is not type(v):
            return ("non-file-changed", f"{v!r} -> {f!r} -> {b!r}")
        return None

    def _in_domain(self, c):
        """every file string is one the property speaks about (below old_dir, another scheme)"""
        if not (_normal_abs(c["old"]) and _normal_abs(c["new"]) and c["old"] != "/" and c["new"] != "/"):
            return False
        strs = [("p", c["p"])] if c["f"] == "path" else _file_strings(c["v"], [])
        return all(isinstance(s, str) and self._class(s, c["old"])[0] != "outside" and not _ctl(s) for _, s in strs)

    def oracle(self, c, o):
        if "crash" in o or "hang" in o:
            return ("crash", f"implementation crashed/hung: {str(o)[:300]}")
        if not self._in_domain(c):
            return None
        if "r" not in o["fwd"] or o["back"] is None or "r" not in o["back"]:
            bad = o["fwd"] if "r" not in o["fwd"] else o["back"]
            return ("raises", f"remapping raised {bad.get('err')}: {bad.get('msg')}")
        if c["f"] == "path":
            return self._judge_string(c["p"], o["fwd"]["r"], o["back"]["r"], c["old"], c["new"])
        return self._walk(c["v"], o["fwd"]["r"], o["back"]["r"], c["old"], c["new"])

    # ---------------------------------------------------------------- model side
    @staticmethod
    def _model_string_ok(s):
        """inside the model's domain (see Remap/Model.v header)"""
        if not isinstance(s, str) or _ctl(s) or s != s.strip(" "):
            return False
        if ":/" in s:
            i = s.find(":")
            head = s[:i]
            is_scheme = i > 0 and head[0].isascii() and head[0].isalpha() and \
                all(ch.isascii() and (ch.isalnum() or ch in "+-.") for ch in head)
            if is_scheme:
                rest = s[i + 1:]
                if rest.startswith("//"):
                    netloc = rest[2:].split("/", 1)[0].split("?", 1)[0].split("#", 1)[0]
                    if not netloc.isascii() or "[" in netloc or "]" in netloc:
                        return False
                if head.lower() == "file":
                    if not s[:7].isascii() or not _runs_valid_utf8(s[7:]):
                        return False
                    dec = my_unquote_bytes(s[7:]).decode("utf-8")
                    return dec == "" or dec.startswith("/")
                return True
            # ":/" without a scheme in front of it: a plain path since the ":/" fix
        return s == "" or s.startswith("/")

    def _jv(self, v):
        if isinstance(v, str):
            return f"(JStr {coq_str(v)})"
        if isinstance(v, list):
            t = "VNil"
            for x in reversed(v):
                t = f"(VCons {self._jv(x)} {t})"
            return f"(JList {t})"
        if isinstance(v, dict):
            t = "FNil"
            for k, x in reversed(list(v.items())):
                t = f"(FCons {coq_str(k)} {self._jv(x)} {t})"
            return f"(JObj {t})"
        return f"(JAtom {coq_str(json.dumps(v))})"

    def coq_case(self, c, o):
        if "crash" in o or "hang" in o:
            return None
        f, b = o["fwd"], o["back"]
        if c["f"] == "path":
            if not self._model_string_ok(c["p"]) or ("r" in f and not self._model_string_ok(f["r"])):
                return None
            if "r" not in f and f.get("err") != "ValueError":
                return None
            if b is not None and "r" not in b and b.get("err") != "ValueError":
                return None
            r1 = coq_opt(f.get("r"), coq_str)
            r2 = coq_opt(b.get("r") if b else None, coq_str)
            return f"CPath {coq_str(c['old'])} {coq_str(c['new'])} {coq_str(c['p'])} {r1} {r2}"
        strs = _file_strings(c["v"], [])
        if not all(self._model_string_ok(s) for _, s in strs):
            return None
        if "r" in f and not all(self._model_string_ok(s) for _, s in _file_strings(f["r"], [])):
            return None
        for x in (f, b):
            if x is not None and "r" not in x and x.get("err") not in ("ValueError", "TypeError"):
                return None
        r1 = f"(Some {self._jv(f['r'])})" if "r" in f else "None"
        r2 = f"(Some {self._jv(b['r'])})" if b is not None and "r" in b else "None"
        return f"CValue {coq_str(c['old'])} {coq_str(c['new'])} {self._jv(c['v'])} {r1} {r2}"

    def nontrivial(self, c):
        strs = [c["p"]] if c["f"] == "path" else [s for _, s in _file_strings(c["v"], []) if isinstance(s, str)]
        hostile = any("%" in s or " " in s or not s.isascii() for s in strs)
        nested = c["f"] == "value" and ("secondaryFiles" in json.dumps(c["v"]) or "listing" in json.dumps(c["v"]))
        return hostile or nested

    def signature(self, c, o, clause):
        return f"{c['f']}/{clause}"

    def shrink(self, c):
        if c["f"] == "value":
            v = c["v"]
            if isinstance(v, list):
                for x in v:
                    yield {**c, "v": x}
            elif isinstance(v, dict):
                for k, x in v.items():
                    if isinstance(x, (list, dict)):
                        yield {**c, "v": x}
                for k in v:
                    if k not in ("class", "type"):
                        yield {**c, "v": {a: b for a, b in v.items() if a != k}}
                for k in ("location", "path"):
                    if isinstance(v.get(k), str):
                        yield {"f": "path", "old": c["old"], "new": c["new"], "p": v[k]}
        else:
            p = c["p"]
            pre = "file://" if p.startswith("file://") else ""
            comps = p[len(pre):].split("/")
            oc = c["old"].split("/")
            for i in range(len(oc), len(comps)):
                if len(comps) - len(oc) > 1:
                    yield {**c, "p": pre + "/".join(comps[:i] + comps[i + 1:])}
        for k in ("old", "new"):
            cs = c[k].split("/")
            if len(cs) > 2 and c["f"] == "path" and k == "new":
                yield {**c, k: "/".join(cs[:-1])}


PROP = C32()
