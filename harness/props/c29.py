"""C29 — CWL workflows produce the same outputs as the reference runner (translation validation).

Three-way differential on generated mini-CWL programs rendered as CWL v1.2 documents:
  StreamFlow (streamflow.cwl.runner:run, the `cwl-runner` entry point)  vs  cwltool  vs  the Gallina
  reference interpreter Cwl/Sem.v evaluated inside Coq;
plus operator cases: StreamFlow's value-level operators run for real against their models in Cwl/Ops.v.
"""
import json
import os
import shutil
import subprocess
import tempfile

from harness.lib.framework import Prop, coq_bool, coq_list, coq_opt, coq_str, coq_Z
from harness.props import c29_gen as G

SCRATCH = "/var/tmp"
SF_YML = ('version: v1.0\nworkflows:\n  w:\n    type: cwl\n    config:\n      file: wf.cwl\n'
          'database:\n  type: default\n  config:\n    connection: ":memory:"\n')
SF_MAIN = "import sys; from streamflow.cwl.runner import run; sys.exit(run())"


# ------------------------------------------------------------------------------------------------ Gallina rendering
def coq_value(v):
    if v is None:
        return "VNull"
    if isinstance(v, bool):
        return f"(VBool {coq_bool(v)})"
    if isinstance(v, int):
        return f"(VInt {coq_Z(v)})"
    if isinstance(v, str):
        return f"(VStr {coq_str(v)})"
    if isinstance(v, list):
        return f"(VArr {coq_list([coq_value(x) for x in v])})"
    if isinstance(v, dict):
        if v.get("class") == "File":
            v = {"basename": v["basename"], "class": "File", "contents": v.get("contents", "")}
        return "(VRec " + coq_list([f"({coq_str(k)}, {coq_value(v[k])})" for k in sorted(v)]) + ")"
    raise ValueError(f"not a mini-CWL value: {v!r}")


def coq_obj(o):
    return coq_list([f"({coq_str(k)}, {coq_value(o[k])})" for k in sorted(o)])


LM = {None: "None", "merge_nested": "(Some MergeNested)", "merge_flattened": "(Some MergeFlattened)"}
PV = {None: "None", "first_non_null": "(Some FirstNonNull)", "the_only_non_null": "(Some OnlyNonNull)",
      "all_non_null": "(Some AllNonNull)"}
PVB = {"first_non_null": "FirstNonNull", "the_only_non_null": "OnlyNonNull", "all_non_null": "AllNonNull"}
METHOD = {None: "Dot", "dotproduct": "Dot", "nested_crossproduct": "NestedCross", "flat_crossproduct": "FlatCross"}
TOOL = {"add": "TAdd", "cat": "TCat", "show": "TShow", "range": "TRange", "sum": "TSum", "len": "TLen",
        "maybe": "TMaybe", "pair": "TPair", "id": "TId", "mkrec": "TMkRec", "getx": "TGetX", "two": "TTwo",
        "pos": "TPos"}


def coq_vf(v):
    if not v:
        return "None"
    k = v[0]
    if k == "self":
        return "(Some VFSelf)"
    if k == "self_plus":
        return f"(Some (VFSelfPlus {coq_Z(v[1])}))"
    if k == "input":
        return f"(Some (VFInput {coq_str(v[1])}))"
    if k == "const":
        return f"(Some (VFConst {coq_value(v[1])}))"
    raise ValueError(v)


def coq_when(w):
    if not w:
        return "None"
    k = w[0]
    if k == "gt":
        return f"(Some (CGt {coq_str(w[1])} {coq_Z(w[2])}))"
    if k == "lt":
        return f"(Some (CLt {coq_str(w[1])} {coq_Z(w[2])}))"
    return "(Some (%s %s))" % ({"bool": "CBool", "nonnull": "CNonNull", "raw": "CRaw"}[k], coq_str(w[1]))


def coq_link(l):
    d = coq_opt(l["default"], coq_value) if "default" in l else "None"
    return ("{| l_id := %s; l_src := %s; l_lm := %s; l_pv := %s; l_default := %s; l_vf := %s |}"
            % (coq_str(l["id"]), coq_list([coq_str(r) for r in l["src"]]), LM[l.get("lm")], PV[l.get("pv")],
               d, coq_vf(l.get("vf"))))


def coq_tool(run):
    k = run["tool"]
    if k in ("mkfile", "ccat", "ccp"):
        return "(%s %s)" % ({"mkfile": "TMkFile", "ccat": "TCCat", "ccp": "TCCp"}[k], coq_str(run["name"]))
    if k in ("cwc", "fcontents"):
        return {"cwc": "TCWc", "fcontents": "TFContents"}[k]
    return TOOL[k]


def coq_wf(wf):
    ins = coq_list(["(%s, %s)" % (coq_str(i["id"]), coq_opt(i["default"], coq_value) if "default" in i else "None")
                    for i in wf["inputs"]])
    steps = []
    for s in wf["steps"]:
        run = f"(RWf {coq_wf(s['run']['wf'])})" if "wf" in s["run"] else f"(RTool {coq_tool(s['run'])})"
        if s.get("loop"):
            lp = s["loop"]
            steps.append("(LStep %s %s %s %s %s %s %s)" % (
                coq_str(s["id"]), run, coq_list([coq_link(l) for l in s["in"]]),
                coq_list(["(%s, %s)" % (coq_str(k), coq_str(o)) for k, o in lp["map"]]),
                coq_when(lp["when"])[6:-1], coq_bool(lp["all"]), coq_list([coq_str(o["id"]) for o in s["out"]])))
            continue
        steps.append("(Step %s %s %s %s %s %s %s)" % (
            coq_str(s["id"]), run, coq_list([coq_link(l) for l in s["in"]]),
            coq_list([coq_str(x) for x in s["scatter"]]), METHOD[s.get("method")], coq_when(s.get("when")),
            coq_list([coq_str(o["id"]) for o in s["out"]])))
    outs = coq_list([coq_link(o) for o in wf["outputs"]])
    return f"(Wf {ins} {coq_list(steps)} {outs})"


def coq_tok(t):
    if "l" in t:
        return f"(LTok {coq_str(t['tag'])} {coq_list([coq_tok(x) for x in t['l']])})"
    return f"(Tok {coq_str(t['tag'])} {coq_value(t['v'])})"


# ------------------------------------------------------------------------------------------------ program features
def _links(wf):
    for s in wf["steps"]:
        for l in s["in"]:
            yield "in", l
        if "wf" in s["run"]:
            yield from _links(s["run"]["wf"])
    for o in wf["outputs"]:
        yield "out", o


def _wfs(wf):
    yield wf
    for s in wf["steps"]:
        if "wf" in s["run"]:
            yield from _wfs(s["run"]["wf"])


def features(case):
    """Syntactic classes of a program (or of a cone of it) that known deviations of StreamFlow are tied to."""
    f = set()
    wf = case["wf"]
    for where, l in _links(wf):
        if len(set(l["src"])) < len(l["src"]):
            f.add("dup-source")
        if l.get("list") and len(l["src"]) == 1 and l.get("lm"):
            f.add("single-source-list-linkmerge")
    for w in _wfs(wf):
        used = set()
        for s in w["steps"]:
            for l in s["in"]:
                used.update(r.split("/")[0] for r in l["src"] if "/" in r)
        for o in w["outputs"]:
            used.update(r.split("/")[0] for r in o["src"] if "/" in r)
        if any(s["id"] not in used for s in w["steps"]):
            f.add("dangling-step")
        for s in w["steps"]:
            if "wf" in s["run"] and any(len(o["src"]) == 1 and "/" not in o["src"][0]
                                        for o in s["run"]["wf"]["outputs"]):
                f.add("subworkflow-passthrough-single")
            if s.get("when") and "wf" in s["run"] and any(
                    all(not l["src"] for l in st["in"]) for st in s["run"]["wf"]["steps"]):
                f.add("conditional-subworkflow-independent-step")
            if s["scatter"] and "wf" in s["run"]:
                sub = s["run"]["wf"]
                # an output of the subworkflow fed (also) directly by one of its inputs
                if any(any("/" not in r for r in o["src"]) for o in s.get("_all_outputs", sub["outputs"])):
                    f.add("scattered-subworkflow-passthrough")
                # an inner step that reads no source at all (defaults / constants only)
                if any(all(not l["src"] for l in st["in"]) for st in sub["steps"]):
                    f.add("scattered-subworkflow-independent-step")
            if s["scatter"] and s.get("method") == "nested_crossproduct":
                f.add("nested-crossproduct")
            if len(s["scatter"]) > 1 and s.get("method") in (None, "dotproduct"):
                f.add("dotproduct-multi")
            if len(s["scatter"]) > 1 and s.get("method") == "flat_crossproduct":
                f.add("flat-crossproduct-multi")
    for _, l in _links(wf):
        if l.get("lm") == "merge_flattened":
            f.add("merge-flattened")
        if l.get("pv") == "all_non_null":
            f.add("all-non-null")
    return f


def cone(wf, out_ids):
    """The part of a workflow that the outputs [out_ids] depend on: those outputs, the steps they reach backwards,
    and, inside a subworkflow step, only the cone of the step outputs that are actually used."""
    outs = [o for o in wf["outputs"] if o["id"] in out_ids]
    need = {}

    def add(refs):
        for r in refs:
            if "/" in r:
                sid, oid = r.split("/", 1)
                need.setdefault(sid, set()).add(oid)
    for o in outs:
        add(o["src"])
    steps = []
    for s in reversed(wf["steps"]):          # steps are listed in dependency order
        if s["id"] in need:
            s2 = dict(s)
            if "wf" in s["run"]:
                s2["run"] = {"wf": cone(s["run"]["wf"], need[s["id"]])}
                # a pass-through output of a scattered subworkflow also damages its sibling outputs (nested_crossproduct)
                s2["_all_outputs"] = s.get("_all_outputs", s["run"]["wf"]["outputs"])
            steps.append(s2)
            for l in s["in"]:
                add(l["src"])
    steps.reverse()
    return {"inputs": wf["inputs"], "steps": steps, "outputs": outs}


def cone_features(c, out_ids):
    return features({"wf": cone(c["wf"], set(out_ids))}) - {"dangling-step"}


def _links_named(c, name, pred):
    """Some link (step input or workflow output, at any nesting level) called [name] satisfies pred."""
    return any(l["id"] == name and pred(l) for _, l in _links(c["wf"]))


def _steps(wf):
    for s in wf["steps"]:
        yield s
        if "wf" in s["run"]:
            yield from _steps(s["run"]["wf"])


def first_diff(o):
    ref, sf = o["ref"]["ok"], o["sf"]["ok"]
    for k in sorted(set(ref) | set(sf)):
        if _canon(ref.get(k, "<absent>")) != _canon(sf.get(k, "<absent>")):
            return k
    return None


_DUP = lambda l: len(set(l["src"])) < len(l["src"])                                   # noqa: E731
_SINGLE_LM = lambda l: bool(l.get("list") and len(l["src"]) == 1 and l.get("lm"))    # noqa: E731


def diagnose(c, o, clause):
    """Cause class of a disagreement.  A class is accepted only when the thing the runners NAME — the workflow output
    that differs, the token / sink / step in the error message — is (or, for an output, depends on) the construct
    that carries the syntactic feature of the class, and the error class is the specific one of the finding.
    Anything else keeps a generic, error-specific signature `plain/...` and is therefore reported as a VIOLATION."""
    import re
    top_outputs = {x["id"] for x in c["wf"]["outputs"]}
    if clause == "sf-fails-ref-succeeds":
        why = o["sf"].get("why", "")
        e = errclass(why)
        if e == "static-checker-incompatible":
            sinks = set(re.findall(r"with sink '(\w+)'", why))
            if any(_links_named(c, k, _SINGLE_LM) for k in sinks):
                return "static-checker-single-source-list"
        if e == "no-suitable-token-processor":
            m = re.search(r"token processors in (\w+)", why)
            if m and m.group(1) in top_outputs:
                fc = cone_features(c, [m.group(1)])
                for cls in ("scattered-subworkflow-independent-step", "scattered-subworkflow-passthrough"):
                    if cls in fc:
                        return cls
                if "single-source-list-linkmerge" in fc:
                    return "single-array-source-linkmerge-unwrapped"
                if "nested-crossproduct" in fc:
                    return "empty-nested-crossproduct"
                if "merge-flattened" in fc:
                    return "merge-flattened-deep"
        if e in ("array-expected", "token-not-optional", "invalid-value-none"):
            names = set(re.findall(r"for token (\w+)", why)) | set(re.findall(r"Token (\w+) is not optional", why))
            if e == "array-expected" and any(_links_named(c, k, lambda l: _SINGLE_LM(l) and l.get("pv")) for k in names):
                return "single-array-source-linkmerge-unwrapped"     # the step-input form: the pick returns an element
            if e == "array-expected" and any(_links_named(c, k, lambda l: l.get("lm") == "merge_flattened") for k in names):
                return "merge-flattened-deep"
            if e != "array-expected" and any(
                    _links_named(c, k, lambda l: l.get("pv") == "all_non_null" and len(l["src"]) == 1 and not l.get("list"))
                    for k in names):
                return "all-non-null-single-source-with-null"
            if any(_links_named(c, k, _DUP) for k in names):
                return "dup-source-dropped"
        if e == "tag-int-valueerror":
            fs = features(c)
            for cls in ("scattered-subworkflow-independent-step", "scattered-subworkflow-passthrough"):
                if cls in fs:
                    return cls
        if e in ("failed-workflow-execution", "cancelled-job") and "dangling-step" in features(c):
            # a job named in the message must belong to the part of the program no workflow output depends on
            live = {s["id"] for s in cone(c["wf"], top_outputs)["steps"]}
            jobs = {j.split("/")[1] for j in re.findall(r"for job (/[\w/]+)", why)}
            if not (jobs & live):
                return "dangling-step-cancelled"
        return "plain/" + e
    if clause == "output-differs":
        d = diffclass(c, o)
        k = first_diff(o)
        fc = cone_features(c, [k]) if k in top_outputs else set()
        if "scattered-subworkflow-passthrough" in fc and d in ("elements-missing", "same-elements-different-nesting"):
            return "scattered-subworkflow-passthrough"
        if "scattered-subworkflow-independent-step" in fc and d in ("elements-missing", "same-elements-different-nesting"):
            return "scattered-subworkflow-independent-step"
        if "subworkflow-passthrough-single" in fc and "scattered-subworkflow-passthrough" not in fc \
                and d in ("value-differs", "elements-differ"):
            return "subworkflow-passthrough"
        if "conditional-subworkflow-independent-step" in fc and d in ("value-differs", "elements-differ"):
            return "conditional-subworkflow-independent-step"
        if "dup-source" in fc and d in ("elements-missing", "value-differs", "elements-differ",
                                          "same-elements-different-nesting"):
            return "dup-source-dropped"
        if "nested-crossproduct" in fc and d == "same-elements-different-nesting":
            return "empty-nested-crossproduct"
        if "flat-crossproduct-multi" in fc and "merge-flattened" in fc and d == "same-elements-different-order":
            return "flat-crossproduct-merge-flattened-order"
        return "plain/" + d
    if clause == "sf-succeeds-ref-fails":
        w = o["ref"].get("why", "")
        if "Length of input arrays must be equal" in w:
            names = set(re.findall(r"\[step (\w+)\]", w))
            if any(s["id"] in names and len(s["scatter"]) > 1 and s.get("method") in (None, "dotproduct")
                   for s in _steps(c["wf"])):
                return "dotproduct-empty-vs-nonempty"
        if "Expected only one source" in w:
            # the failing pick is an output of a SCATTERED subworkflow fed directly by a subworkflow input: StreamFlow
            # never sees the values there (root cause B), so it cannot fail like the reference
            names = set(re.findall(r"source for '(\w+)'", w))
            for st in _steps(c["wf"]):
                if st["scatter"] and "wf" in st["run"] and any(
                        x["id"] in names and x.get("pv") and any("/" not in r for r in x["src"])
                        for x in st["run"]["wf"]["outputs"]):
                    return "scattered-subworkflow-passthrough"
        only = lambda l: _DUP(l) and l.get("pv") == "the_only_non_null"   # noqa: E731
        if "Expected only one source" in w:
            names = set(re.findall(r"source for '(\w+)'", w))
            if any(_links_named(c, k, only) for k in names):
                return "dup-source-dropped"
        if "NoneType" in w and any(only(l) for _, l in _links(c["wf"])):
            return "dup-source-dropped"       # cwltool's way of failing inside a subworkflow: no name in the message
        return "plain"
    return "plain"


# ------------------------------------------------------------------------------------------------ the property
class C29(Prop):
    ID = "C29"
    PROPS_FILE = "Props/C29.v"
    CORR_MODULE = "Cwl.Corr"
    LEVEL = "translation_validation"
    LEVEL_TEXT = ("Translation validation, not a proof of the claim: whole-language equivalence of StreamFlow's CWL "
                  "translation with the CWL semantics is NOT proved. Every run: generated mini-CWL programs (ExpressionTool "
                  "steps from a fixed 13-tool library plus five File tools — three CommandLineTools (cat to stdout, cp with a "
                  "glob output, wc -c with outputEval) and two ExpressionTools (file literal, loadContents); scatter with the "
                  "three methods; linkMerge; pickValue; when; valueFrom; defaults; nested subworkflows; cwltool:Loop steps "
                  "(loopWhen, loop, outputMethod last/all, 0..12 iterations, inside scattered subworkflows and around a "
                  "scattering subworkflow); int/string/boolean/null/array/record/File values, Files compared by basename and "
                  "contents with size and checksum checked against the contents) are rendered as "
                  "CWL v1.2 documents and run by StreamFlow's cwl-runner entry point, by cwltool 3.2 and by the Gallina "
                  "reference interpreter Cwl/Sem.v evaluated with vm_compute inside Coq; output objects are compared "
                  "including array order, nulls and success/failure. Theorems (closed under the global context) cover only "
                  "value-level operators: the models of ListMergeCombinator/_flatten_token_list, First/Only/AllNonNull, "
                  "the _create_list_merger chain and CWLEmptyScatterConditionalStep compute the specification's "
                  "merge_nested / merge_flattened / pickValue / empty-scatter values on stated domains (several only "
                  "`_partial`), five `_refuted` theorems give witnesses where the faithful operator model deviates from the "
                  "specification, flat_crossproduct = leaves of nested_crossproduct in the specification, and "
                  "C29_scatter_network_dot_partial composes the proved ScatterStep/GatherStep (C01) and DotProductCombinator "
                  "(C02) models: the dotproduct scatter network computes the specification's array for every input and every "
                  "arrival order; C29_scatter_network_flat_partial (any number of ports, one depth-n gather) and "
                  "C29_scatter_network_nested_partial (two ports, two chained gathers) do the same for the crossproducts on "
                  "C02_cartesian_partial and C01_gather_depth_d_product / C01_many_keys (pure job, scattered ports only, size "
                  "tokens as hypotheses). C29_merge_nested*/C29_pick_* are one-unfolding facts: the operator MODEL is the "
                  "specification's function; only the operator correspondence ties the model to the Python code. The operator "
                  "models are tied to /repo by running the real operators on generated token trees.")
    LEVEL_NOTE = ("Not proved: the translator (token network, scatter/gather wiring, conditional and default steps), the "
                  "engine, JavaScript evaluation, type checking; the scatter networks are proved for a pure job over the scattered "
                  "ports only (no when/valueFrom/default/broadcast inside; size transformers and the empty-scatter step not "
                  "composed; nested_crossproduct for two inputs). Not "
                  "exercised: Directory values, secondaryFiles, Docker, scattered or looped File tools, loop valueFrom / loopSource "
                  "forms, CWL v1.0/v1.1/v1.3. Trusted: Coq kernel + "
                  "vm_compute; Cwl/Sem.v as a reading of the CWL v1.2 text (cross-checked against cwltool on every run); "
                  "cwltool as the reference; node.js; the Python generator/renderer. No axioms.")
    TECHNIQUE = ("three-way differential (StreamFlow / cwltool / Gallina interpreter evaluated in Coq) + Coq proofs of "
                 "operator laws + vm_compute correspondence of operator models against the Python operators")
    RULE = ("programs: 1..6 steps built goal-directed so that every link is well-typed (workflow inputs created on "
            "demand), each step a tool of the library or a generated subworkflow, inputs bound by direct link / scatter / "
            "merge_nested / merge_flattened / pickValue over optional sources / default / valueFrom, optional `when`; 7 % "
            "of the steps are cwltool:Loop steps (a tool, or a subworkflow that scatters inside), 10 % File tools (never "
            "scattered or looped: same-named outputs would collide; loadContents only on files written by a CommandLineTool, "
            "cwltool cannot read a file literal there; loop outputs are only exported, the static checkers type them "
            "differently); "
            "rare classes tied to known deviations (duplicate source, single-source list with linkMerge, dangling step) "
            "are generated with probability <= 6% each. operator cases: token trees of depth <= 3 with tags as build_token "
            "(same tag), GatherStep (t.i in order), depth-2 gather (t.i.j) or shuffled, through ListMergeCombinator."
            "combine, the three pickValue transformers, ListToElement, CWLEmptyScatterConditionalStep. Every case is "
            "non-trivial; distinct = distinct canonical JSON.")
    TRUSTED = ("Cwl/Sem.v is a hand-written reading of the CWL v1.2 Workflow text; agreement with cwltool is checked on "
               "every generated program, nothing more",
               "Cwl/Ops.v is hand-written; tied to the Python operators only by the operator cases",
               "cwltool 3.2 is taken as the reference implementation; node.js evaluates the JavaScript of both runners",
               "program generator, CWL renderer and output canonicalisation (Python)")
    ASSUMPTIONS = ("ints stay far below 2^31 (JavaScript numbers and CWL int agree with Z)",
                   "strings are printable ASCII",
                   "StreamFlow runs with the local deployment and an in-memory database (--streamflow-file)",
                   "a disagreement counts only if it is reproduced by a second, sequential run of both runners")
    MAX_WORKERS = 8
    CASE_TIMEOUT = 2400          # per case, in the worker: a program case is up to four runner invocations of <= 500 s
    SHARD_TIMEOUT = 12000
    RUNNER_TIMEOUT = 500         # one runner invocation; a runner that does not finish counts as a failed run
    COQ_SHARD = 200

    # floor on the cases that actually got a verdict (framework: fewer => CORRESPONDENCE-ERROR); see judged()
    MIN_JUDGED = {"prog": 45, "prog-ref-ok": 25, "op": 250}

    def judged(self, c, o):
        """Kinds of verdict this case contributes to: a program counts when the reference gave a verdict (it finished
        and did not crash internally), and separately when the reference SUCCEEDED (so that 'both runners fail' cannot
        make up the floor); an operator case counts when the operator was really run."""
        if "crash" in o or "hang" in o:
            return []
        if c["f"] == "prog":
            if o["ref"].get("timeout") or o["sf"].get("timeout"):
                return []
            return ["prog"] + (["prog-ref-ok"] if "ok" in o["ref"] else [])
        return ["op"]

    def gen(self, rng, tier):
        n = {"quick": 40, "thorough": 240, "extended": 48}[tier]
        nops = {"quick": 320, "thorough": 3000, "extended": 600}[tier]
        progs = [G.gen_program(rng) for _ in range(n)]
        ops = [self._gen_op(rng) for _ in range(nops)]
        # interleave, so that the framework's round-robin sharding gives every worker its share of the
        # (seconds-long) program runs
        cases, step = [], max(2, len(ops) // max(1, len(progs)))
        step -= step % 2          # stride step+1 is odd: coprime with the number of shards
        for i, pr in enumerate(progs):
            cases.append(pr)
            cases.extend(ops[i * step:(i + 1) * step])
        cases.extend(ops[len(progs) * step:])
        return cases

    # ---------------------------------------------------------------- operator cases
    def _gen_scalar(self, rng):
        r = rng.random()
        if r < 0.35:
            return None
        if r < 0.7:
            return rng.randrange(-3, 12)
        if r < 0.85:
            return rng.choice(["", "a", "b c"])
        return rng.random() < 0.5

    def _gen_tok(self, rng, tag, depth, style):
        """style: 'same' = children carry the parent's tag (build_token), 'gather' = tag.i in order,
        'flat2' = two trailing components in row-major order (gather of depth 2), 'shuffled' = tag.i shuffled."""
        if depth == 0 or rng.random() < 0.45:
            return {"tag": tag, "v": self._gen_scalar(rng)}
        n = rng.choice([0, 1, 2, 2, 3, 4, 11, 12, 13])
        if style == "same":
            tags = [tag] * n
        elif style == "flat2":
            m = rng.choice([1, 2, 3])
            tags = [f"{tag}.{i}.{j}" for i in range(n if n < 5 else 2) for j in range(m)]
        else:
            tags = [f"{tag}.{i}" for i in range(n)]
            if style == "shuffled":
                rng.shuffle(tags)
        sub = rng.choice(["same", "gather", "gather", "flat2", "shuffled"]) if rng.random() < 0.3 else style
        return {"tag": tag, "l": [self._gen_tok(rng, t, depth - 1, sub) for t in tags]}

    def _gen_op(self, rng):
        r = rng.random()
        tag = rng.choice(["0", "0", "0.1", "0.10", "0.3.2"])
        style = rng.choice(["same", "gather", "gather", "flat2", "shuffled"])
        if r < 0.45:
            n = rng.choice([1, 1, 2, 2, 3, 4])
            ins = [self._gen_tok(rng, tag, rng.choice([0, 1, 1, 2, 3]), style) for _ in range(n)]
            if rng.random() < 0.08:
                # a tag whose last component is not a number somewhere in the forest: _flatten_token_list raises
                def toks(t):
                    yield t
                    for x in t.get("l", []):
                        yield from toks(x)
                inner = [x for t in ins for x in toks(t) if x is not t]      # top-level tags stay those of a dot product
                if inner:
                    rng.choice(inner)["tag"] = rng.choice(["", "x", "0.y", "0.", "0.1.z"])
            return {"f": "merge", "flatten": rng.random() < 0.6, "inputs": ins}
        if r < 0.75:
            t = self._gen_tok(rng, tag, rng.choice([1, 1, 2]), style)
            if "l" not in t and rng.random() < 0.8:
                t = {"tag": tag, "l": [t]}
            return {"f": "pick", "p": rng.choice(["first_non_null", "the_only_non_null", "all_non_null"]), "t": t}
        if r < 0.85:
            t = self._gen_tok(rng, tag, rng.choice([1, 2]), style)
            if "l" in t and rng.random() < 0.4:
                t["l"] = t["l"][:1]
            return {"f": "l2e", "t": t}
        n = rng.choice([1, 2, 2, 3])
        ins = []
        for _ in range(n):
            k = rng.choice([0, 0, 1, 2, 3])
            ins.append({"tag": tag, "l": [{"tag": tag, "v": self._gen_scalar(rng)} for _ in range(k)]})
        return {"f": "empty", "method": rng.choice(["dotproduct", "nested_crossproduct", "flat_crossproduct"]),
                "inputs": ins}

    # ---------------------------------------------------------------- implementation
    def impl_init(self):
        self.repo = os.environ.get("VERIF_REPO", "/repo")
        self.ctx = None
        self.loop = None
        # import everything the operator cases need now: impl_init is not under the per-case alarm, so a slow
        # import on a loaded machine cannot be interrupted half-way (which would poison every later case)
        import streamflow.core.exception  # noqa: F401
        import streamflow.core.workflow  # noqa: F401
        import streamflow.cwl.combinator  # noqa: F401
        import streamflow.cwl.step  # noqa: F401
        import streamflow.cwl.transformer  # noqa: F401
        import streamflow.cwl.workflow  # noqa: F401
        import streamflow.main  # noqa: F401
        import streamflow.workflow.token  # noqa: F401
        import streamflow.cwl.runner  # noqa: F401
        import cwltool.main  # noqa: F401
        self._ops_init()

    def _ops_init(self):
        import asyncio
        self.loop = asyncio.new_event_loop()

    def _mk(self, t):
        from streamflow.core.workflow import Token
        from streamflow.workflow.token import ListToken
        if "l" in t:
            return ListToken(value=[self._mk(x) for x in t["l"]], tag=t["tag"])
        return Token(value=t["v"], tag=t["tag"])

    def _un(self, t):
        from streamflow.workflow.token import ListToken
        if isinstance(t, ListToken):
            return {"tag": t.tag, "l": [self._un(x) for x in t.value]}
        return {"tag": t.tag, "v": t.value}

    def _run_op(self, c):
        from streamflow.core.exception import WorkflowDefinitionException, WorkflowExecutionException
        if self.loop is None:
            self._ops_init()
        f = c["f"]
        if f == "merge":
            from streamflow.cwl.combinator import ListMergeCombinator

            async def go():
                names = ["p%d" % i for i in range(len(c["inputs"]))]
                comb = ListMergeCombinator("c", None, names, "out", c["flatten"])
                for n in names:
                    comb.add_item(n)
                res = []
                for n, t in zip(names, c["inputs"]):
                    async for sch in comb.combine(n, self._mk(t)):
                        res.append(sch)
                return res
            try:
                res = self.loop.run_until_complete(go())
            except ValueError:        # int() on a non-numeric last tag component inside _flatten_token_list
                return {"err": "ValueError"}
            if len(res) != 1:
                return {"n": len(res)}
            return {"out": self._un(res[0]["out"]["token"])}
        if f in ("pick", "l2e"):
            from streamflow.cwl import transformer as T
            try:
                if f == "l2e":
                    r = T.ListToElementTransformer._transform(None, self._mk(c["t"]))
                else:
                    cls = {"first_non_null": T.FirstNonNullTransformer, "the_only_non_null": T.OnlyNonNullTransformer,
                           "all_non_null": T.AllNonNullTransformer}[c["p"]]
                    r = cls._transform(None, "x", self._mk(c["t"]))
            except (WorkflowExecutionException, WorkflowDefinitionException) as e:
                return {"err": type(e).__name__}
            return {"out": self._un(r)}
        if f == "empty":
            from streamflow.cwl.step import CWLEmptyScatterConditionalStep
            from streamflow.cwl.workflow import CWLWorkflow

            async def go():
                # a fresh in-memory context per case, closed afterwards (its sqlite thread must not outlive the case)
                from streamflow.main import build_context
                d = tempfile.mkdtemp(prefix="sfv-c29-ctx-", dir=SCRATCH)
                ctx = build_context({"database": {"type": "default", "config": {"connection": ":memory:"}}, "path": d})
                try:
                    wf = CWLWorkflow(ctx, config={}, name="w", cwl_version="v1.2")
                    st = wf.create_step(cls=CWLEmptyScatterConditionalStep, name="/s-empty-scatter-condition",
                                        scatter_method=c["method"])
                    p = wf.create_port()
                    st.add_skip_port("o", p)
                    await wf.save(ctx.database)
                    ins = {"p%d" % i: self._mk(t) for i, t in enumerate(c["inputs"])}
                    ev = await st._eval(ins)
                    out = None
                    if not ev:
                        await st._on_false(ins)
                        out = self._un(p.token_list[0])
                    return {"nonempty": bool(ev), "out": out}
                finally:
                    await ctx.close()
                    shutil.rmtree(d, ignore_errors=True)
            return self.loop.run_until_complete(go())
        raise ValueError(f)

    def _run_prog(self, case):
        """Both runners on one program.  A disagreement (or a crash-like failure of either runner) must be
        reproducible: it is re-run once, sequentially, and the second observation is the one reported."""
        # first attempt in-process (the same entry functions, no interpreter start / imports: cheap on a loaded
        # machine); anything but a clean agreement is decided by the real entry points in subprocesses
        try:
            obs = self._run_inproc(case)
        except Exception:  # noqa: BLE001 - whatever goes wrong in-process is settled by the subprocess run
            obs = None
        if obs is not None and self.oracle(case, obs) is None and "fail" not in obs["ref"] and "fail" not in obs["sf"]:
            return obs
        return self._run_once(case, parallel=False)

    def _run_inproc(self, case):
        import contextlib
        import io
        import logging

        import cwltool.main
        import streamflow.cwl.runner
        from streamflow.log_handler import logger as sflogger
        d = tempfile.mkdtemp(prefix="sfv-c29-", dir=SCRATCH)
        cwd = os.getcwd()
        try:
            with open(os.path.join(d, "wf.cwl"), "w") as f:
                json.dump(G.render_wf(case["wf"]), f, indent=1)
            with open(os.path.join(d, "job.json"), "w") as f:
                json.dump(case["job"], f)
            with open(os.path.join(d, "sf.yml"), "w") as f:
                f.write(SF_YML)
            os.mkdir(os.path.join(d, "o-sf"))
            os.mkdir(os.path.join(d, "o-ref"))
            os.chdir(d)
            out1, log1 = io.StringIO(), io.StringIO()
            h = logging.StreamHandler(log1)
            sflogger.addHandler(h)
            try:
                with contextlib.redirect_stdout(out1):
                    rc1 = streamflow.cwl.runner.main(["--streamflow-file", "sf.yml", "--outdir", "o-sf", "wf.cwl", "job.json"])
            finally:
                sflogger.removeHandler(h)
            out2, log2 = io.StringIO(), io.StringIO()
            rc2 = cwltool.main.main(argsl=["--enable-ext", "--no-container", "--disable-js-validation", "--eval-timeout", "900", "--outdir",
                                           "o-ref", "wf.cwl", "job.json"], stdout=out2, stderr=log2,
                                    logger_handler=logging.StreamHandler(log2))

            def parse(rc, out):
                if rc != 0:
                    return {"fail": True}
                try:
                    probs = []
                    r = {"ok": canon_files(json.loads(out), probs)}
                    if probs:
                        r["fileproblems"] = probs
                    return r
                except ValueError:
                    return {"fail": True}
            return {"sf": parse(rc1, out1.getvalue()), "ref": parse(rc2, out2.getvalue()), "inproc": True}
        finally:
            os.chdir(cwd)
            shutil.rmtree(d, ignore_errors=True)

    def _run_once(self, case, parallel):
        d = tempfile.mkdtemp(prefix="sfv-c29-", dir=SCRATCH)
        try:
            with open(os.path.join(d, "wf.cwl"), "w") as f:
                json.dump(G.render_wf(case["wf"]), f, indent=1)
            with open(os.path.join(d, "job.json"), "w") as f:
                json.dump(case["job"], f)
            with open(os.path.join(d, "sf.yml"), "w") as f:
                f.write(SF_YML)
            os.mkdir(os.path.join(d, "o-sf"))
            os.mkdir(os.path.join(d, "o-ref"))
            env = dict(os.environ, PYTHONPATH=self.repo, TMPDIR=d)
            p1 = subprocess.Popen(["/venv/bin/python", "-c", SF_MAIN, "--streamflow-file", "sf.yml", "--outdir", "o-sf",
                                   "wf.cwl", "job.json"], cwd=d, env=env, stdout=subprocess.PIPE,
                                  stderr=subprocess.PIPE, text=True)
            env2 = dict(os.environ, TMPDIR=d)
            env2.pop("PYTHONPATH", None)
            def wait(p):
                try:
                    o, e = p.communicate(timeout=self.RUNNER_TIMEOUT)
                    return p.returncode, o, e
                except subprocess.TimeoutExpired:
                    p.kill()
                    p.communicate()
                    return 124, "", "ERROR runner did not finish within %d s" % self.RUNNER_TIMEOUT

            if not parallel:
                rc1, o1, e1 = wait(p1)
            p2 = subprocess.Popen(["/venv/bin/cwltool", "--enable-ext", "--no-container", "--disable-js-validation", "--eval-timeout",
                                   "900", "--outdir", "o-ref", "wf.cwl", "job.json"],
                                  cwd=d, env=env2, stdout=subprocess.PIPE, stderr=subprocess.PIPE, text=True)
            if parallel:
                rc1, o1, e1 = wait(p1)
            rc2, o2, e2 = wait(p2)

            def parse(rc, out):
                if rc == 124 and out == "":
                    return {"fail": True, "timeout": True}
                if rc != 0:
                    return {"fail": True}
                try:
                    probs = []
                    r = {"ok": canon_files(json.loads(out), probs)}
                    if probs:
                        r["fileproblems"] = probs
                    return r
                except ValueError:
                    return {"fail": True, "unparsable": out[-200:]}

            obs = {"sf": parse(rc1, o1), "ref": parse(rc2, o2)}
            if "fail" in obs["sf"]:
                obs["sf"]["why"] = _why(e1)
            if "fail" in obs["ref"]:
                obs["ref"]["why"] = _why(e2)
                if "SchemaParseException" in e2 and "is already in use" in e2:
                    # cwltool's own crash on anonymous record schemas used twice (avro name collision): the reference
                    # gives no verdict on this document, exactly like a reference that did not finish
                    obs["ref"]["timeout"] = True
                    obs["ref"]["internal"] = "avro-name-collision"
            return obs
        finally:
            shutil.rmtree(d, ignore_errors=True)

    def impl_run(self, c):
        if c["f"] == "prog":
            return self._run_prog(c)
        return self._run_op(c)

    # ---------------------------------------------------------------- oracle (from the property text)
    def oracle(self, c, o):
        if "crash" in o or "hang" in o:
            return ("crash", f"harness/implementation crashed or hung: {str(o)[:300]}")
        if c["f"] == "prog":
            sf, ref = o["sf"], o["ref"]
            if sf.get("fileproblems"):
                return ("file-metadata", "StreamFlow output File: " + "; ".join(sf["fileproblems"])[:300])
            if ref.get("timeout"):
                return None          # the reference did not finish (overloaded machine): no verdict on this program
            if "ok" in ref and sf.get("timeout"):
                return ("sf-hangs", f"cwltool prints {json.dumps(ref['ok'], sort_keys=True)[:300]}, StreamFlow did not "
                                    f"finish within {self.RUNNER_TIMEOUT} s in two attempts")
            if "ok" in ref and "fail" in sf:
                return ("sf-fails-ref-succeeds", f"cwltool prints {json.dumps(ref['ok'], sort_keys=True)[:300]}, "
                                                 f"StreamFlow fails: {sf.get('why', '')[:300]}")
            if "fail" in ref and "ok" in sf:
                return ("sf-succeeds-ref-fails", f"cwltool fails ({ref.get('why', '')[:200]}), StreamFlow prints "
                                                 f"{json.dumps(sf['ok'], sort_keys=True)[:300]}")
            if "ok" in ref and "ok" in sf and _canon(ref["ok"]) != _canon(sf["ok"]):
                bad = sorted(k for k in set(ref["ok"]) | set(sf["ok"])
                             if _canon(ref["ok"].get(k, "<absent>")) != _canon(sf["ok"].get(k, "<absent>")))
                k = bad[0]
                return ("output-differs", f"output {k}: cwltool {json.dumps(ref['ok'].get(k))[:200]}, StreamFlow "
                                          f"{json.dumps(sf['ok'].get(k))[:200]} (differing outputs: {bad})")
        return None

    # ---------------------------------------------------------------- model side
    def coq_case(self, c, o):
        if "crash" in o or "hang" in o:
            return None
        if c["f"] == "prog":
            if o["ref"].get("timeout") or o["sf"].get("timeout"):
                return None          # no complete observation to compare the interpreter with
            def ob(x):
                return coq_opt(x.get("ok"), coq_obj) if "ok" in x else "None"
            try:
                return f"CProg {coq_wf(c['wf'])} {coq_obj(c['job'])} {ob(o['ref'])} {ob(o['sf'])}"
            except ValueError:
                return None
        f = c["f"]
        if f == "merge":
            if "out" not in o and o.get("err") != "ValueError":
                return None
            return (f"COpMerge {coq_bool(c['flatten'])} {coq_list([coq_tok(t) for t in c['inputs']])} "
                    f"{coq_opt(o.get('out'), coq_tok)}")
        if f == "pick":
            return f"COpPick {PVB[c['p']]} {coq_tok(c['t'])} {coq_opt(o.get('out'), coq_tok)}"
        if f == "l2e":
            return f"COpListToElement {coq_tok(c['t'])} {coq_opt(o.get('out'), coq_tok)}"
        if f == "empty":
            out = o["out"] if o["out"] is not None else {"tag": "0", "l": []}
            return (f"COpEmptyScatter {METHOD[c['method']]} {coq_list([coq_tok(t) for t in c['inputs']])} "
                    f"{coq_bool(not o['nonempty'])} {coq_tok(out)}")
        return None

    def nontrivial(self, c):
        return True

    def signature(self, c, o, clause):
        if c["f"] == "prog":
            return clause + "/" + diagnose(c, o, clause)
        return f"{c['f']}/{clause}"

    def shrink(self, c):
        # every candidate costs two runner invocations: at most a handful per round
        import itertools
        return list(itertools.islice(self._shrink(c), 4))

    def _shrink(self, c):
        if c["f"] != "prog":
            return
        wf = c["wf"]
        # drop an output / a trailing step / simplify a link
        for i in range(len(wf["outputs"])):
            if len(wf["outputs"]) > 1:
                w = json.loads(json.dumps(wf))
                del w["outputs"][i]
                yield _prune({**c, "wf": w})
        for i in reversed(range(len(wf["steps"]))):
            sid = wf["steps"][i]["id"]
            w = json.loads(json.dumps(wf))
            del w["steps"][i]
            if not _uses(w, sid) and w["outputs"]:
                yield _prune({**c, "wf": w})
        for si, s in enumerate(wf["steps"]):
            if s.get("when"):
                w = json.loads(json.dumps(wf))
                w["steps"][si]["when"] = None
                w["steps"][si]["in"] = [l for l in w["steps"][si]["in"] if l["id"] != "w"]
                w["steps"][si]["scatter"] = [x for x in w["steps"][si]["scatter"] if x != "w"]
                yield {**c, "wf": w}


def canon_files(x, problems):
    """File objects of an output object -> {class, basename, contents}; size and checksum are checked against the
    contents read from the file (a discrepancy is recorded in [problems]); locations/paths are dropped."""
    import hashlib
    if isinstance(x, list):
        return [canon_files(y, problems) for y in x]
    if isinstance(x, dict):
        if x.get("class") == "File":
            path = x.get("path") or (x.get("location") or "")[len("file://"):]
            try:
                with open(path, "rb") as f:
                    data = f.read()
            except OSError:
                problems.append("unreadable output file %s" % x.get("basename"))
                data = b""
            if x.get("size") is not None and x["size"] != len(data):
                problems.append("size %r of %s, file has %d bytes" % (x["size"], x.get("basename"), len(data)))
            if x.get("checksum") and x["checksum"] != "sha1$" + hashlib.sha1(data).hexdigest():
                problems.append("checksum of %s does not match its contents" % x.get("basename"))
            return {"class": "File", "basename": x.get("basename"), "contents": data.decode("utf-8", "replace")}
        return {k: canon_files(v, problems) for k, v in x.items()}
    return x


def _uses(wf, sid):
    for s in wf["steps"]:
        for l in s["in"]:
            if any(r.startswith(sid + "/") for r in l["src"]):
                return True
    wf["outputs"] = [o for o in wf["outputs"] if not any(r.startswith(sid + "/") for r in o["src"])]
    return False


def _prune(c):
    return c


def _canon(x):
    return json.dumps(x, sort_keys=True)


ERRCLASSES = [
    ("is not optional", "token-not-optional"),
    ("Invalid value None for token", "invalid-value-none"),
    ("invalid literal for int()", "tag-int-valueerror"),
    ("No suitable token processors", "no-suitable-token-processor"),
    ("it should be an array", "array-expected"),
    ("is incompatible", "static-checker-incompatible"),
    ("ValidationException", "static-checker-incompatible"),
    ("All sources are null", "all-sources-null"),
    ("Expected only one source", "only-one-source"),
    ("WorkflowDefinitionException", "definition-exception"),
    ("Could not retrieve connector for job", "cancelled-job"),
    ("FAILED Workflow execution", "failed-workflow-execution"),
]


def errclass(why):
    for pat, name in ERRCLASSES:
        if pat in why:
            return name
    return "other"


def diffclass(c, o):
    """Shape of an output difference: which way the arrays differ."""
    ref, sf = o["ref"]["ok"], o["sf"]["ok"]
    for k in sorted(set(ref) | set(sf)):
        a, b = ref.get(k), sf.get(k)
        if _canon(a) == _canon(b):
            continue

        def flat(x):
            return [z for y in x for z in flat(y)] if isinstance(x, list) else [x]
        if isinstance(a, list) and isinstance(b, list):
            fa, fb = flat(a), flat(b)
            if _canon(fa) == _canon(fb):
                return "same-elements-different-nesting"
            if sorted(map(_canon, fa)) == sorted(map(_canon, fb)):
                return "same-elements-different-order"
            if len(fb) < len(fa):
                return "elements-missing"
            return "elements-differ"
        return "value-differs"
    return "none"


def _why(err):
    import re
    lines = [re.sub(r"\x1b\[[0-9;]*m", "", ln) for ln in err.splitlines()]
    lines = [re.sub(r"^\d{4}-\d\d-\d\d \d\d:\d\d:\d\d\.\d+\s+", "", ln) for ln in lines]
    keep = []
    for i, ln in enumerate(lines):
        if ("ERROR" in ln or "Exception" in ln or "rror:" in ln or "is incompatible" in ln
                or ("with sink" in ln and i > 0 and "is incompatible" in lines[i - 1])) and "Traceback" not in ln:
            keep.append(ln.strip())
            if ln.rstrip().endswith(":") and i + 1 < len(lines):
                keep.append(lines[i + 1].strip())
    keep = [k for k in keep if k]
    keep = [re.sub(r"_:[0-9a-f-]{36}", "_:id", re.sub(r"/var/tmp/sfv-c29-[A-Za-z0-9_]+", "<dir>", k)) for k in keep]
    return " | ".join(keep[:6])[:700]


PROP = C29()
