"""C12 — A job that fits is eventually scheduled (no lost wake-ups)."""
from harness.props.c14 import totals
from harness.props.sched_common import Ledger, SchedProp, cap_vec, chains_of, loc_class, vec


class C12(SchedProp):
    ID = "C12"
    PROPS_FILE = "Props/C12.v"
    LEVEL_TEXT = ('C12_valid_iff_fits: on a level with declared hardware whose ledger is within capacity (C10_capacity), a location is found valid EXACTLY when the requirement fits capacity - ledger on cores, memory and every mount point. C12_quiescent (flat locations with hardware or slots, one location per request): starting from any state satisfying the scheduler invariant (every state reached by a conformant history does), along a wake-up round in which the waiters re-evaluate in any order and some are granted, a request that was short of valid locations at its turn is still short in the state at the end of the round, so re-evaluating it there does not grant it. Wake protocol (Sched/Wake.v): a coroutine-level transition system of `async with wait_queue` / wait() / notify_all() (state = scheduler state + lock holder + lock FIFO + Condition waiter FIFO + a program counter per task; actions = acquire, and the critical section of the holder up to the release: a request evaluates and returns or parks, a notifier updates, moves every parked waiter to the lock FIFO and returns). C12_wake_refines_round_partial: every execution segment without notification is a wake round over the requests it evaluates, each exactly once, in lock order (a second notification may interleave: the segment is then a prefix of the round and the rest is re-evaluated after it). C12_no_lost_wakeup_partial / C12_parked_not_grantable: in every reachable state a parked request was evaluated after the last notification and, if short of valid locations then, still is (composition with C12_quiescent, flat domain, conformant projected history); in a quiescent state every issued ungranted request is parked and nobody holds or queues for the lock. C12_no_lost_wakeup_stacked_partial / C12_parked_not_grantable_stacked: the same composed with C12_quiescent_stacked, for chains of stacked levels with arbitrarily many tasks, jobs and locations. The shape of the real protocol state at every quiescent point (lock free, no lock waiters, #parked = #live _process_target tasks) is part of the correspondence. Outside the system: exceptions escaping a critical section (skipping notify_all: known multi-location finding), retry_delay timers, cancellation of a parked task, several targets per request, the Lock/Condition implementation of asyncio. C12_eventually_partial (flat domain; idle-point safety under ASSUMED fairness - every fireable/running job eventually notified, every notification followed by a full round - not liveness of the implementation): a continuation is a sequence of phases = a fireable/running job is notified a status outside {FIREABLE,RUNNING}, then every pending request is re-evaluated once in any order; C12_phases_measure: #fireable/running + #pending decreases by exactly one per phase (so, every fireable/running job being eventually notified, an idle point is reached within nact + |pending| phases); at an idle point reached by >= 1 phase of a conformant continuation no request for a location with declared hardware whose requirement fits the total capacity minus the measured residue (explicit assumption; by C11_release the idle ledger is exactly that residue) is still pending. C12_granted_on_release_partial (any locations): if some waiter would be granted when evaluated in the state right after a notification (e.g. exactly the n locations it needs are valid = fit the free capacity), the wake-up round grants at least one waiter whatever the order, and only waiters are granted. C12_quiescent_stacked: the same stability of re-evaluation along a wake-up round for chains of stacked levels (hardware or slot levels, outer or inner), from any state satisfying Inv2 (every state reached by a conformant2 history). C12_quiescent_partial (any locations, stacked included): a wake-up round (every waiter re-evaluates once, any order) that grants nothing leaves the state unchanged and every waiter evaluated-and-ungrantable in that final state. Theorems (Coq, closed) about one re-evaluation of a waiting request, for every state and every chain of stacked levels: the set of valid locations is exactly the candidates passing _is_valid; the request is granted only from valid locations; with exactly n>=1 valid locations it is granted whatever the policy answers; with fewer than n it keeps waiting and the state is unchanged (waiting consumes nothing); slot validity is count < slots. C12_rollback_frees_inner_slot: the former finding (a rolled-back job stayed listed on the inner slot location and blocked later jobs although nothing was fireable or running) after its fix in /repo (328356e: ROLLBACK removes the job from every stacked level). The wake-up mechanism itself is exercised, not modelled: the real scheduler runs under a seeded permuting event loop; at every quiescent point (ready queue empty) every pending request is compared with the free capacity computed from the property text.')
    LEVEL_NOTE = ("Partial. The model takes as inputs (observed from the real run, not modelled) the resolved requirement map, the policy's choice, du results and re-bound hardware; asyncio (Condition, task order) is exercised under a seeded permuting loop, not modelled. The history-level theorems hold on stated domains only (flat or stacked chains, one location per allocation, coherent releases, conformant lifecycle); outside them, and for the link between model and code, the statement is judged on every real run by an oracle written from the property text (ledger rebuilt from observations) and by replaying the run's event trace on the model. The model's history ends when an operation raises (run = Err), whereas the real scheduler goes on half-updated (e.g. notify_status raising out of _free_resources: status changed, nothing released, no notify_all): such runs are judged by the oracle only. Trusted: Coq kernel + vm_compute, Sched/Model.v, Hardware/Model.v, the harness fakes. No axioms. Missing: liveness with several candidate locations (policy-dependent) or slot locations, and asyncio's own Lock/Condition implementation (assumed FIFO as documented; exercised at every quiescent point of the real runs).")

    def oracle(self, case, obs):
        if "crash" in obs or "hang" in obs:
            return ("crash", f"driver crashed/hung: {obs.get('exc')} {obs.get('stderr', '')[-400:]}")
        if case.get("raw"):
            return None
        led = Ledger(case)
        chains = chains_of(case)
        for i, st in enumerate(obs["steps"]):
            led.feed(st)
            if st["exc"] and st["exc"].startswith("schedule:"):
                return ("schedule-raises", f"op #{i} {st['op']}: {st['exc']}")
            if st["exc"]:
                continue
            snap = st["snap"]
            hwloc = dict((n, h) for n, h in snap["hwloc"])
            load = led.load(snap)
            for job in st["pending"]:
                for t in case["jobs"][job]["targets"]:
                    tkey = t["dep"] + "|" + (t["service"] or "")
                    reqs = led.last_reqs.get((job, tkey))
                    if reqs is None:
                        continue                       # never evaluated: no candidate location at all
                    free = []
                    for ch in chains[t["dep"]]:
                        ok = True
                        for l in ch:
                            if l["cap"] is not None:
                                cap, need = cap_vec(l), vec(reqs[f"{l['dep']}/{l['name']}"])
                                used = vec(hwloc[l["name"]]) if l["name"] in hwloc else {}
                                if any(x > cap.get(k, 0) - used.get(k, 0) for k, x in need.items()):
                                    ok = False
                            else:
                                slots = l["slots"] if l["slots"] is not None else 1
                                cnt = load.get((l["dep"], l["name"]), ({}, [0]))[1][0]
                                if cnt >= slots:
                                    ok = False
                        if ok:
                            free.append(ch[0]["name"])
                            kinds = ("slots" if any(l["cap"] is None for l in ch) else "hw") + ("-stacked" if len(ch) > 1 else "")
                            if len(ch) == 1 and loc_class(case, ch[0]["name"]) != "outer":
                                kinds += "-wrapped-host"      # requested directly on a location that other locations wrap
                    if len(free) >= t["n"]:
                        return ("waiting-while-free@" + kinds, f"at the quiescent point after op #{i} {st['op']} the request of {job} on "
                                                      f"{tkey} ({t['n']} location(s)) is still waiting although {free} have enough "
                                                      f"free capacity")
        return None


PROP = C12()
