"""Shared machinery of the scheduler checks C10, C11, C12: case generation, a driver that runs the REAL
DefaultScheduler with fake connectors under a seeded, permuting event loop, canonical observations, the
free-capacity computations the oracles use (written from the property texts), and the Gallina rendering
of an observed history for Sched/Corr.v."""
import asyncio
import random
from fractions import Fraction

from harness.lib.framework import Prop, coq_bool, coq_list, coq_nat, coq_N, coq_opt, coq_str, coq_Z
from harness.props.c14 import HwCodec, coq_hw, coq_storage, totals
from harness.lib.looputil import permute_ready

PATHS = ["/tmp", "/w", "/data"]
CAP_LAYOUTS = [  # every layout resolves every path of PATHS (no fallback to remote mount-point discovery)
    [("/", ["/tmp", "/w", "/data"])],
    [("/", ["/tmp", "/w"]), ("/data", [])],
    [("/", ["/w"]), ("/tmp", []), ("/data", [])],
]
INNER_LAYOUTS = [[("/", ["/vol", "/big"])], [("/", ["/vol"]), ("/big", [])]]
ACTIVE = ("FIREABLE", "RUNNING")
TERMINAL = ("COMPLETED", "FAILED", "CANCELLED")
STATUSES = ["WAITING", "FIREABLE", "RUNNING", "SKIPPED", "COMPLETED", "FAILED", "CANCELLED", "ROLLBACK", "RECOVERY",
            "RECOVERED"]


# ====================================================================================== generation
def is_stacked_loc(l):
    """a location spec is stacked on the location it wraps unless it says otherwise (old corpus cases have no 'stacked' key)"""
    return l.get("wraps") is not None and l.get("stacked", True)


def gen_cap(rng, layouts, binds=None, big=False):
    lay = rng.choice(layouts)
    s = []
    for mount, paths in lay:
        bind = rng.choice(binds) if binds and rng.random() < 0.7 else None
        s.append([mount, mount, rng.choice([6, 10, 10, 20, 40] if big else [4, 6, 10, 10, 20]), list(paths), bind])
    return {"c": rng.choice([2, 4, 4, 8] if not big else [4, 8, 16]), "m": rng.choice([4, 8, 8, 16] if not big else [8, 16, 32]),
            "s": s}


def gen_case(rng, size="small", allow_stacked=True, allow_multi=True):
    deps = []
    inner = None
    # contention mode (30 %): one tight location, every job targets it, all requests first, releases in random order:
    # several requests with different requirements are blocked at once
    contention = rng.random() < 0.3
    # two input classes outside the engine's normal lifecycle, each on flat single-location configurations only so that their
    # findings have their own signatures: out-of-order RUNNING after a terminal status (C11 text: "regardless of the order"),
    # and du reporting more than was reserved (150 % / 200 %)
    special = rng.random()
    late_running, overuse = special < 0.15, 0.15 <= special < 0.27
    if contention or late_running or overuse:
        allow_stacked, allow_multi = False, False
    if allow_stacked and rng.random() < 0.45:
        hw_inner = rng.random() < 0.75
        locs = []
        for i in range(rng.randrange(1, 3)):
            locs.append({"name": f"h{i}", "cap": gen_cap(rng, INNER_LAYOUTS, big=True) if hw_inner else None,
                         "slots": None if hw_inner else rng.choice([None, 1, 2, 3]), "wraps": None})
        inner = {"name": "host", "wraps": None, "locs": locs}
    ndeps = 1 if contention else rng.randrange(1, 4)
    for d in range(ndeps):
        name = f"d{d}"
        stacked = inner is not None and rng.random() < 0.7          # "stacked" here = the deployment WRAPS the host deployment
        is_stacked = rng.random() < 0.6                             # ... and its locations are stacked on it (containers) or not (queue managers)
        kind = rng.choice(["hw", "hw", "hw", "slots"])
        locs = []
        for i in range(1 if contention else rng.randrange(1, 4)):
            wraps = rng.choice(inner["locs"])["name"] if stacked else None
            inner_hw = stacked and is_stacked and inner["locs"][0]["cap"] is not None
            if kind == "hw":
                cap = gen_cap(rng, CAP_LAYOUTS, binds=["/vol", "/big"] if inner_hw else None)
                locs.append({"name": f"{name}l{i}", "cap": cap, "slots": None, "wraps": wraps, "stacked": bool(wraps) and is_stacked})
            else:
                locs.append({"name": f"{name}l{i}", "cap": None, "slots": rng.choice([None, 1, 1, 2, 3]), "wraps": wraps,
                             "stacked": bool(wraps) and is_stacked})
        deps.append({"name": name, "wraps": "host" if stacked else None, "locs": locs})
    if inner is not None:
        deps.append(inner)
    outer = [d for d in deps if d["name"] != "host"]
    if inner is not None and rng.random() < 0.5:
        outer = outer + [inner]                  # jobs may also be submitted directly to the wrapped host
    njobs = rng.randrange(4, 8) if contention else rng.randrange(2, 5 if size == "small" else 8)
    names = []
    for j in range(njobs):
        step = rng.choice(["/s0", "/s0", "/s1", "/wf/s2"])
        tag = rng.choice(["0", "1", "2", "0.1", "0.10", "0.9"])
        nm = f"{step}/{tag}"
        if nm not in names:
            names.append(nm)
    jobs = {}
    for nm in names:
        if rng.random() < 0.12:
            req = None
        else:
            s = []
            keys = rng.sample(["in", "out", "tmp"], rng.choice([0, 1, 2, 2, 3]))   # often several entries on one mount point
            for k in keys:
                s.append([k, rng.choice(["/", "/x", "/data"]), rng.choice([1, 2, 3, 5, 8]), [rng.choice(PATHS)], None])
            req = {"c": rng.choice([1, 1, 2, 2, 3, 4]), "m": rng.choice([1, 2, 4, 4, 8]), "s": s}
        tds = rng.sample(outer, rng.randrange(1, min(2, len(outer)) + 1))
        targets = []
        for d in tds:
            n = 1
            if allow_multi and len(d["locs"]) >= 2 and rng.random() < 0.25:
                n = 2
            targets.append({"dep": d["name"], "service": rng.choice([None, None, "svc"]), "n": n})
        jobs[nm] = {"req": req, "targets": targets}
    nops = rng.randrange(6, 25 if size == "small" else 60)
    ops = []
    if contention:
        order = list(names)
        rng.shuffle(order)
        ops = [["S", j] for j in order] + [["N", j, "RUNNING", 0] for j in order if rng.random() < 0.7]
    for _ in range(nops):
        j = rng.choice(names)
        r = rng.random()
        if r < 0.35:
            ops.append(["S", j])
        else:
            st = rng.choice(["RUNNING", "RUNNING", "RUNNING", "COMPLETED", "COMPLETED", "COMPLETED", "FAILED", "CANCELLED",
                             "ROLLBACK", "RECOVERY", "FIREABLE" if rng.random() < 0.1 else "COMPLETED"])
            ops.append(["N", j, st, rng.choice([0, 1, 2, 4, 4, "fail"] + ([6, 8] if overuse else []))])
            if rng.random() < (0.35 if st in ("RUNNING", "FIREABLE") else 0.2):
                ops.append(["N", j, st, rng.choice([0, 2, 4])])       # duplicated notification (also of non-terminal statuses)
    return {"f": "hist", "loop_seed": rng.randrange(1 << 30), "deps": deps, "jobs": jobs, "ops": ops,
            "raw": rng.random() < 0.1, "drain": True, "late_running": late_running, "overuse": overuse}


# ====================================================================================== driver (worker side)
class PermutingLoop(asyncio.SelectorEventLoop):
    """Before every iteration the ready callbacks are permuted with the case's PRNG; quiescence = nothing ready
    and nothing timed: then (and only then) the pending quiesce() future of the driver is resolved."""

    def __init__(self, seed):
        super().__init__()
        self._rng = random.Random(seed)
        self._quiesce = None
        self.turns = 0

    def _run_once(self):
        if not self._ready and not self._scheduled and self._quiesce is not None:
            fut, self._quiesce = self._quiesce, None
            fut.set_result(None)
        if len(self._ready) > 1:
            permute_ready(self._ready, self._rng.shuffle)   # thread-safe, same order (harness/lib/looputil.py)
        self.turns += 1
        super()._run_once()

    def quiesce(self):
        fut = self.create_future()
        self._quiesce = fut
        return fut


class SchedDriver:
    def __init__(self):
        import streamflow.data.remotepath as remotepath
        import streamflow.data.utils as data_utils
        from streamflow.core.config import BindingConfig
        from streamflow.core.deployment import Connector, DeploymentConfig, Target
        from streamflow.core.exception import WorkflowExecutionException
        from streamflow.core.scheduling import AvailableLocation, HardwareRequirement
        from streamflow.core.workflow import Job, Status
        from streamflow.deployment.wrapper import ConnectorWrapper
        from streamflow.scheduling.scheduler import DefaultScheduler

        self.codec = HwCodec()
        self.remotepath, self.data_utils = remotepath, data_utils
        self.BindingConfig, self.DeploymentConfig, self.Target = BindingConfig, DeploymentConfig, Target
        self.WEE, self.AvailableLocation, self.Job, self.Status = WorkflowExecutionException, AvailableLocation, Job, Status
        self.DefaultScheduler = DefaultScheduler
        driver = self

        def _stub(*a, **k):
            raise NotImplementedError("fake connector: no remote operation is expected in scheduler checks")

        class FakeBase:
            def _locations(self, service):
                out = {}
                for l in self.spec["locs"]:
                    wraps = None
                    if l.get("wraps") is not None:
                        wraps = self.connector._locations(None)[l["wraps"]]
                    out[l["name"]] = driver.AvailableLocation(
                        name=l["name"], deployment=self.deployment_name, hostname="fake", service=service,
                        slots=l["slots"], stacked=is_stacked_loc(l),
                        hardware=driver.codec.build(l["cap"]) if l["cap"] is not None else None, wraps=wraps)
                return out

            async def get_available_locations(self, service=None):
                return self._locations(service)

        abstract = {n: _stub for n in getattr(Connector, "__abstractmethods__", ())}
        abstract_w = {n: _stub for n in getattr(ConnectorWrapper, "__abstractmethods__", ())}

        def mk_init(base, wrapper):
            def __init__(self, spec, inner=None):
                if wrapper:
                    base.__init__(self, spec["name"], "/", inner, None, 2 ** 16)
                else:
                    base.__init__(self, spec["name"], "/", 2 ** 16)
                self.spec = spec
            return __init__

        self.FakeConnector = type("FakeConnector", (FakeBase, Connector),
                                  {**abstract, "__init__": mk_init(Connector, False),
                                   "get_available_locations": FakeBase.get_available_locations})
        self.FakeWrapper = type("FakeWrapper", (FakeBase, ConnectorWrapper),
                                {**abstract_w, "__init__": mk_init(ConnectorWrapper, True),
                                 "get_available_locations": FakeBase.get_available_locations})

        class Req(HardwareRequirement):
            def __init__(self, hw):
                self.hw = hw

            @classmethod
            async def _load(cls, row, loading_context):
                raise NotImplementedError

            async def _save_additional_params(self, database):
                return {}

            def eval(self, job):
                return driver.codec.build(self.hw)

        self.Req = Req

        class ObsScheduler(DefaultScheduler):
            def _is_valid(self, connector, location, hardware_requirements, job_name):
                ev = driver._attempt_event(job_name, connector, location, hardware_requirements)
                try:
                    r = super()._is_valid(connector, location, hardware_requirements, job_name)
                except BaseException as e:
                    ev["raised"] = type(e).__name__ + ": " + str(e)[:120]
                    raise
                if r:
                    ev["valid"].append(location.name)
                return r

            def _allocate_job(self, job, hardware, connector, selected_locations, target):
                ev = driver.events[-1]
                assert ev["t"] == "A" and ev["job"] == job.name, "allocation without a preceding validity evaluation"
                ev["chosen"] = [loc.name for loc in selected_locations]
                return super()._allocate_job(job, hardware, connector, selected_locations, target)

            async def _free_resources(self, connector, job_allocation):
                driver.cur_free = {"job": job_allocation.job, "seq": []}
                try:
                    return await super()._free_resources(connector, job_allocation)
                finally:
                    driver.free_log.append(driver.cur_free)
                    driver.cur_free = None

        self.ObsScheduler = ObsScheduler

    # -------------------------------------------------------------------------------- event recording
    def _attempt_event(self, job_name, connector, location, reqs):
        last = self.events[-1] if self.events else None
        if last is None or last["t"] != "A" or last.get("_reqs") is not reqs:
            tkey = connector.deployment_name + "|" + (location.service or "")
            last = {"t": "A", "job": job_name, "tkey": tkey, "_reqs": reqs, "valid": [], "chosen": [], "raised": None,
                    "reqs": [[k, self.codec.obs(h)] for k, h in reqs.items()]}
            self.events.append(last)
        return last

    # -------------------------------------------------------------------------------- one history
    def run(self, case):
        loop = PermutingLoop(case["loop_seed"])
        try:
            return loop.run_until_complete(self._run(case, loop))
        finally:
            orig_usage, orig_bind, orig_gmp = self._orig
            self.remotepath.get_storage_usages = orig_usage
            self.data_utils.bind_mount_point = orig_bind
            self.data_utils.get_mount_point = orig_gmp
            loop.close()

    async def _run(self, case, loop):
        drv = self
        self.events, self.free_log, self.cur_free = [], [], None
        self.usage_q = None
        self._orig = (self.remotepath.get_storage_usages, self.data_utils.bind_mount_point, self.data_utils.get_mount_point)
        orig_bind = self.data_utils.bind_mount_point

        async def fake_usages(context, location, hardware):
            q = drv.usage_q
            call = {"loc": location.name, "hw": drv.codec.obs(hardware)}
            call["k"] = "du"
            if drv.cur_free is not None:
                drv.cur_free["seq"].append(call)
            if q == "fail":
                call["usage"] = None
                raise drv.WEE("fake du failure")
            # measured usage = q quarters of the reserved size of every storage (never more than reserved)
            u = {k: (Fraction(d.size) * q / 4).__floor__() for k, d in hardware.storage.items()}
            call["usage"] = [[k, v] for k, v in u.items()]
            return {k: Fraction(v * 2 ** 20) for k, v in u.items()}

        async def rec_bind(context, location, hardware):
            r = await orig_bind(context, location, hardware)
            if drv.cur_free is not None:
                drv.cur_free["seq"].append({"k": "bind", "loc": location.name, "hw": drv.codec.obs(r)})
            return r

        async def fake_get_mount_point(context, location, path):
            # the real function asks the location's declared hardware first and otherwise resolves the path
            # remotely (walking up the parents); the remote part is replaced by the same walk on the declared paths
            import posixpath
            p = path
            while True:
                try:
                    return location.hardware.get_mount_point(p)
                except KeyError:
                    if p in ("/", ""):
                        raise drv.WEE(f"Impossible to find the mount point of {path} path on location {location}")
                    p = posixpath.dirname(p)

        self.data_utils.get_mount_point = fake_get_mount_point
        self.remotepath.get_storage_usages = fake_usages
        self.data_utils.bind_mount_point = rec_bind

        specs = {d["name"]: d for d in case["deps"]}
        conns = {}
        for d in case["deps"]:
            if d["wraps"] is None:
                conns[d["name"]] = self.FakeConnector(d)
        for d in case["deps"]:
            if d["wraps"] is not None:
                conns[d["name"]] = self.FakeWrapper(d, conns[d["wraps"]])

        class DM:
            def get_connector(self, name):
                return conns.get(name)

        class Ctx:
            deployment_manager = DM()
            data_manager = None

        sched = self.ObsScheduler(Ctx())
        Status = self.Status
        dcfg = {n: self.DeploymentConfig(name=n, type="fake", config={}) for n in specs}
        pending = {}           # job -> schedule() task not finished
        steps = []
        raw = case.get("raw", False)

        def status_of(job):
            a = sched.job_allocations.get(job)
            return a.status.name if a else None

        def snapshot():
            return {
                "jobs": [[n, a.status.name, [self._chain(l) for l in a.locations], self.codec.obs(a.hardware)]
                         for n, a in sched.job_allocations.items()],
                "locjobs": [[f"{d}/{n}", list(la.jobs)] for d, m in sched.location_allocations.items() for n, la in m.items()],
                "hwloc": [[n, self.codec.obs(h)] for n, h in sched.hardware_locations.items()],
            }

        ops = list(case["ops"])
        if case.get("drain", True) and not raw:
            ops = ops + [["DRAIN"]]
        i = 0
        while i < len(ops):
            op = ops[i]
            i += 1
            if op[0] == "DRAIN":
                # drive every allocated job to completion (C11) and keep going while requests get granted
                extra = []
                for n, a in sched.job_allocations.items():
                    if a.status.name == "FIREABLE":
                        extra += [["N", n, "RUNNING", 0], ["N", n, "COMPLETED", 2]]
                    elif a.status.name == "RUNNING":
                        extra += [["N", n, "COMPLETED", 2]]
                if extra and len(ops) < 400:
                    ops = ops[:i] + extra + [["DRAIN"]] + ops[i:]
                continue
            ev0, fl0 = len(self.events), len(self.free_log)
            rec = {"op": op, "skipped": None, "exc": None}
            job = op[1]
            cur = status_of(job)
            if op[0] == "S":
                if job in pending and not pending[job].done():
                    rec["skipped"] = "request pending"
                elif not raw and cur not in (None, "ROLLBACK"):
                    # the engine re-submits a job only after the failure manager has notified ROLLBACK for it
                    rec["skipped"] = "job already allocated and not rolled back"
                else:
                    spec = case["jobs"][job]
                    j = self.Job(name=job, workflow_id=0, inputs={}, input_directory=None, output_directory=None,
                                 tmp_directory=None)
                    targets = [self.Target(deployment=dcfg[t["dep"]], locations=t["n"], service=t["service"], workdir="/w")
                               for t in spec["targets"]]
                    req = self.Req(spec["req"]) if spec["req"] is not None else None
                    pending[job] = loop.create_task(sched.schedule(j, self.BindingConfig(targets=targets), req))
            else:
                st = op[2]
                if cur is None:
                    rec["skipped"] = "no allocation"
                elif job in pending and not pending[job].done() and not raw:
                    rec["skipped"] = "request pending"
                elif not raw and st == "RUNNING" and cur not in ("FIREABLE", "RUNNING") and not (
                        case.get("late_running") and cur in TERMINAL):
                    rec["skipped"] = "RUNNING only from FIREABLE (or repeated while RUNNING)"
                elif not raw and st == "FIREABLE" and cur != "FIREABLE":
                    rec["skipped"] = "FIREABLE only by scheduling (or repeated while FIREABLE)"
                else:
                    if st == "RUNNING" and cur in TERMINAL:
                        rec["late"] = True               # out-of-order RUNNING after a terminal status
                    self.usage_q = op[3]
                    t = loop.create_task(sched.notify_status(job, Status[st]))
                    rec["_task"] = t
            await loop.quiesce()
            t = rec.pop("_task", None)
            if t is not None:
                if not t.done():
                    rec["exc"] = "notify_status did not finish"
                    t.cancel()
                elif t.exception() is not None:
                    rec["exc"] = "notify: " + type(t.exception()).__name__ + ": " + str(t.exception())[:160]
            for jn, pt in list(pending.items()):
                if pt.done():
                    if not pt.cancelled() and pt.exception() is not None:
                        rec["exc"] = "schedule: " + type(pt.exception()).__name__ + ": " + str(pt.exception())[:160]
                    del pending[jn]
            evs = []
            frees = iter(self.free_log[fl0:])
            for e in self.events[ev0:]:
                evs.append({k: v for k, v in e.items() if not k.startswith("_")})
            # a notify event is recorded for every applied notification (frees may be empty)
            if op[0] == "N" and rec["skipped"] is None:
                fr = self.free_log[fl0:]
                nev = {"t": "N", "job": job, "status": op[2], "free": fr[0] if fr else None}
                # notify takes the lock before the waiters it wakes: it is the first event of the step
                evs = [nev] + evs
            rec["events"] = evs
            rec["snap"] = snapshot()
            cond = sched.wait_queue
            live = sum(1 for tk in asyncio.all_tasks(loop)
                       if not tk.done() and getattr(tk.get_coro(), "__qualname__", "").endswith("_process_target"))
            rec["wq"] = [bool(cond._lock.locked()), len(cond._lock._waiters or ()), len(cond._waiters), live]
            rec["pending"] = sorted(jn for jn, pt in pending.items() if not pt.done())
            steps.append(rec)
        me = asyncio.current_task()
        rest = [t for t in asyncio.all_tasks(loop) if t is not me]
        for t in rest:
            t.cancel()
        await asyncio.gather(*rest, return_exceptions=True)
        return {"steps": steps, "turns": loop.turns}

    @staticmethod
    def _chain(loc):
        out = []
        while loc is not None:
            out.append([loc.deployment, loc.name])
            loc = loc.wraps if loc.stacked else None
        return out


# ====================================================================================== semantics from the property texts
def chains_of(case):
    """tkey-independent: deployment -> list of chains; a chain = list of location specs (with 'dep'), outermost first."""
    specs = {d["name"]: d for d in case["deps"]}
    out = {}
    for d in case["deps"]:
        cs = []
        for l in d["locs"]:
            chain, cur, dep = [], l, d
            while cur is not None:
                chain.append({**cur, "dep": dep["name"]})
                if not is_stacked_loc(cur):
                    break
                dep = specs[dep["wraps"]]
                cur = next(x for x in dep["locs"] if x["name"] == cur["wraps"])
            cs.append(chain)
        out[d["name"]] = cs
    return out


def all_levels(case):
    return {(d["name"], l["name"]): l for d in case["deps"] for l in d["locs"]}


def vec(h):
    """amount vector of a canonical hardware value: cores, memory, per-mount totals"""
    v = {"#cores": h["c"], "#mem": h["m"]}
    for m, s in totals(h).items():
        v["mount:" + m] = s
    return v


# ====================================================================================== Gallina rendering
def coq_level(l):
    return (f"(mklevel {coq_str(l['dep'])} {coq_str(l['name'])} {coq_opt(l['cap'], coq_hw_ctor)} "
            f"{coq_opt(l['slots'], coq_N)})")


def coq_hw_ctor(h):
    return f"(new_hw {coq_Z(h['c'])} {coq_Z(h['m'])} {coq_list([coq_storage(s) for s in h['s']])})"


def coq_status(s):
    return s.capitalize()


def coq_snapshot(s, bound=lambda prefix, term: term):
    jobs = coq_list([
        f"({coq_str(n)}, mkalloc {coq_status(st)} "
        f"{coq_list([coq_list([f'({coq_str(d)}, {coq_str(x)})' for d, x in ch]) for ch in locs])} {bound('h', coq_hw(h))})"
        for n, st, locs, h in s["jobs"]])
    lj = coq_list([f"({coq_str(k)}, {coq_list([coq_str(j) for j in js])})" for k, js in s["locjobs"]])
    hl = coq_list([f"({coq_str(n)}, {bound('h', coq_hw(h))})" for n, h in s["hwloc"]])
    return f"(mkstate {jobs} {lj} {hl})"


def coq_history(case, obs):
    """list of observed events, each with what the implementation showed, and the snapshot after each step that had
    events.  Repeated sub-terms (candidate chains of a deployment, requirement maps) are let-bound once."""
    chains = chains_of(case)
    binds, names = [], {}

    def bound(prefix, term):
        if term not in names:
            names[term] = f"{prefix}{len(names)}"
            binds.append((names[term], term))
        return names[term]

    items = []
    prev_snap = None
    for st in obs["steps"]:
        for e in st["events"]:
            if e["t"] == "A":
                dep = e["tkey"].split("|")[0]
                cands = bound("cands", coq_list([coq_list([coq_level(l) for l in ch]) for ch in chains[dep]]))
                reqs = bound("reqs", coq_list([f"({coq_str(k)}, {bound('h', coq_hw(h))})" for k, h in e["reqs"]]))
                n = next(t["n"] for t in case["jobs"][e["job"]]["targets"]
                         if t["dep"] + "|" + (t["service"] or "") == e["tkey"])
                items.append(f"OA {coq_str(e['job'])} {cands} {reqs} {coq_nat(n)} {coq_list([coq_str(x) for x in e['chosen']])} "
                             f"{coq_list([coq_str(x) for x in e['valid']])} {coq_bool(bool(e['chosen']))}")
            else:
                fls = render_free_levels(e["free"]) if e["free"] is not None else []
                items.append(f"ON {coq_str(e['job'])} {coq_status(e['status'])} {coq_list(fls)}")
        if st["events"] or st["snap"] != prev_snap:
            items.append(f"OSnap {coq_snapshot(st['snap'], bound)}")
        if "wq" in st:
            lk, nl, npk, nlive = st["wq"]
            items.append(f"OQuiet {coq_bool(lk)} {coq_nat(nl)} {coq_nat(npk)} {coq_nat(nlive)}")
        prev_snap = st["snap"]
    body = "CHist " + coq_list(items)
    for nm, term in reversed(binds):
        body = f"let {nm} := {term} in {body}"
    return "(" + body + ")"


def render_free_levels(fr):
    """The trace of one _free_resources call -> list of free_level.  Level 0 = the du calls before the first batch of
    bind_mount_point calls; every batch of binds opens the next level, whose job hardware is the LAST bind result."""
    levels = [{"hw": None, "calls": []}]
    prev = "du"
    for x in fr["seq"]:
        if x["k"] == "bind":
            if prev != "bind":
                levels.append({"hw": None, "calls": []})
            levels[-1]["hw"] = x["hw"]
        else:
            levels[-1]["calls"].append(x)
        prev = x["k"]
    out = []
    for lv in levels:
        usage = coq_list([
            f"({coq_str(c['loc'])}, " + coq_opt(c["usage"], lambda u: coq_list([f"({coq_str(k)}, {coq_Z(v)})" for k, v in u])) + ")"
            for c in lv["calls"]])
        out.append(f"(mkfl {coq_opt(lv['hw'], coq_hw)} {usage})")
    return out


# ====================================================================================== ledger rebuilt from observations
def case_class(case):
    stacked = any(d["wraps"] is not None for d in case["deps"])
    multi = any(t["n"] > 1 for j in case["jobs"].values() for t in j["targets"])
    return ("stacked" if stacked else "flat") + ("-multi" if multi else "-single")


class Ledger:
    """What the property texts talk about, recomputed from the observations alone: which jobs are fireable/running,
    where they were allocated, what was reserved for them at every level (the resolved requirement that the
    allocating evaluation showed), what du measured when they were released."""

    def __init__(self, case):
        self.case = case
        self.levels = all_levels(case)
        self.reserved = {}      # job -> {(dep, name): amount vector}
        self.measured = {}      # location name -> {mount: total measured usage}
        self.last_reqs = {}     # (job, tkey) -> reqs of the latest evaluation

    def feed(self, step):
        for e in step["events"]:
            if e["t"] == "A":
                self.last_reqs[(e["job"], e["tkey"])] = dict((k, h) for k, h in e["reqs"])
                if e["chosen"]:
                    self._alloc_reqs = dict((k, h) for k, h in e["reqs"])
                    self._alloc_job = e["job"]
            elif e["free"] is not None:
                self.reserved[e["job"]] = {}          # released: whatever its later status, the job holds nothing any more
                for c in e["free"]["seq"]:
                    if c["k"] == "du" and c["usage"] is not None:
                        mounts = {k: m for k, m, _, _, _ in c["hw"]["s"]}
                        for k, v in c["usage"]:
                            d = self.measured.setdefault(c["loc"], {})
                            d[mounts[k]] = d.get(mounts[k], 0) + v
        # reservations of the jobs allocated in this step, from the snapshot's chains
        for n, st, locs, _ in step["snap"]["jobs"]:
            if getattr(self, "_alloc_job", None) == n and st == "FIREABLE":
                self.reserved[n] = {}
                for ch in locs:
                    for dep, name in ch:
                        h = self._alloc_reqs.get(f"{dep}/{name}")
                        if h is not None:
                            v = self.reserved[n].setdefault((dep, name), {})
                            for k, x in vec(h).items():
                                v[k] = v.get(k, 0) + x
                self._alloc_job = None

    @staticmethod
    def active(snap):
        return [(n, locs) for n, st, locs, _ in snap["jobs"] if st in ACTIVE]

    def load(self, snap):
        """(dep, name) -> (amount vector reserved by active jobs, number of active jobs)"""
        out = {}
        for n, locs in self.active(snap):
            seen = set()
            for ch in locs:
                for dep, name in ch:
                    vecs, cnt = out.setdefault((dep, name), ({}, [0]))
                    if (dep, name) not in seen:
                        cnt[0] += 1
                        seen.add((dep, name))
                        for k, x in self.reserved.get(n, {}).get((dep, name), {}).items():
                            vecs[k] = vecs.get(k, 0) + x
        return out


def loc_class(case, name):
    """outer / inner (wrapped by one outer location) / shared-inner (wrapped by several)"""
    n = sum(1 for d in case["deps"] for l in d["locs"] if l.get("wraps") == name)
    return "outer" if n == 0 else ("inner" if n == 1 else "shared-inner")


def input_class(obs):
    """part of the finding signature: input classes outside the engine's normal lifecycle that the history contained"""
    steps = obs.get("steps", []) if isinstance(obs, dict) else []
    out = ""
    if any(st.get("late") for st in steps):
        out += "+late-running"
    if any(st["op"][0] == "N" and st["skipped"] is None and isinstance(st["op"][3], int) and st["op"][3] > 4 for st in steps):
        out += "+du-over-reservation"
    return out


def cap_vec(l):
    h = l["cap"]
    v = vec(h)
    if not h["s"]:
        v["mount:/"] = 0
    return v


class SchedProp(Prop):
    CORR_MODULE = "Sched.Corr"
    TECHNIQUE = ("Coq proof (invariants over event histories of a lock-granular model of DefaultScheduler) + vm_compute replay "
                 "of the event traces of real runs on the model")
    MAX_WORKERS = 6
    COQ_SHARD = 25
    CASE_TIMEOUT = 60
    SIZES = {"quick": 150, "thorough": 1500, "extended": 500}
    RULE = ("histories of 6..60 operations (schedule requests and status notifications RUNNING/COMPLETED/FAILED/CANCELLED/"
            "ROLLBACK/RECOVERY, duplicated notifications, du results 0..100% of the reservation or failing) over 1..3 target "
            "deployments x 1..3 locations (hardware with 1..3 mount points, or slots), optionally stacked on a wrapped "
            "deployment of 1..2 host locations (several outer locations may share a host), 1..2 targets per job, 1..2 locations "
            "per target; run on the real DefaultScheduler under a seeded permuting event loop, snapshot at every quiescent "
            "point; conformant lifecycle enforced by the driver except in 10% 'raw' histories (correspondence only); every "
            "conformant history is finally drained (all jobs run and complete). Non-trivial = at least one allocation and one "
            "release. Distinct = distinct canonical JSON.")
    TRUSTED = ("model: Sched/Model.v (one retry-loop iteration of _process_target and notify_status as atomic events, _is_valid, "
               "_get_running_jobs, _allocate_job, _free_resources) is hand-written",
               "inputs of the model taken from the real run, not modelled: hardware_requirements produced by "
               "_resolve_hardware_requirement/bind_mount_point, the Policy's choice, du results, the order in which tasks take "
               "the wait_queue lock",
               "harness fakes: connectors, get_storage_usages, the remote fallback of get_mount_point (replaced by a walk up "
               "the declared paths); asyncio Condition/Lock are exercised, not verified")
    ASSUMPTIONS = ("the bodies of the retry loop and of notify_status are atomic because they hold wait_queue (asyncio.Condition)",
                   "location names are unique across deployments; AvailableLocation.deployment equals the connector's deployment_name")

    def gen(self, rng, tier):
        n = self.SIZES[tier]
        out = []
        for i in range(n):
            out.append(gen_case(rng, size="small" if i % 3 else "large"))
        return out

    def impl_init(self):
        self.driver = SchedDriver()

    def impl_run(self, case):
        return self.driver.run(case)

    def coq_case(self, case, obs):
        if "crash" in obs or "hang" in obs:
            return None
        for st in obs["steps"]:
            if st["exc"] or any(e.get("raised") for e in st["events"] if e["t"] == "A"):
                return None          # an exception escaped the scheduler: judged by the oracle, not replayed on the model
        return coq_history(case, obs)

    def nontrivial(self, case):
        return any(o[0] == "S" for o in case["ops"]) and any(o[0] == "N" for o in case["ops"])

    def signature(self, case, obs, clause):
        multi = any(t["n"] > 1 for j in case["jobs"].values() for t in j["targets"])
        return f"{clause}{input_class(obs)}/{'multi' if multi else 'single'}"

    def shrink(self, case):
        ops = case["ops"]
        for i in range(len(ops) - 1, -1, -1):
            yield {**case, "ops": ops[:i] + ops[i + 1:]}
        used = {o[1] for o in ops}
        for j in list(case["jobs"]):
            if j not in used:
                yield {**case, "jobs": {k: v for k, v in case["jobs"].items() if k != j}}
        for j, spec in case["jobs"].items():
            if len(spec["targets"]) > 1:
                for i in range(len(spec["targets"])):
                    yield {**case, "jobs": {**case["jobs"], j: {**spec, "targets": spec["targets"][:i] + spec["targets"][i + 1:]}}}
            if spec["req"] and spec["req"]["s"]:
                for i in range(len(spec["req"]["s"])):
                    r = spec["req"]
                    yield {**case, "jobs": {**case["jobs"], j: {**spec, "req": {**r, "s": r["s"][:i] + r["s"][i + 1:]}}}}
        tdeps = {t["dep"] for s in case["jobs"].values() for t in s["targets"]}
        for di, d in enumerate(case["deps"]):
            if d["name"] not in tdeps and d["name"] != "host":
                yield {**case, "deps": case["deps"][:di] + case["deps"][di + 1:]}
            nmin = max([t["n"] for s in case["jobs"].values() for t in s["targets"] if t["dep"] == d["name"]] + [1])
            wrapped = {l["wraps"] for dd in case["deps"] for l in dd["locs"] if l.get("wraps")}
            if len(d["locs"]) > nmin:
                for li, l in enumerate(d["locs"]):
                    if l["name"] not in wrapped:
                        nd = {**d, "locs": d["locs"][:li] + d["locs"][li + 1:]}
                        yield {**case, "deps": case["deps"][:di] + [nd] + case["deps"][di + 1:]}
        if not case.get("drain", True):
            return
        yield {**case, "drain": False}
