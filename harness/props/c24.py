"""C24 — Remote path operations agree with the local filesystem."""
import os
import shutil
import stat

from harness.lib.framework import Prop, coq_bool, coq_opt, coq_str
from harness.props.c25 import hostile

TEST_FLAGS = {"exists": "-e", "is_dir": "-d", "is_executable": "-x", "is_file": "-f", "is_symlink": "-L"}
ASCII_WS = " \t\n\r\x0b\x0c\x1c\x1d\x1e\x1f"


class _Loops(Exception):
    pass


def name(rng, nl=None):
    if nl is None:
        nl = rng.random() < 0.12       # names with newlines make the remote walk hang (known): keep them rare
    w = hostile(rng, 4, nl=nl).replace("/", "_").replace("\x00", "")
    return "n" if w in ("", ".", "..") else w[:60]


class C24(Prop):
    ID = "C24"
    PROPS_FILE = "Props/C24.v"
    CORR_MODULE = "RPath.Corr"
    MAX_WORKERS = 8
    CASE_TIMEOUT = 900
    SHARD_TIMEOUT = 1500
    LEVEL_TEXT = (
        "Theorems (Coq, closed): for every path string and every operation of RemoteStreamFlowPath whose command is "
        "literal words plus shlex.quote'd paths (test -e/-d/-f/-x/-L, chmod, mkdir, cat/head, rm -rf, ln, find; "
        "resolve at token level) the tool receives the path and link target as one verbatim argument, by the model "
        "of /bin/sh's token recogniser shared with C25; the raw and \"...\"-wrapped forms used before the fix are "
        "refuted with witnesses. The model is tied to /repo by comparing, for generated hostile paths, the exact "
        "command string each operation hands to its connector; the property itself is judged by running every "
        "operation through a shell-backed non-local location and through LocalStreamFlowPath on twin trees and "
        "comparing results and resulting trees.")
    LEVEL_NOTE = ("Partial: only the argument channel is proved; coreutils/dash semantics, the result parsing (strip, split, "
                  "splitlines: known findings) and the local pathlib side are exercised, not modelled. checksum, size and glob "
                  "command shapes are covered by the exact-string correspondence, not by a theorem. Directory modes are not compared.")
    TECHNIQUE = "Coq proof over the shared shell tokenizer model + vm_compute correspondence of command strings + twin-tree differential oracle"
    RULE = ("cmd: operation x hostile absolute path (blanks, quotes, $, backquotes, globs, unicode, leading dash, newlines) -> exact "
            "command string; fs: scenario of 15 operations on a hostile directory/file/link name and hostile content, remote vs local. "
            "Non-trivial = the path contains a character outside the shlex safe set. Distinct = distinct canonical JSON.")
    TRUSTED = ("models Shell/Model.v, RPath/Model.v are hand-written; tied to the code by the correspondence run only",
               "dash, coreutils, findutils, CPython pathlib/shlex are exercised, not verified")
    ASSUMPTIONS = ("path strings contain no NUL; modes are rendered by Python's f'{mode:o}'",)

    # ------------------------------------------------------------------ generation
    def gen(self, rng, tier):
        k = {"quick": 1, "thorough": 3, "extended": 2}[tier]
        cases = []
        ops = list(TEST_FLAGS) + ["checksum", "resolve", "chmod", "mkdir", "read_text", "rmtree", "symlink_to", "hardlink_to",
                                  "size", "glob", "walk", "write_text"]
        for _ in range(500 * k):
            p = "/" + "/".join(name(rng) for _ in range(rng.randrange(1, 4)))
            if rng.random() < 0.1:
                p += rng.choice(["/", "//x", "/./y", "/.."])
            c = {"f": "cmd", "op": rng.choice(ops), "p": p}
            if c["op"] == "chmod":
                c["mode"], c["follow"] = rng.choice([0o755, 0o600, 0o4750, 0]), rng.random() < 0.7
            if c["op"] == "mkdir":
                c["mode"], c["parents"], c["exist_ok"] = rng.choice([0o777, 0o700]), rng.random() < 0.5, rng.random() < 0.5
            if c["op"] == "read_text":
                c["n"] = rng.choice([-1, -1, 0, 5, 4096])
            if c["op"] in ("symlink_to", "hardlink_to"):
                c["target"] = "/" + name(rng)
            if c["op"] == "glob":
                c["pattern"] = rng.choice(["*", "*.txt", "a?c", "[ab]*", "x y", "sub/*"])
            if c["op"] == "walk":
                c["follow"], c["which"] = rng.random() < 0.3, rng.randrange(2)
            cases.append(c)
        for _ in range({"quick": 40, "thorough": 100, "extended": 60}[tier]):
            content = rng.choice(["", "x", "hello\n", "two\nlines", hostile(rng, 8), " lead", "trail \n\n", "\ttab\t"])
            cases.append({"f": "fs", "d": name(rng), "file": name(rng), "link": name(rng), "hard": name(rng), "sub": name(rng),
                          "content": content})
        return cases

    # ------------------------------------------------------------------ implementation
    def impl_init(self):
        import asyncio
        import atexit
        import shutil
        import tempfile
        import types

        from streamflow.core.deployment import ExecutionLocation
        from streamflow.data.remotepath import StreamFlowPath
        from streamflow.deployment.connector.base import SubprocessStreamWriterWrapperContextManager
        from streamflow.deployment.connector.local import LocalConnector

        self.asyncio, self.SFP, self.Loc = asyncio, StreamFlowPath, ExecutionLocation
        self.scratch = tempfile.mkdtemp(prefix="sfv-c24-", dir="/var/tmp")
        atexit.register(shutil.rmtree, self.scratch, True)
        os.chdir(self.scratch)
        self.n = 0
        # hostile names are interpolated into shell text by the code under test (and by mutants of it): keep every
        # expansion ($HOME, ~, relative paths) inside the scratch directory
        os.makedirs(os.path.join(self.scratch, "home"), exist_ok=True)
        os.environ["HOME"] = os.path.join(self.scratch, "home")
        prop = self

        class Recording(LocalConnector):
            """records the command of every run / stream writer; executes nothing"""
            def __init__(self):
                super().__init__("rec", prop.scratch)
                self.log = []

            async def run(self, location, command, **kw):
                self.log.append(" ".join(command))
                return "", 0

            async def get_stream_writer(self, command, location):
                self.log.append(" ".join(command))
                return SubprocessStreamWriterWrapperContextManager(
                    coro=asyncio.create_subprocess_exec("cat", stdin=asyncio.subprocess.PIPE,
                                                        stdout=asyncio.subprocess.DEVNULL))

        class ShellRemote(LocalConnector):
            """a shell-based remote location: every command goes through `sh -c`, like the SSH and container connectors"""
            async def get_stream_writer(self, command, location):
                return SubprocessStreamWriterWrapperContextManager(
                    coro=asyncio.create_subprocess_exec("sh", "-c", " ".join(command), stdin=asyncio.subprocess.PIPE,
                                                        stdout=asyncio.subprocess.DEVNULL, stderr=asyncio.subprocess.DEVNULL))

        self.rec = Recording()
        self.remote = ShellRemote("remote", self.scratch)
        conns = {"rec": self.rec, "remote": self.remote}
        self.ctx = types.SimpleNamespace(
            deployment_manager=types.SimpleNamespace(get_connector=lambda n: conns.get(n)),
            data_manager=types.SimpleNamespace(get_data_locations=lambda *a, **k: []))

    async def _call(self, path, c, op=None):
        op = op or c["op"]
        if op in TEST_FLAGS or op in ("checksum", "resolve", "rmtree", "size"):
            return await getattr(path, op)()
        if op == "chmod":
            return await path.chmod(c["mode"], follow_symlinks=c["follow"])
        if op == "mkdir":
            return await path.mkdir(mode=c["mode"], parents=c["parents"], exist_ok=c["exist_ok"])
        if op == "read_text":
            return await path.read_text(n=c["n"])
        if op in ("symlink_to", "hardlink_to"):
            return await getattr(path, op)(c["target"])
        if op == "glob":
            return [str(x) async for x in path.glob(c["pattern"])]
        if op == "walk":
            return [(str(a), list(b), list(d)) async for a, b, d in path.walk(follow_symlinks=c["follow"])]
        if op == "write_text":
            return await path.write_text("data")
        raise ValueError(op)

    def impl_run(self, c):
        if c["f"] == "cmd":
            return self.asyncio.run(self._cmd(c))
        return self.asyncio.run(self._fs(c))

    async def _cmd(self, c):
        loc = self.Loc(name="r", deployment="rec")
        path = self.SFP(c["p"], context=self.ctx, location=loc)
        self.rec.log = []
        try:
            await self._call(path, c)
        except Exception as e:  # noqa
            return {"exc": type(e).__name__, "msg": str(e)[:200], "cmds": list(self.rec.log), "str": str(path)}
        return {"cmds": list(self.rec.log), "str": str(path)}

    def _snap(self, root):
        out = []
        for dp, dn, fn in os.walk(root):
            for x in sorted(dn + fn):
                fp = os.path.join(dp, x)
                st = os.lstat(fp)
                rel = os.path.relpath(fp, root)
                if stat.S_ISLNK(st.st_mode):
                    out.append([rel, "l", os.readlink(fp).replace(root, "<R>")])
                elif stat.S_ISDIR(st.st_mode):
                    out.append([rel, "d", ""])
                else:
                    with open(fp, "rb") as fh:
                        out.append([rel, "f", fh.read().hex() + ":%o:%d" % (stat.S_IMODE(st.st_mode), st.st_nlink)])
        return sorted(out)

    def _steps(self, c):
        """The scenario: (label, function of the path set and the root) — the same list drives both sides."""
        async def g(p, root):
            return sorted([str(x) async for x in p["d"].glob("*")])

        async def w(p, root):
            # non-termination is detected structurally, not by a clock: the tree has at most 3 directories, so a
            # walk that yields 12 times is going round in circles
            out = []
            async for a, b, x in p["d"].walk():
                out.append([str(a), sorted(b), sorted(x)])
                if len(out) >= 12:
                    raise _Loops()
            return sorted(out)
        st = [("mkdir", lambda p, r: p["d"].mkdir(mode=0o755, parents=True, exist_ok=True)),
              ("mkdir-sub", lambda p, r: p["s"].mkdir(mode=0o755)),
              ("write", lambda p, r: p["f"].write_text(c["content"])),
              ("read", lambda p, r: p["f"].read_text()),
              ("size", lambda p, r: p["f"].size()),
              ("checksum", lambda p, r: p["f"].checksum()),
              ("exists", lambda p, r: p["f"].exists()),
              ("is_file", lambda p, r: p["f"].is_file()),
              ("is_dir", lambda p, r: p["d"].is_dir()),
              ("exists-missing", lambda p, r: p["m"].exists())]
        if c["link"] not in (c["file"], c["sub"]):
            st += [("symlink", lambda p, r: p["l"].symlink_to(os.path.join(r, c["d"], c["file"]))),
                   ("is_symlink", lambda p, r: p["l"].is_symlink()),
                   ("resolve", lambda p, r: p["l"].resolve())]
        if c["hard"] not in (c["file"], c["sub"], c["link"]):
            st += [("hardlink", lambda p, r: p["h"].hardlink_to(os.path.join(r, c["d"], c["file"])))]
        st += [("chmod", lambda p, r: p["f"].chmod(0o750)),
               ("is_executable", lambda p, r: p["f"].is_executable()),
               ("glob", g), ("walk", w),
               ("rmtree", lambda p, r: p["s"].rmtree()),
               ("exists-sub", lambda p, r: p["s"].exists())]
        return st

    def _paths(self, c, root, local):
        loc = self.Loc(name="x", deployment="remote", local=local)
        P = lambda *a: self.SFP(root, *a, context=self.ctx, location=loc)
        return {"d": P(c["d"]), "f": P(c["d"], c["file"]), "l": P(c["d"], c["link"]), "h": P(c["d"], c["hard"]),
                "s": P(c["d"], c["sub"]), "m": P(c["d"], c["file"] + "-missing")}

    async def _step(self, fn, paths, root, timeout):
        def norm(v):
            if isinstance(v, str):
                return v.replace(root, "<R>")
            if isinstance(v, (list, tuple)):
                return [norm(x) for x in v]
            if hasattr(v, "__fspath__"):
                return str(v).replace(root, "<R>")
            return v
        try:
            v = await self.asyncio.wait_for(fn(paths, root), timeout)
            return ["ok", norm(v)]
        except _Loops:
            return ["hang", ""]
        except self.asyncio.TimeoutError:
            return ["no-answer-in-500s", ""]
        except Exception:  # noqa  (which exception class each side raises is not compared)
            return ["err", ""]

    def _strays(self, base):
        known_top = {f"t{i}" for i in range(1, self.n + 1)} | {"home"}
        out = sorted(x for x in os.listdir(os.path.join(base, "remote")) if x != "root") \
            + sorted(x for x in os.listdir(self.scratch) if x not in known_top) \
            + sorted(os.listdir(os.path.join(self.scratch, "home")))
        for dd, keep in ((self.scratch, known_top), (os.path.join(self.scratch, "home"), set()),
                         (os.path.join(base, "remote"), {"root"})):
            for x in os.listdir(dd):
                if x not in keep:
                    fp = os.path.join(dd, x)
                    shutil.rmtree(fp, True) if os.path.isdir(fp) and not os.path.islink(fp) else os.unlink(fp)
        return out

    async def _fs(self, c):
        """Runs the scenario step by step on twin trees (remote = shell commands, local = filesystem API).  After
        every step results and trees are compared; when the trees have diverged the remote tree is rebuilt by
        replaying the steps so far with the local implementation, so that every step is judged on equal trees and
        one scenario reports every step that differs, not only the first."""
        self.n += 1
        base = os.path.join(self.scratch, f"t{self.n}")
        rroot, lroot = os.path.join(base, "remote", "root"), os.path.join(base, "local", "root")
        os.makedirs(rroot)
        os.makedirs(lroot)
        steps = self._steps(c)
        rp, lp = self._paths(c, rroot, False), self._paths(c, lroot, True)
        diffs = []
        for i, (label, fn) in enumerate(steps):
            rv = await self._step(fn, rp, rroot, 500)
            lv = await self._step(fn, lp, lroot, 500)
            if rv != lv:
                diffs.append([label, "result", rv, lv])
            stray = self._strays(base)
            if stray:
                diffs.append([label, "stray", stray[:5], []])
            rt, lt = self._snap(rroot), self._snap(lroot)
            if rt != lt:
                diffs.append([label, "tree", [x for x in rt if x not in lt][:3], [x for x in lt if x not in rt][:3]])
                shutil.rmtree(rroot, True)
                os.makedirs(rroot)
                xp = self._paths(c, rroot, True)
                for _, fn2 in steps[:i + 1]:
                    await self._step(fn2, xp, rroot, 500)
                if self._snap(rroot) != lt:
                    diffs.append([label, "resync", "", ""])
                    break
        return {"diffs": diffs, "nsteps": len(steps)}

    # ------------------------------------------------------------------ oracle: remote == local
    def _cls(self, c, d):
        """input class of one difference [label, kind, remote, local]"""
        label, kind, rv, lv = d
        names = c["d"] + c["file"] + c["link"] + c["hard"] + c["sub"]
        ws = any(ch.isspace() for ch in names)
        if kind == "result" and rv and rv[0] == "hang":
            return "hang-whitespace-only-name" if label == "walk" and any(n.strip() == "" for n in (c["d"], c["sub"])) \
                else "hang"
        if kind == "result" and label == "read":
            return "ws-content" if c["content"].strip() != c["content"] else "cr-content" if "\r" in c["content"] else "other"
        if kind == "result" and label == "checksum" and c["file"] == c["sub"]:
            return "target-is-directory"
        if kind == "result" and label == "checksum":
            return "escaped-name" if any(ch in c["d"] + c["file"] for ch in "\\\n\r") else "other"
        if kind == "result" and label == "write":
            return "target-is-directory" if c["file"] == c["sub"] else "other"
        if kind == "result" and label == "walk":
            if rv[0] == "ok" and lv[0] == "ok" and [[a, b, [x for x in f if x != c["link"]]] for a, b, f in lv[1]] == rv[1]:
                return "symlink-omitted"
            return "newline-name" if ("\n" in names or "\r" in names) else "whitespace-name" if ws else "other"
        return "whitespace-name" if ws else "other"

    def _known(self):
        if not hasattr(self, "_known_sigs"):
            from harness.lib.framework import load_known
            self._known_sigs = {k[0] for k in load_known(self.ID)[0]}
        return self._known_sigs

    def oracle(self, c, o):
        if "crash" in o or "hang" in o:
            return ("crash", f"implementation crashed/hung: {str(o)[:300]}")
        if c["f"] != "fs" or not o.get("diffs"):
            return None
        # every differing step is a failure of the property; the framework takes one per case: the first whose
        # signature is not a listed known finding, so that an unlisted divergence is never hidden behind a listed one
        cands = [(f"{d[1]}-{d[0]}", d) for d in o["diffs"]]
        pick = next((x for x in cands if f"fs/{x[0]}/{self._cls(c, x[1])}" not in self._known()), cands[0])
        clause, d = pick
        return (clause, f"{d[0]} ({d[1]}): remote {str(d[2])[:200]} local {str(d[3])[:200]} "
                        f"(d {c['d']!r} file {c['file']!r} link {c['link']!r} hard {c['hard']!r} sub {c['sub']!r}; "
                        f"all differing steps: {[x[0] for x in cands]})")

    # ------------------------------------------------------------------ model side
    def _op_term(self, c):
        op = c["op"]
        if op in TEST_FLAGS:
            return [f"(OTest {coq_str(TEST_FLAGS[op])})"]
        if op == "checksum":
            return ["OChecksum"]
        if op == "resolve":
            return ["OResolve"]
        if op == "chmod":
            return [f"(OChmod {coq_str('%o' % c['mode'])} {coq_bool(c['follow'])})"]
        if op == "mkdir":
            return [f"(OMkdir {coq_str('%o' % c['mode'])} {coq_bool(c['parents'] or c['exist_ok'])})"]
        if op == "read_text":
            return [f"(ORead {coq_opt(str(c['n']) if c['n'] >= 0 else None, coq_str)})"]
        if op == "rmtree":
            return ["ORmtree"]
        if op == "symlink_to":
            return [f"(OSymlink {coq_str(c['target'])})"]
        if op == "hardlink_to":
            return [f"(OHardlink {coq_str(c['target'])})"]
        if op == "size":
            return ["OSize"]
        if op == "glob":
            return [f"(OGlob {coq_str(c['pattern'])})"]
        if op == "walk":
            return [f"(OFind {coq_bool(c['follow'])} {coq_str('df'[c['which']])})"]
        if op == "write_text":
            return ["OWrite"]

    def coq_case(self, c, o):
        if "crash" in o or "hang" in o or c["f"] != "cmd":
            return None
        ops = self._op_term(c)
        cmds = o.get("cmds", [])
        if c["op"] == "walk" and len(cmds) == 2:
            cmds = [cmds[c["which"]]]
        if len(cmds) != 1:
            return f"CCmd {ops[0]} {coq_str(o.get('str', c['p']))} {coq_str('<' + str(len(cmds)) + ' commands recorded>')}"
        return f"CCmd {ops[0]} {coq_str(o['str'])} {coq_str(cmds[0])}"

    def nontrivial(self, c):
        s = c.get("p") or (c["d"] + c["file"])
        return any(ch not in "abcdefghijklmnopqrstuvwxyzABCDEFGHIJKLMNOPQRSTUVWXYZ0123456789_@%+=:,./-" for ch in s)

    def signature(self, c, o, clause):
        if c["f"] == "fs":
            d = next((d for d in o.get("diffs", []) if f"{d[1]}-{d[0]}" == clause), None)
            return f"fs/{clause}/{self._cls(c, d) if d else 'other'}"
        return f"{c['f']}/{clause}"

    def shrink(self, c):
        if c["f"] == "fs":
            for k in ("d", "file", "link", "hard", "sub"):
                for ch in sorted(set(c[k])):
                    if ch != c[k]:
                        yield {**c, k: k[0] + ch}
                if len(c[k]) > 1:
                    yield {**c, k: k}
            if c["content"] not in ("", "x"):
                yield {**c, "content": "x"}
                yield {**c, "content": c["content"].strip()}


PROP = C24()
