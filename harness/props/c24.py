"""C24 — Remote path operations agree with the local filesystem."""
import os
import shutil
import stat

from harness.lib.framework import Prop, coq_bool, coq_opt, coq_str
from harness.props.c25 import hostile

TEST_FLAGS = {"exists": "-e", "is_dir": "-d", "is_executable": "-x", "is_file": "-f", "is_symlink": "-L"}
ASCII_WS = " \t\n\r\x0b\x0c\x1c\x1d\x1e\x1f"


def name(rng, nl=None):
    if nl is None:
        nl = rng.random() < 0.12       # names with newlines make the remote walk hang (known): keep them rare
    w = hostile(rng, 4, nl=nl).replace("/", "_").replace("\x00", "")
    return "n" if w in ("", ".", "..") else w[:60]


class C24(Prop):
    ID = "C24"
    PROPS_FILE = "Props/C24.v"
    CORR_MODULE = "RPath.Corr"
    MAX_WORKERS = 8
    CASE_TIMEOUT = 60
    SHARD_TIMEOUT = 1500
    LEVEL_TEXT = (
        "Theorems (Coq, closed): for every path string and every operation of RemoteStreamFlowPath whose command is "
        "literal words plus shlex.quote'd paths (test -e/-d/-f/-x/-L, chmod, mkdir, cat/head, rm -rf, ln, find; "
        "resolve at token level) the tool receives the path and link target as one verbatim argument, by the model "
        "of /bin/sh's token recogniser shared with C25; the raw and \"...\"-wrapped forms used before the fix are "
        "refuted with witnesses. The model is tied to /repo by comparing, for generated hostile paths, the exact "
        "command string each operation hands to its connector; the property itself is judged by running every "
        "operation through a shell-backed non-local location and through LocalStreamFlowPath on twin trees and "
        "comparing results and resulting trees.")
    LEVEL_NOTE = ("Partial: only the argument channel is proved; coreutils/dash semantics, the result parsing (strip, split, "
                  "splitlines: known findings) and the local pathlib side are exercised, not modelled. checksum, size and glob "
                  "command shapes are covered by the exact-string correspondence, not by a theorem. Directory modes are not compared.")
    TECHNIQUE = "Coq proof over the shared shell tokenizer model + vm_compute correspondence of command strings + twin-tree differential oracle"
    RULE = ("cmd: operation x hostile absolute path (blanks, quotes, $, backquotes, globs, unicode, leading dash, newlines) -> exact "
            "command string; fs: scenario of 15 operations on a hostile directory/file/link name and hostile content, remote vs local. "
            "Non-trivial = the path contains a character outside the shlex safe set. Distinct = distinct canonical JSON.")
    TRUSTED = ("models Shell/Model.v, RPath/Model.v are hand-written; tied to the code by the correspondence run only",
               "dash, coreutils, findutils, CPython pathlib/shlex are exercised, not verified")
    ASSUMPTIONS = ("path strings contain no NUL; modes are rendered by Python's f'{mode:o}'",)

    # ------------------------------------------------------------------ generation
    def gen(self, rng, tier):
        k = {"quick": 1, "thorough": 6, "extended": 3}[tier]
        cases = []
        ops = list(TEST_FLAGS) + ["checksum", "resolve", "chmod", "mkdir", "read_text", "rmtree", "symlink_to", "hardlink_to",
                                  "size", "glob", "walk", "write_text"]
        for _ in range(500 * k):
            p = "/" + "/".join(name(rng) for _ in range(rng.randrange(1, 4)))
            if rng.random() < 0.1:
                p += rng.choice(["/", "//x", "/./y", "/.."])
            c = {"f": "cmd", "op": rng.choice(ops), "p": p}
            if c["op"] == "chmod":
                c["mode"], c["follow"] = rng.choice([0o755, 0o600, 0o4750, 0]), rng.random() < 0.7
            if c["op"] == "mkdir":
                c["mode"], c["parents"], c["exist_ok"] = rng.choice([0o777, 0o700]), rng.random() < 0.5, rng.random() < 0.5
            if c["op"] == "read_text":
                c["n"] = rng.choice([-1, -1, 0, 5, 4096])
            if c["op"] in ("symlink_to", "hardlink_to"):
                c["target"] = "/" + name(rng)
            if c["op"] == "glob":
                c["pattern"] = rng.choice(["*", "*.txt", "a?c", "[ab]*", "x y", "sub/*"])
            if c["op"] == "walk":
                c["follow"], c["which"] = rng.random() < 0.3, rng.randrange(2)
            cases.append(c)
        for _ in range({"quick": 40, "thorough": 300, "extended": 80}[tier]):
            content = rng.choice(["", "x", "hello\n", "two\nlines", hostile(rng, 8), " lead", "trail \n\n", "\ttab\t"])
            cases.append({"f": "fs", "d": name(rng), "file": name(rng), "link": name(rng), "hard": name(rng), "sub": name(rng),
                          "content": content})
        return cases

    # ------------------------------------------------------------------ implementation
    def impl_init(self):
        import asyncio
        import atexit
        import shutil
        import tempfile
        import types

        from streamflow.core.deployment import ExecutionLocation
        from streamflow.data.remotepath import StreamFlowPath
        from streamflow.deployment.connector.base import SubprocessStreamWriterWrapperContextManager
        from streamflow.deployment.connector.local import LocalConnector

        self.asyncio, self.SFP, self.Loc = asyncio, StreamFlowPath, ExecutionLocation
        self.scratch = tempfile.mkdtemp(prefix="sfv-c24-", dir="/var/tmp")
        atexit.register(shutil.rmtree, self.scratch, True)
        os.chdir(self.scratch)
        self.n = 0
        # hostile names are interpolated into shell text by the code under test (and by mutants of it): keep every
        # expansion ($HOME, ~, relative paths) inside the scratch directory
        os.makedirs(os.path.join(self.scratch, "home"), exist_ok=True)
        os.environ["HOME"] = os.path.join(self.scratch, "home")
        prop = self

        class Recording(LocalConnector):
            """records the command of every run / stream writer; executes nothing"""
            def __init__(self):
                super().__init__("rec", prop.scratch)
                self.log = []

            async def run(self, location, command, **kw):
                self.log.append(" ".join(command))
                return "", 0

            async def get_stream_writer(self, command, location):
                self.log.append(" ".join(command))
                return SubprocessStreamWriterWrapperContextManager(
                    coro=asyncio.create_subprocess_exec("cat", stdin=asyncio.subprocess.PIPE,
                                                        stdout=asyncio.subprocess.DEVNULL))

        class ShellRemote(LocalConnector):
            """a shell-based remote location: every command goes through `sh -c`, like the SSH and container connectors"""
            async def get_stream_writer(self, command, location):
                return SubprocessStreamWriterWrapperContextManager(
                    coro=asyncio.create_subprocess_exec("sh", "-c", " ".join(command), stdin=asyncio.subprocess.PIPE,
                                                        stdout=asyncio.subprocess.DEVNULL, stderr=asyncio.subprocess.DEVNULL))

        self.rec = Recording()
        self.remote = ShellRemote("remote", self.scratch)
        conns = {"rec": self.rec, "remote": self.remote}
        self.ctx = types.SimpleNamespace(
            deployment_manager=types.SimpleNamespace(get_connector=lambda n: conns.get(n)),
            data_manager=types.SimpleNamespace(get_data_locations=lambda *a, **k: []))

    async def _call(self, path, c, op=None):
        op = op or c["op"]
        if op in TEST_FLAGS or op in ("checksum", "resolve", "rmtree", "size"):
            return await getattr(path, op)()
        if op == "chmod":
            return await path.chmod(c["mode"], follow_symlinks=c["follow"])
        if op == "mkdir":
            return await path.mkdir(mode=c["mode"], parents=c["parents"], exist_ok=c["exist_ok"])
        if op == "read_text":
            return await path.read_text(n=c["n"])
        if op in ("symlink_to", "hardlink_to"):
            return await getattr(path, op)(c["target"])
        if op == "glob":
            return [str(x) async for x in path.glob(c["pattern"])]
        if op == "walk":
            return [(str(a), list(b), list(d)) async for a, b, d in path.walk(follow_symlinks=c["follow"])]
        if op == "write_text":
            return await path.write_text("data")
        raise ValueError(op)

    def impl_run(self, c):
        if c["f"] == "cmd":
            return self.asyncio.run(self._cmd(c))
        return self.asyncio.run(self._fs(c))

    async def _cmd(self, c):
        loc = self.Loc(name="r", deployment="rec")
        path = self.SFP(c["p"], context=self.ctx, location=loc)
        self.rec.log = []
        try:
            await self._call(path, c)
        except Exception as e:  # noqa
            return {"exc": type(e).__name__, "msg": str(e)[:200], "cmds": list(self.rec.log), "str": str(path)}
        return {"cmds": list(self.rec.log), "str": str(path)}

    def _snap(self, root):
        out = []
        for dp, dn, fn in os.walk(root):
            for x in sorted(dn + fn):
                fp = os.path.join(dp, x)
                st = os.lstat(fp)
                rel = os.path.relpath(fp, root)
                if stat.S_ISLNK(st.st_mode):
                    out.append([rel, "l", os.readlink(fp).replace(root, "<R>")])
                elif stat.S_ISDIR(st.st_mode):
                    out.append([rel, "d", ""])
                else:
                    with open(fp, "rb") as fh:
                        out.append([rel, "f", fh.read().hex() + ":%o:%d" % (stat.S_IMODE(st.st_mode), st.st_nlink)])
        return sorted(out)

    async def _fs(self, c):
        self.n += 1
        base = os.path.join(self.scratch, f"t{self.n}")
        res = {}
        for side in ("remote", "local"):
            root = os.path.join(base, side, "root")
            os.makedirs(root)
            loc = self.Loc(name="x", deployment="remote", local=(side == "local"))
            P = lambda *a: self.SFP(root, *a, context=self.ctx, location=loc)
            steps = []

            async def do(label, coro_fn):
                try:
                    v = await coro_fn()
                    if hasattr(v, "__fspath__") or type(v).__name__.endswith("StreamFlowPath"):
                        v = str(v)
                    steps.append([label, "ok", v if not isinstance(v, str) else v.replace(root, "<R>")])
                except Exception as e:  # noqa
                    steps.append([label, "err", ""])

            d, f, l, h, s = P(c["d"]), P(c["d"], c["file"]), P(c["d"], c["link"]), P(c["d"], c["hard"]), P(c["d"], c["sub"])
            await do("mkdir", lambda: d.mkdir(mode=0o755, parents=True, exist_ok=True))
            await do("mkdir-sub", lambda: s.mkdir(mode=0o755))
            await do("write", lambda: f.write_text(c["content"]))
            await do("read", lambda: f.read_text())
            await do("size", lambda: f.size())
            await do("checksum", lambda: f.checksum())
            await do("exists", lambda: f.exists())
            await do("is_file", lambda: f.is_file())
            await do("is_dir", lambda: d.is_dir())
            await do("exists-missing", lambda: P(c["d"], c["file"] + "-missing").exists())
            if c["link"] not in (c["file"], c["sub"]):
                await do("symlink", lambda: l.symlink_to(str(f)))
                await do("is_symlink", lambda: l.is_symlink())
                await do("resolve", lambda: l.resolve())
            if c["hard"] not in (c["file"], c["sub"], c["link"]):
                await do("hardlink", lambda: h.hardlink_to(str(f)))
            await do("chmod", lambda: f.chmod(0o750))
            await do("is_executable", lambda: f.is_executable())

            async def g():
                return sorted([str(x).replace(root, "<R>") async for x in d.glob("*")])

            async def w():
                return sorted([[str(a).replace(root, "<R>"), sorted(b), sorted(x)] async for a, b, x in d.walk()])
            await do("glob", g)
            await do("walk", w)
            await do("rmtree", lambda: s.rmtree())
            await do("exists-sub", lambda: s.exists())
            res[side] = {"steps": steps, "tree": self._snap(root)}
        others = sorted(x for x in os.listdir(os.path.join(base, "remote")) if x != "root")
        known_top = {f"t{i}" for i in range(1, self.n + 1)} | {"home"}
        res["stray"] = others + sorted(x for x in os.listdir(self.scratch) if x not in known_top) \
            + sorted(os.listdir(os.path.join(self.scratch, "home")))
        for x in os.listdir(self.scratch):          # do not let strays of one case be blamed on the next
            if x not in known_top:
                fp = os.path.join(self.scratch, x)
                shutil.rmtree(fp, True) if os.path.isdir(fp) and not os.path.islink(fp) else os.unlink(fp)
        return res

    # ------------------------------------------------------------------ oracle: remote == local
    def oracle(self, c, o):
        if "crash" in o or "hang" in o:
            return ("crash", f"implementation crashed/hung: {str(o)[:300]}")
        if c["f"] != "fs":
            return None
        r, l = o["remote"], o["local"]
        for a, b in zip(r["steps"], l["steps"]):
            if a != b:
                return ("result-" + a[0], f"{a[0]}: remote {a[1:]} local {b[1:]} (dir {c['d']!r} file {c['file']!r})")
        if o.get("stray"):
            return ("tree", f"files outside the tree appeared on the remote side: {o['stray']}")
        if r["tree"] != l["tree"]:
            diff = [x for x in r["tree"] if x not in l["tree"]][:2] + [x for x in l["tree"] if x not in r["tree"]][:2]
            return ("tree", f"resulting trees differ: {diff}")
        return None

    # ------------------------------------------------------------------ model side
    def _op_term(self, c):
        op = c["op"]
        if op in TEST_FLAGS:
            return [f"(OTest {coq_str(TEST_FLAGS[op])})"]
        if op == "checksum":
            return ["OChecksum"]
        if op == "resolve":
            return ["OResolve"]
        if op == "chmod":
            return [f"(OChmod {coq_str('%o' % c['mode'])} {coq_bool(c['follow'])})"]
        if op == "mkdir":
            return [f"(OMkdir {coq_str('%o' % c['mode'])} {coq_bool(c['parents'] or c['exist_ok'])})"]
        if op == "read_text":
            return [f"(ORead {coq_opt(str(c['n']) if c['n'] >= 0 else None, coq_str)})"]
        if op == "rmtree":
            return ["ORmtree"]
        if op == "symlink_to":
            return [f"(OSymlink {coq_str(c['target'])})"]
        if op == "hardlink_to":
            return [f"(OHardlink {coq_str(c['target'])})"]
        if op == "size":
            return ["OSize"]
        if op == "glob":
            return [f"(OGlob {coq_str(c['pattern'])})"]
        if op == "walk":
            return [f"(OFind {coq_bool(c['follow'])} {coq_str('df'[c['which']])})"]
        if op == "write_text":
            return ["OWrite"]

    def coq_case(self, c, o):
        if "crash" in o or "hang" in o or c["f"] != "cmd":
            return None
        ops = self._op_term(c)
        cmds = o.get("cmds", [])
        if c["op"] == "walk" and len(cmds) == 2:
            cmds = [cmds[c["which"]]]
        if len(cmds) != 1:
            return f"CCmd {ops[0]} {coq_str(o.get('str', c['p']))} {coq_str('<' + str(len(cmds)) + ' commands recorded>')}"
        return f"CCmd {ops[0]} {coq_str(o['str'])} {coq_str(cmds[0])}"

    def nontrivial(self, c):
        s = c.get("p") or (c["d"] + c["file"])
        return any(ch not in "abcdefghijklmnopqrstuvwxyzABCDEFGHIJKLMNOPQRSTUVWXYZ0123456789_@%+=:,./-" for ch in s)

    def signature(self, c, o, clause):
        if c["f"] == "fs":
            names = c["d"] + c["file"] + c["link"] + c["hard"] + c["sub"]
            ws = any(ch.isspace() for ch in names)
            cls = "other"
            nlname = "\n" in names or "\r" in names
            if clause == "crash":
                cls = "hang-whitespace-only-name" if o.get("hang") and any(n.strip(" \n") == "" for n in (c["d"], c["sub"])) \
                    else "other"
            elif clause == "result-read":
                cls = "ws-content" if c["content"].strip() != c["content"] else "cr-content" if "\r" in c["content"] else "other"
            elif clause == "result-write":
                cls = "target-is-directory" if c["file"] == c["sub"] else "other"
            elif clause == "result-checksum":
                cls = "escaped-name" if any(ch in c["d"] + c["file"] for ch in "\\\n\r") else "other"
            elif clause == "result-glob":
                cls = "whitespace-name" if ws else "other"
            elif clause == "result-walk":
                rw = next((s[2] for s in o["remote"]["steps"] if s[0] == "walk"), None)
                lw = next((s[2] for s in o["local"]["steps"] if s[0] == "walk"), None)
                if isinstance(rw, list) and isinstance(lw, list) and \
                        [[a, b, [x for x in f if x != c["link"]]] for a, b, f in lw] == rw:
                    cls = "symlink-omitted"
                else:
                    cls = "newline-name" if ("\n" in names or "\r" in names) else "whitespace-name" if ws else "other"
            elif ws:
                cls = "whitespace-name"
            return f"fs/{clause}/{cls}"
        return f"{c['f']}/{clause}"

    def shrink(self, c):
        if c["f"] == "fs":
            for k in ("d", "file", "link", "hard", "sub"):
                for ch in sorted(set(c[k])):
                    if ch != c[k]:
                        yield {**c, k: k[0] + ch}
                if len(c[k]) > 1:
                    yield {**c, k: k}
            if c["content"] not in ("", "x"):
                yield {**c, "content": "x"}
                yield {**c, "content": c["content"].strip()}


PROP = C24()
