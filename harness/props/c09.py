"""C09 — Database reads always reflect the latest writes.

Operation sequences over the real SqliteDatabase (file-backed, so that a second, uncached SqliteDatabase on
the same file can be asked the same question after a commit), with a caller that mutates the rows it was
given.  The oracle is the property text: every read equals the uncached read at that point."""
import copy
import json

from harness.lib.framework import Prop, coq_bool, coq_list, coq_N, coq_nat, coq_str, coq_Z
from harness.lib.looputil import permute_ready

TABLES = ("deployment", "filter", "port", "step", "target", "token", "workflow", "execution")
TCOQ = {"deployment": "TDeployment", "filter": "TFilter", "port": "TPort", "step": "TStep", "target": "TTarget",
        "token": "TToken", "workflow": "TWorkflow", "execution": "TExecution"}
CACHED = ("deployment", "filter", "port", "step", "target", "token")
ARGNAME = {"deployment": "deployment_id", "filter": "filter_id", "port": "port_id", "step": "step_id",
           "target": "target_id", "token": "token_id", "workflow": "workflow_id", "execution": "execution_id"}
# class names usable in the `type` column of each table
TYPES = {
    "port": ["streamflow.core.workflow.Port", "streamflow.workflow.port.JobPort", "streamflow.workflow.port.ConnectorPort"],
    "step": ["streamflow.core.workflow.Step", "streamflow.workflow.step.GatherStep", "streamflow.workflow.step.ScatterStep"],
    "token": ["streamflow.core.workflow.Token", "streamflow.workflow.token.ListToken", "streamflow.workflow.token.ObjectToken"],
    "workflow": ["streamflow.core.workflow.Workflow"],
    "target": ["streamflow.core.deployment.Target", "streamflow.core.deployment.LocalTarget"],
}
# columns an update may set: column -> kind
UPD = {
    "workflow": {"name": "s", "status": "i", "start_time": "i", "end_time": "i", "params": "j"},
    "step": {"name": "s", "status": "i", "params": "j"},
    "port": {"name": "s", "params": "j"},
    "execution": {"status": "i", "start_time": "i", "end_time": "i", "cmd": "s"},
    "deployment": {"name": "s", "workdir": "s", "config": "j", "scheduling_policy": "j", "external": "b", "lazy": "b",
                   "wraps": "w"},
    "target": {"locations": "i", "service": "s", "workdir": "s", "params": "j"},
    "filter": {"name": "s", "config": "j"},
}
JSONCOL = {"workflow": ["params"], "step": ["params"], "port": ["params"], "token": ["value"],
           "deployment": ["config", "scheduling_policy", "wraps"], "target": ["params"], "filter": ["config"],
           "execution": []}


# -------------------------------------------------------------------------------------------- encodings
def enc(v):
    """Python value -> canonical JSON-able form keeping dict order and the bool/int distinction."""
    if v is None or isinstance(v, (bool, str)):
        return v
    if isinstance(v, int):
        return v
    if isinstance(v, list):
        return {"a": [enc(x) for x in v]}
    if isinstance(v, dict):
        return {"o": [[k if isinstance(k, str) else {"x": repr(k)}, enc(x)] for k, x in v.items()]}
    return {"x": repr(v)}


def unordered(e):
    """dict order is not part of Python's ==; used by the oracle only."""
    if isinstance(e, dict) and "o" in e:
        return {"o": sorted(([json.dumps(k), unordered(x)] for k, x in e["o"]), key=lambda kv: kv[0])}
    if isinstance(e, dict) and "a" in e:
        return {"a": [unordered(x) for x in e["a"]]}
    return e


def coq_jv(v):
    if v is None:
        return "JNull"
    if isinstance(v, bool):
        return f"(JBool {coq_bool(v)})"
    if isinstance(v, int):
        return f"(JNum {coq_Z(v)})"
    if isinstance(v, str):
        return f"(JStr {coq_str(v)})"
    if isinstance(v, list):
        return "(JArr " + coq_list([coq_jv(x) for x in v]) + ")"
    if isinstance(v, dict):
        return "(JObj " + coq_list([f"({coq_str(k)}, {coq_jv(x)})" for k, x in v.items()]) + ")"
    raise ValueError(v)


def coq_enc(e):
    """encoded observation -> jv term; None result = not a JSON value (outside the model)"""
    if e is None:
        return "JNull"
    if isinstance(e, bool):
        return f"(JBool {coq_bool(e)})"
    if isinstance(e, int):
        return f"(JNum {coq_Z(e)})"
    if isinstance(e, str):
        return f"(JStr {coq_str(e)})"
    if "a" in e:
        xs = [coq_enc(x) for x in e["a"]]
        return None if any(x is None for x in xs) else "(JArr " + coq_list(xs) + ")"
    if "o" in e:
        out = []
        for k, x in e["o"]:
            t = coq_enc(x)
            if t is None or not isinstance(k, str):
                return None
            out.append(f"({coq_str(k)}, {t})")
        return "(JObj " + coq_list(out) + ")"
    return None


def coq_row_enc(e):
    if not isinstance(e, dict) or "o" not in e:
        return None
    out = []
    for k, x in e["o"]:
        t = coq_enc(x)
        if t is None or not isinstance(k, str):
            return None
        out.append(f"({coq_str(k)}, {t})")
    return coq_list(out)


def spec_row(t, a):
    """The columns after `id` that a fresh read of the row inserted by add_<t>(**a) yields, in SELECT order.
    (Written from the schema and the add_/get_ pairs; the correspondence checks it on every case.)"""
    if t == "workflow":
        return [("name", a["name"]), ("params", a["params"]), ("status", a["status"]), ("type", a["type"]),
                ("start_time", None), ("end_time", None)]
    if t == "step":
        return [("name", a["name"]), ("workflow", a["workflow_id"]), ("status", a["status"]), ("type", a["type"]),
                ("params", a["params"])]
    if t == "port":
        return [("name", a["name"]), ("workflow", a["workflow_id"]), ("type", a["type"]), ("params", a["params"])]
    if t == "execution":
        return [("step", a["step_id"]), ("job_token", a["job_token_id"]), ("cmd", a["cmd"]), ("status", None),
                ("start_time", None), ("end_time", None)]
    if t == "token":
        return [("port", a["port"]), ("tag", a["tag"]), ("type", a["type"]), ("value", a["value"]),
                ("recoverable", bool(a["recoverable"]))]
    if t == "deployment":
        return [("name", a["name"]), ("type", a["type"]), ("config", a["config"]), ("external", int(a["external"])),
                ("lazy", int(a["lazy"])), ("scheduling_policy", a["scheduling_policy"]), ("workdir", a["workdir"]),
                ("wraps", a["wraps"] if a["wraps"] else None)]
    if t == "target":
        return [("deployment", a["deployment"]), ("type", a["type"]), ("locations", a["locations"]),
                ("service", a["service"]), ("workdir", a["workdir"]), ("params", a["params"])]
    if t == "filter":
        return [("name", a["name"]), ("type", a["type"]), ("config", a["config"])]
    raise ValueError(t)


# -------------------------------------------------------------------------------------------- the caller
def _child(obj, e):
    if isinstance(obj, dict) and isinstance(e, str) and e in obj:
        return True, obj[e]
    if isinstance(obj, list) and isinstance(e, int) and not isinstance(e, bool) and 0 <= e < len(obj):
        return True, obj[e]
    return False, None


def caller_mutate(row, path, m, v):
    """What the caller does to a row it was given.  Returns False (and changes nothing) when the path does
    not exist or has the wrong type, i.e. when plain Python would raise before assigning."""
    if not path:
        return False
    obj = row
    for e in path[:-1]:
        ok, obj = _child(obj, e)
        if not ok:
            return False
    last = path[-1]
    if m == "app":
        ok, tgt = _child(obj, last)
        if not ok or not isinstance(tgt, list):
            return False
        tgt.append(copy.deepcopy(v))
        return True
    if m == "set":
        if isinstance(obj, dict) and isinstance(last, str):
            obj[last] = copy.deepcopy(v)
            return True
        if isinstance(obj, list) and isinstance(last, int) and 0 <= last < len(obj):
            obj[last] = copy.deepcopy(v)
            return True
        return False
    if m == "del":
        ok, _ = _child(obj, last)
        if not ok:
            return False
        del obj[last]
        return True
    return False


class C09(Prop):
    ID = "C09"
    PROPS_FILE = "Props/C09.v"
    CORR_MODULE = "DbCache.Corr"
    MAX_WORKERS = 8
    CASE_TIMEOUT = 900      # generous: the machine is shared; a hang is still reported, just later
    SHARD_TIMEOUT = 3600
    COQ_SHARD = 40
    LEVEL_TEXT = ""   # set below
    TECHNIQUE = ("Coq proof (invariant over operation sequences: every cached cell equals the stored row; simulation "
                 "for caller mutations) + vm_compute correspondence against the real SqliteDatabase")
    RULE = ("operation sequences (8-40 ops) over 1-3 rows per table: add_*, update_* (every updatable column, JSON "
            "columns with nested values, empty update), cached getters called positionally and by keyword, uncached "
            "read paths (get_workflow, get_execution, get_port_from_token, get_workflow_ports/steps, get_workflows_by_name; "
            "oracle only: add_dependency/add_provenance with get_input/output_ports, get_input/output_steps, "
            "get_dependees/dependers, get_port_tokens), and a caller "
            "mutating rows it was given (top-level and nested set/append/delete). Non-trivial = at least two reads "
            "and at least one update or mutation. Plus (oracle only, outside the model and the sequential quantifier) "
            "race cases: 1-3 reads and 1-2 updates of one row run concurrently under a seeded permuting event loop, then a "
            "read is compared with the uncached database. Distinct = distinct canonical JSON.")
    TRUSTED = ("model: DbCache/Model.v (cache lookup/insert/pop, cachebox key making and post-processing as object "
               "sharing between cached cells and returned rows) is hand-written; SQLite, aiosqlite, cachebox, "
               "json and copy.deepcopy are not verified, only exercised",)
    ASSUMPTIONS = ("sequential histories only (concurrent get/update races are outside the property's quantifier)",
                   "JSON values without floats; integers within 64 bits; strings without NUL or surrogates",
                   "rows are never deleted (the Database interface has no delete)")

    # ---------------------------------------------------------------- generation
    def _str(self, rng):
        r = rng.random()
        if r < 0.6:
            return rng.choice(["a", "b", "k", "n", "x", "name", "cfg", "v", "p q", ""])
        if r < 0.8:
            return "".join(rng.choice("abcxyz019 _-/.") for _ in range(rng.randrange(1, 8)))
        return rng.choice(["é", "日本", "a\"b", "it's", "\\n", "tab\there", "𝄞", "%s", "{}", "null"])

    def _json(self, rng, depth=0):
        r = rng.random()
        if depth >= 2 or r < 0.4:
            k = rng.randrange(6)
            if k == 0:
                return None
            if k == 1:
                return rng.random() < 0.5
            if k == 2:
                return rng.choice([0, 1, -1, 2, 7, 10, 255, 2**31, -2**40, 10**15])
            if k == 3:
                return self._str(rng)
            if k == 4:
                return []
            return {}
        if r < 0.6:
            return [self._json(rng, depth + 1) for _ in range(rng.randrange(0, 3))]
        d = {}
        for _ in range(rng.randrange(0, 3)):
            d[self._str(rng)] = self._json(rng, depth + 1)
        return d

    def _jobj(self, rng):
        d = {}
        for _ in range(rng.randrange(0, 3)):
            d[rng.choice(["k", "n", "items", "cfg", "a", "b"])] = self._json(rng, 0 if rng.random() < 0.5 else 1)
        return d

    def _opt_str(self, rng):
        return None if rng.random() < 0.3 else self._str(rng)

    def _add(self, rng, t, n):
        """args of add_<t>, or None when a referenced row does not exist yet"""
        if t == "workflow":
            return {"name": self._str(rng), "params": self._jobj(rng), "status": rng.randrange(0, 8),
                    "type": TYPES["workflow"][0]}
        if t == "step":
            if not n["workflow"]:
                return None
            return {"name": self._str(rng), "workflow_id": rng.randrange(1, n["workflow"] + 1),
                    "status": rng.randrange(0, 8), "type": rng.choice(TYPES["step"]), "params": self._jobj(rng)}
        if t == "port":
            if not n["workflow"]:
                return None
            return {"name": self._str(rng), "workflow_id": rng.randrange(1, n["workflow"] + 1),
                    "type": rng.choice(TYPES["port"]), "params": self._jobj(rng)}
        if t == "execution":
            if not n["step"]:
                return None
            return {"step_id": rng.randrange(1, n["step"] + 1), "job_token_id": rng.randrange(1, 5),
                    "cmd": self._str(rng)}
        if t == "token":
            port = rng.randrange(1, n["port"] + 1) if n["port"] and rng.random() < 0.8 else None
            return {"tag": rng.choice(["0", "0.1", "0.10", "0.2.3"]), "type": rng.choice(TYPES["token"]),
                    "value": self._json(rng, 0), "port": port, "recoverable": rng.random() < 0.4}
        if t == "deployment":
            return {"name": self._str(rng), "type": rng.choice(["local", "docker", "ssh"]), "config": self._jobj(rng),
                    "external": rng.random() < 0.5, "lazy": rng.random() < 0.5,
                    "scheduling_policy": {"type": "data_locality", "config": self._jobj(rng)},
                    "workdir": self._opt_str(rng),
                    "wraps": rng.choice([None, {}, {"deployment": "d", "service": None}, {"deployment": self._str(rng)}])}
        if t == "target":
            if not n["deployment"]:
                return None
            return {"deployment": rng.randrange(1, n["deployment"] + 1), "type": rng.choice(TYPES["target"]),
                    "params": self._jobj(rng), "locations": rng.randrange(1, 4), "service": self._opt_str(rng),
                    "workdir": self._opt_str(rng)}
        if t == "filter":
            return {"name": self._str(rng), "type": rng.choice(["shuffle", "matching"]), "config": self._jobj(rng)}
        raise ValueError(t)

    def _upd(self, rng, t):
        cols = UPD[t]
        k = rng.choice([1, 1, 1, 2, 2, 3])
        u = {}
        for c in rng.sample(sorted(cols), min(k, len(cols))):
            kind = cols[c]
            if kind == "s":
                u[c] = self._str(rng)
            elif kind == "i":
                u[c] = rng.choice([0, 1, 2, 3, 5, 10**12, 1758000000000000000])
            elif kind == "b":
                u[c] = rng.randrange(0, 2)
            elif kind == "j":
                u[c] = {"json": self._jobj(rng)}
            elif kind == "w":
                u[c] = {"json": rng.choice([None, {"deployment": self._str(rng)}])}
        return u

    def _path_into(self, rng, v, path):
        """a random existing (or slightly off) path inside the JSON value v"""
        while True:
            if isinstance(v, dict) and v and rng.random() < 0.8:
                k = rng.choice(list(v))
                path.append(k)
                v = v[k]
            elif isinstance(v, list) and v and rng.random() < 0.8:
                i = rng.randrange(len(v))
                path.append(i)
                v = v[i]
            else:
                return v

    def _seq(self, rng, tier):
        n = {t: 0 for t in TABLES}
        rows = {}       # (t, id) -> current spec row as dict (approximate view used to aim mutations)
        handles = []    # (t, id) of each successful read, approximately
        ops = []
        # a small population first
        first = ["workflow", "deployment"] + [rng.choice(TABLES) for _ in range(rng.randrange(1, 5))]
        for t in first:
            a = self._add(rng, t, n)
            if a is not None:
                n[t] += 1
                rows[(t, n[t])] = dict(spec_row(t, a))
                ops.append({"o": "add", "t": t, "a": a})
        focus = rng.choice(CACHED) if rng.random() < 0.85 else rng.choice(["workflow", "execution"])
        for t in {"step": ["step"], "port": ["port"], "token": ["port", "token"], "target": ["target"],
                  "execution": ["step", "execution"], "filter": ["filter"]}.get(focus, []):
            a = self._add(rng, t, n)      # the focus table has a row from the start
            if a is not None:
                n[t] += 1
                rows[(t, n[t])] = dict(spec_row(t, a))
                ops.append({"o": "add", "t": t, "a": a})
        length = rng.randrange(8, 40 if tier != "quick" else 28)
        while len(ops) < length:
            r = rng.random()
            t = focus if rng.random() < 0.8 else rng.choice(TABLES)
            if r < 0.12:
                a = self._add(rng, t, n)
                if a is None:
                    continue
                n[t] += 1
                rows[(t, n[t])] = dict(spec_row(t, a))
                ops.append({"o": "add", "t": t, "a": a})
            elif r < 0.34:
                if t == "token" or not n[t]:
                    continue
                i = (1 if rng.random() < 0.6 else rng.randrange(1, n[t] + 1)) if rng.random() < 0.95 else n[t] + 1
                u = self._upd(rng, t) if rng.random() < 0.97 else {}
                ops.append({"o": "upd", "t": t, "id": i, "u": u})
                if (t, i) in rows:
                    for c, x in u.items():
                        rows[(t, i)][c] = x["json"] if isinstance(x, dict) else x
            elif r < 0.68:
                if not n[t]:
                    continue
                i = (1 if rng.random() < 0.6 else rng.randrange(1, n[t] + 1)) if rng.random() < 0.95 else n[t] + rng.randrange(1, 3)
                kw = t in CACHED and rng.random() < 0.15
                ops.append({"o": "get", "t": t, "id": i, "kw": kw})
                if (t, i) in rows:
                    handles.append((t, i))
            elif r < 0.75:
                via = rng.choice(["port_from_token", "workflow_ports", "workflow_steps", "workflows_by_name", "rel", "rel"])
                if via == "rel":
                    # the relation tables (dependency, provenance): uncached controls, judged by the oracle only
                    k = rng.randrange(4)
                    if k == 0 and n["step"] and n["port"]:
                        ops.append({"o": "dep", "step": rng.randrange(1, n["step"] + 1), "port": rng.randrange(1, n["port"] + 1),
                                    "type": rng.randrange(2), "name": self._str(rng)})
                    elif k == 1 and n["token"]:
                        ops.append({"o": "prov", "inputs": [rng.randrange(1, n["token"] + 1) for _ in range(rng.randrange(1, 3))],
                                    "token": rng.randrange(1, n["token"] + 1)})
                    elif k == 2 and (n["step"] or n["port"]):
                        f = rng.choice(["get_input_ports", "get_output_ports"] if n["step"] else ["get_input_steps"])
                        if f.endswith("steps") and not n["port"]:
                            continue
                        f = rng.choice([f, "get_input_steps", "get_output_steps"]) if n["port"] else f
                        ops.append({"o": "relget", "fn": f, "id": rng.randrange(1, (n["port"] if f.endswith("steps") else n["step"]) + 1)})
                    elif k == 3 and n["token"]:
                        ops.append({"o": "relget", "fn": rng.choice(["get_dependees", "get_dependers", "get_port_tokens"]),
                                    "id": rng.randrange(1, n["token"] + 1)})
                    continue
                if via == "workflows_by_name":
                    i = rng.randrange(1, n["workflow"] + 1)
                    ops.append({"o": "fresh", "via": via, "name": rows[("workflow", i)]["name"], "t": "workflow", "id": i})
                    handles.append(("workflow", i))
                    continue
                if via == "port_from_token":
                    cands = [i for (tt, i), rw in rows.items() if tt == "token" and rw["port"] is not None]
                    if not cands:
                        continue
                    tok = rng.choice(cands)
                    ops.append({"o": "fresh", "via": via, "token": tok, "t": "port", "id": rows[("token", tok)]["port"]})
                    handles.append(("port", rows[("token", tok)]["port"]))
                else:
                    tt = "port" if via == "workflow_ports" else "step"
                    if not n[tt]:
                        continue
                    i = rng.randrange(1, n[tt] + 1)
                    ops.append({"o": "fresh", "via": via, "wf": rows[(tt, i)]["workflow"], "t": tt, "id": i})
                    handles.append((tt, i))
            else:
                if not handles:
                    continue
                h = rng.randrange(len(handles)) if rng.random() < 0.5 else len(handles) - 1 - min(
                    len(handles) - 1, rng.randrange(0, 3))
                ht, hid = handles[h]
                rw = rows[(ht, hid)]
                jcols = [c for c in JSONCOL[ht] if c in rw]
                m = rng.choice(["set", "set", "app", "del"])
                if jcols and rng.random() < 0.75:
                    c = rng.choice(jcols)
                    path = [c]
                    self._path_into(rng, rw[c], path)
                    if m == "set" and rng.random() < 0.6:
                        path.append(rng.choice(["k", "n", "new", 0, 1]))
                    if len(path) == 1 and m != "app":
                        path.append(rng.choice(["k", "items", 0]))
                else:
                    path = [rng.choice(list(rw) + ["extra"])]
                    if rng.random() < 0.1:
                        path = [0]
                op = {"o": "mut", "h": h if rng.random() < 0.97 else len(handles) + 2, "p": path, "m": m}
                if m != "del":
                    op["v"] = self._json(rng, 1)
                ops.append(op)
        return {"f": "seq", "ops": ops}

    def _race(self, rng):
        """concurrent reads and updates of one row (outside the property's quantifier, which is sequences): the check
        is that once all of them have completed a read equals the uncached read"""
        t = rng.choice(["step", "port", "deployment", "target", "filter"])
        col = {"step": "name", "port": "name", "deployment": "name", "target": "service", "filter": "name"}[t]
        return {"f": "race", "t": t, "col": col, "warm": rng.random() < 0.4, "gets": rng.randrange(1, 4),
                "upds": [f"v{i}" for i in range(rng.randrange(1, 3))], "kw": rng.random() < 0.1,
                "sched": rng.randrange(1 << 30)}

    def gen(self, rng, tier):
        n = {"quick": 160, "thorough": 1500, "extended": 800}[tier]
        return [self._seq(rng, tier) for _ in range(n)] + [self._race(rng) for _ in range(n // 4)]

    # ---------------------------------------------------------------- implementation
    def impl_init(self):
        import asyncio
        import atexit
        import os
        import shutil
        import tempfile
        import types

        from streamflow.core import utils
        from streamflow.persistence.sqlite import SqliteDatabase

        self.asyncio, self.os, self.utils, self.SqliteDatabase, self.types = asyncio, os, utils, SqliteDatabase, types
        self.dir = tempfile.mkdtemp(prefix="sfv-c09-", dir="/var/tmp")
        atexit.register(shutil.rmtree, self.dir, True)
        for names in TYPES.values():          # import the classes now, not inside the first timed case
            for n in names:
                utils.get_class_from_name(n)
        self.loop = asyncio.new_event_loop()
        self.k = 0

    def _cls(self, name):
        return self.utils.get_class_from_name(name)

    async def _add_real(self, db, t, a):
        a = copy.deepcopy(a)
        if t in ("workflow", "step", "port", "token", "target"):
            a["type"] = self._cls(a["type"])
        return await getattr(db, "add_" + t)(**a)

    async def _read(self, db, op):
        """performs a read operation on db (the examined one or the reference); returns a dict row"""
        t, i = op["t"], op["id"]
        if op["o"] == "get":
            f = getattr(db, "get_" + t)
            r = await (f(**{ARGNAME[t]: i}) if op.get("kw") else f(i))
            return dict(r)
        via = op["via"]
        if via == "port_from_token":
            return dict(await db.get_port_from_token(op["token"]))
        if via == "workflows_by_name":
            for r in await db.get_workflows_by_name(op["name"]):
                if r["id"] == i:
                    return dict(r)
            raise LookupError("no such row")
        rows = await (db.get_workflow_ports(op["wf"]) if via == "workflow_ports" else db.get_workflow_steps(op["wf"]))
        for r in rows:
            if r["id"] == i:
                return dict(r)
        raise LookupError("no such row")

    async def _run(self, case, path):
        ctx = self.types.SimpleNamespace(config={"path": path + ".yml"})
        db = self.SqliteDatabase(ctx, connection=path)
        ref = None
        outs, handles = [], []
        try:
            async with db.connection:
                pass
            ref = self.SqliteDatabase(ctx, connection=path)
            for op in case["ops"]:
                o = op["o"]
                try:
                    if o == "add":
                        outs.append({"id": await self._add_real(db, op["t"], op["a"])})
                    elif o == "upd":
                        u = {c: (json.dumps(x["json"]) if x["json"] is not None else None) if isinstance(x, dict) else x
                             for c, x in op["u"].items()}
                        await getattr(db, "update_" + op["t"])(op["id"], u)
                        outs.append({"ok": True})
                    elif o in ("get", "fresh"):
                        # the uncached answer at this point: a second database object on the same file, its
                        # caches emptied, after the examined one has committed
                        async with db.connection as c:
                            await c.commit()
                        for cn in ("deployment", "filter", "port", "step", "target", "token", "workflow"):
                            getattr(ref, cn + "_cache").clear()
                        try:
                            want = {"row": enc(await self._read(ref, op))}
                        except Exception as e:  # noqa
                            want = {"err": type(e).__name__}
                        try:
                            row = await self._read(db, op)
                            handles.append(row)
                            got = {"row": enc(row)}
                        except Exception as e:  # noqa
                            got = {"err": type(e).__name__}
                        outs.append({"got": got, "ref": want})
                    elif o == "dep":
                        from streamflow.core.persistence import DependencyType
                        await db.add_dependency(op["step"], op["port"], DependencyType(op["type"]), op["name"])
                        outs.append({"ok": True})
                    elif o == "prov":
                        await db.add_provenance(op["inputs"], op["token"])
                        outs.append({"ok": True})
                    elif o == "relget":
                        async with db.connection as c:
                            await c.commit()
                        rd = lambda r: [x if isinstance(x, int) else dict(x) for x in r]
                        try:
                            want = {"row": enc(rd(await getattr(ref, op["fn"])(op["id"])))}
                        except Exception as e:  # noqa
                            want = {"err": type(e).__name__}
                        try:
                            got = {"row": enc(rd(await getattr(db, op["fn"])(op["id"])))}
                        except Exception as e:  # noqa
                            got = {"err": type(e).__name__}
                        outs.append({"got": got, "ref": want})
                    elif o == "mut":
                        ok = False
                        if 0 <= op["h"] < len(handles):
                            ok = caller_mutate(handles[op["h"]], op["p"], op["m"], op.get("v"))
                        outs.append({"mut": ok})
                    else:
                        raise ValueError(o)
                except Exception as e:  # noqa  (an operation that raises is an observation)
                    outs.append({"err": type(e).__name__})
            return {"outs": outs, "final": [enc(h) for h in handles]}
        finally:
            await db.close()
            if ref is not None:
                await ref.close()

    def _permuting_loop(self, seed):
        import random as _random

        rng = _random.Random(seed)
        asyncio = self.asyncio

        class PermutingLoop(asyncio.SelectorEventLoop):
            def _run_once(self):
                if len(self._ready) > 1:
                    permute_ready(self._ready, rng.shuffle)   # thread-safe, same order (harness/lib/looputil.py)
                super()._run_once()

        return PermutingLoop()

    async def _run_race(self, case, path):
        ctx = self.types.SimpleNamespace(config={"path": path + ".yml"})
        db = self.SqliteDatabase(ctx, connection=path)
        ref = None
        t = case["t"]
        try:
            await self._add_real(db, "workflow", {"name": "w", "params": {}, "status": 0, "type": TYPES["workflow"][0]})
            await self._add_real(db, "deployment", {"name": "d", "type": "local", "config": {}, "external": False, "lazy": True,
                                                    "scheduling_policy": {}, "workdir": None, "wraps": None})
            adds = {"step": {"name": "v", "workflow_id": 1, "status": 0, "type": TYPES["step"][0], "params": {}},
                    "port": {"name": "v", "workflow_id": 1, "type": TYPES["port"][0], "params": {}},
                    "target": {"deployment": 1, "type": TYPES["target"][0], "params": {}, "locations": 1, "service": "v",
                               "workdir": None},
                    "filter": {"name": "v", "type": "shuffle", "config": {}}}
            rid = 1 if t == "deployment" else await self._add_real(db, t, adds[t])
            getter = getattr(db, "get_" + t)
            read = (lambda: getter(**{ARGNAME[t]: rid})) if case["kw"] else (lambda: getter(rid))
            if case["warm"]:
                await read()
            answers = []

            async def one_get():
                answers.append((await read())[case["col"]])

            async def one_upd(v):
                await getattr(db, "update_" + t)(rid, {case["col"]: v})

            tasks = [one_get() for _ in range(case["gets"])] + [one_upd(v) for v in case["upds"]]
            await self.asyncio.gather(*tasks)
            async with db.connection as c:
                await c.commit()
            ref = self.SqliteDatabase(ctx, connection=path)
            want = (await getattr(ref, "get_" + t)(rid))[case["col"]]
            got = (await read())[case["col"]]
            return {"concurrent": answers, "final": got, "uncached": want}
        finally:
            await db.close()
            if ref is not None:
                await ref.close()

    def impl_run(self, case):
        self.k += 1
        if case["f"] == "race":
            path = self.os.path.join(self.dir, f"r{self.k}.db")
            loop = self._permuting_loop(case["sched"])
            try:
                return loop.run_until_complete(self._run_race(case, path))
            finally:
                loop.close()
                for suf in ("", "-wal", "-shm"):
                    try:
                        self.os.remove(path + suf)
                    except OSError:
                        pass
        path = self.os.path.join(self.dir, f"c{self.k}.db")
        try:
            return self.loop.run_until_complete(self._run(case, path))
        finally:
            for suf in ("", "-wal", "-shm"):
                try:
                    self.os.remove(path + suf)
                except OSError:
                    pass

    # ---------------------------------------------------------------- oracle (from the property text)
    def _first_bad(self, obs):
        for i, o in enumerate(obs.get("outs", [])):
            if "got" in o:
                g, w = o["got"], o["ref"]
                if ("err" in g) != ("err" in w):
                    return i
                if "row" in g and unordered(g["row"]) != unordered(w["row"]):
                    return i
        return None

    def oracle(self, case, obs):
        if "crash" in obs or "hang" in obs:
            return ("crash", f"implementation crashed/hung: {str(obs)[:300]}")
        if case["f"] == "race":
            if obs["final"] != obs["uncached"]:
                return ("stale-after-concurrent-update",
                        f"after concurrent get/update of {case['t']} completed, a read returns {obs['final']!r} but the "
                        f"uncached database holds {obs['uncached']!r} (concurrent reads saw {obs['concurrent']})")
            return None
        i = self._first_bad(obs)
        if i is not None:
            op, o = case["ops"][i], obs["outs"][i]
            return ("read-differs-from-uncached",
                    f"op #{i} {op['o']} {op.get('t', op.get('fn'))} id={op['id']}{' (by keyword)' if op.get('kw') else ''} returned "
                    f"{json.dumps(o['got'])[:300]} but an uncached database returns {json.dumps(o['ref'])[:300]}")
        return None

    def signature(self, case, obs, clause):
        if clause == "stale-after-concurrent-update":
            return f"{clause}/{'keyword' if case.get('kw') else 'positional'}{'/warm' if case.get('warm') else '/cold'}"
        if clause != "read-differs-from-uncached":
            return clause
        i = self._first_bad(obs)
        op = case["ops"][i]
        if op["o"] == "relget":
            return f"{clause}/relation/{op['fn']}"
        before = [b for b in case["ops"][:i] if b["o"] not in ("dep", "prov", "relget")]
        obs = {**obs, "outs": [o for b, o in zip(case["ops"], obs["outs"]) if b["o"] not in ("dep", "prov", "relget")]}
        i = len(before)
        nested = any(b["o"] == "mut" and not (len(b["p"]) == 1 and b["m"] in ("set", "del")) for b in before)
        updated = any(b["o"] == "upd" and b["t"] == op["t"] and b["id"] == op["id"] for b in before)
        # a stale answer = exactly what the uncached database answered to an earlier read of the same row
        got = obs["outs"][i]["got"]
        stale = "row" in got and any(
            b["o"] in ("get", "fresh") and b["t"] == op["t"] and b["id"] == op["id"] and "row" in o.get("ref", {})
            and unordered(o["ref"]["row"]) == unordered(got["row"])
            for b, o in zip(before, obs["outs"]))
        if op["o"] == "get" and op.get("kw") and updated and stale:
            cause = "keyword-call-after-update"
        elif nested:
            cause = "after-nested-mutation-of-a-returned-row"
        elif updated and stale:
            cause = "stale-after-update"
        elif any(b["o"] == "mut" for b in before):
            cause = "after-top-level-mutation-of-a-returned-row"
        elif any(b["o"] == "upd" and b["t"] == op["t"] and b["id"] == op["id"] for b in before):
            cause = "after-update"
        else:
            cause = "other"
        return f"{clause}/{op['o']}-{'cached' if op['t'] in CACHED else 'uncached'}/{cause}"

    # ---------------------------------------------------------------- model side
    def coq_case(self, case, obs):
        if case["f"] == "race" or "crash" in obs or "hang" in obs or "outs" not in obs:
            return None      # concurrent histories are outside the model (and the property): oracle only
        ops, outs = [], []
        for op, o in zip(case["ops"], obs["outs"]):
            k = op["o"]
            if k in ("dep", "prov", "relget"):
                continue          # relation tables: no cache, not in the model; they create no caller-held row
            if k == "add":
                cols = [f"({coq_str(c)}, {coq_jv(v)})" for c, v in spec_row(op["t"], op["a"])]
                ops.append(f"Add {TCOQ[op['t']]} {coq_list(cols)}")
                outs.append(f"OId {coq_N(o['id'])}" if "id" in o else "OErr")
            elif k == "upd":
                cols = [f"({coq_str(c)}, {coq_jv(x['json'] if isinstance(x, dict) else x)})" for c, x in op["u"].items()]
                ops.append(f"Update {TCOQ[op['t']]} {coq_N(op['id'])} {coq_list(cols)}")
                outs.append("OUnit" if "ok" in o else "OErr")
            elif k in ("get", "fresh"):
                if k == "get":
                    ops.append(f"Get {TCOQ[op['t']]} {coq_bool(bool(op.get('kw')))} {coq_N(op['id'])}")
                else:
                    ops.append(f"GetFresh {TCOQ[op['t']]} {coq_N(op['id'])}")
                if "got" not in o:
                    return None
                if "row" in o["got"]:
                    r = coq_row_enc(o["got"]["row"])
                    if r is None:
                        return None
                    outs.append(f"ORow {r}")
                else:
                    outs.append("OErr")
            elif k == "mut":
                p = [f"PKey {coq_str(e)}" if isinstance(e, str) else f"PIdx {coq_nat(e)}" for e in op["p"]]
                m = {"set": lambda: f"(MSet {coq_jv(op.get('v'))})", "app": lambda: f"(MAppend {coq_jv(op.get('v'))})",
                     "del": lambda: "MDel"}[op["m"]]()
                ops.append(f"Mutate {coq_nat(op['h'])} {coq_list(p)} {m}")
                outs.append(f"OMut {coq_bool(o.get('mut', False))}" if "mut" in o else "OErr")
        final = [coq_row_enc(e) for e in obs["final"]]
        if any(f is None for f in final):
            return None
        return f"CSeq {coq_list(ops)} {coq_list(outs)} {coq_list(final)}"

    def nontrivial(self, case):
        if case["f"] == "race":
            return True
        ops = case["ops"]
        return sum(o["o"] in ("get", "fresh", "relget") for o in ops) >= 2 and any(o["o"] in ("upd", "mut") for o in ops)

    def shrink(self, case):
        if case["f"] == "race":
            if case["gets"] > 1:
                yield {**case, "gets": case["gets"] - 1}
            if len(case["upds"]) > 1:
                yield {**case, "upds": case["upds"][:-1]}
            return
        ops = case["ops"]
        n = len(ops)
        seen = 0
        # drop the tail, then halves, then single operations (later ones first: earlier adds define the ids)
        for k in (n // 2, n // 4, 3, 2, 1):
            if 0 < k < n:
                yield {**case, "ops": ops[:n - k]}
                seen += 1
        for i in range(n - 1, -1, -1):
            if ops[i]["o"] != "add":
                yield {**case, "ops": ops[:i] + ops[i + 1:]}
        for i in range(n - 1, -1, -1):
            if ops[i]["o"] == "add":
                yield {**case, "ops": ops[:i] + ops[i + 1:]}


C09.LEVEL_TEXT = (
    "Theorems (Coq, closed under the global context) over a model of the row caches with object identity (cached "
    "cells, returned rows sharing or owning their column objects): for every operation sequence of any length over "
    "any number of rows and tables (add, update, cached and uncached reads, arbitrary caller mutations of returned "
    "rows) every positional read equals the read of the cache-free database; caller mutations never influence any "
    "later read (all calls, keyword ones included); refutations with concrete witnesses for the pre-fix shallow-copy "
    "post-processing and for reads that pass the id by keyword after an update. Tied to /repo by running the real "
    "SqliteDatabase and the model on the same generated sequences and comparing every answer and the final value of "
    "every returned row; the oracle compares every read with a second, uncached database object on the same file.")
C09.LEVEL_NOTE = (
    "Partial: reads that pass the id by keyword are excluded from the coherence theorem (refuted, listed as a known "
    "finding); concurrent get/update interleavings are outside the sequences quantified over and outside the model -- "
    "they are exercised (race cases); the cold-cache get/update race they found is fixed (f4717ad: getters and updates "
    "run under one lock, the atomicity the model assumes) and those cases must pass. Trusted: Coq kernel + "
    "vm_compute; the hand-written model DbCache/Model.v; SQLite/aiosqlite/cachebox/json/deepcopy. No axioms.")

PROP = C09()
