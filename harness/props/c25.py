"""C25 — Commands run exactly once with verbatim arguments, environment and output."""
import json
import os
import random
import re

from harness.lib.framework import Prop, coq_list, coq_N, coq_nat, coq_opt, coq_str

PY = "/venv/bin/python"
SAFE = "abcxyzABZ019_@%+=:,./-"
HOSTILE = ["'", '"', "$", "`", "\\", " ", "  ", "\t", "\n", "*", "?", "[", "]", "~", "#", "&", "|", ";", "<", ">",
           "(", ")", "{", "}", "!", "=", "%", "^", "-", "é", "日本", " ", "$HOME", "`echo hi`", "$(id)", "\\n",
           "a b", "''", '""', "'\"'\"'", "${X}", "&&", "||", ">>", "2>&1", "\r"]
DQ_SPECIAL = set('$`"\\')

DUMPER = r'''
import json, os, sys
counter, keys, rc = sys.argv[1], sys.argv[2], int(sys.argv[3])
with open(counter, "a") as f:
    f.write("x\n")
ks = [k for k in keys.split(",") if k]
sys.stdout.write(json.dumps({"argv": [os.fsencode(a).hex() for a in sys.argv[4:]],
                             "env": {k: (os.fsencode(os.environ[k]).hex() if k in os.environ else None) for k in ks},
                             "cwd": os.getcwd()}))
sys.stdout.flush()
sys.exit(rc)
'''


def hostile(rng, maxlen=8, nl=True):
    n = rng.choice([0, 1, 1, 2, 3, 4, maxlen])
    parts = []
    for _ in range(n):
        r = rng.random()
        if r < 0.55:
            p = rng.choice(HOSTILE)
            if not nl and ("\n" in p or "\r" in p):
                p = " "
            parts.append(p)
        else:
            parts.append("".join(rng.choice(SAFE) for _ in range(rng.randrange(1, 4))))
    return "".join(parts)


def hexs(b):
    return b.hex()


def stream_coq(x):
    if x is None:
        return "None"
    return {-1: "SPipe", -2: "SStdout", -3: "SDevnull"}[x] if isinstance(x, int) else f"(SStr {coq_str(x)})"


def env_coq(e):
    return coq_opt(e, lambda ee: coq_list([f"({coq_str(k)}, {coq_str(v)})" for k, v in ee]))


def result_coq(r):
    if "r" in r:
        return f"(inl ({coq_str(r['r'][0])}, {coq_N(r['r'][1])}))"
    return "(inr %s)" % {"Timeout": "ETimeout", "TimeoutError": "ETimeout", "Terminated": "ETerminated",
                         "BadCode": "EBadCode"}.get(r.get("err") or r.get("exc"), "EHang")


class C25(Prop):
    ID = "C25"
    PROPS_FILE = "Props/C25.v"
    CORR_MODULE = "Frame.Corr"
    MAX_WORKERS = 8
    CASE_TIMEOUT = 900
    SHARD_TIMEOUT = 1500
    COQ_SHARD = 200
    LEVEL_TEXT = (
        "Theorems (Coq, closed under the global context), for all strings / chunkings / command sequences: shlex.quote's "
        "image is read back by a model of the POSIX sh token recogniser as exactly the original word; the command lines "
        "built by create_command and _build_shell_command (both after the fixes of this property) deliver working directory, "
        "every environment value and every redirection target as one verbatim word, and the persistent shell always runs the "
        "command in a child sh -c with an empty stdin; the end-marker framing returns exactly (strip(output), exit code) for "
        "every chunking of the stream and leaves the stream clean; given well-framed responses, any sequence of commands that "
        "do not time out is started once each and returns what fresh processes return (C25_sequence is about the framing; "
        "that cd/export/exit given to run() cannot change the shell is C25_shell_state_isolated over a small model of sh); "
        "BaseConnector.run's path decision starts every command exactly once when nothing times out. Refuted with "
        "witnesses (known findings, NOT repaired in /repo): the export K=\"v\" form of CommandTemplateMap; after a timeout the "
        "command is started a second time and the next command's output is prefixed by the late output and old marker "
        "(the shell is left open; closing it in the handler hangs). The models are tied to /repo by running both on generated "
        "cases (exact command strings, a scripted reader for the framing, real sh for the tokenizer, real LocalConnector / "
        "BaseConnector / template runs with a child that dumps argv, env and cwd, sequences with cd/export/exit/stdin-reader "
        "steps and injected timeouts, non-UTF-8 outputs).")
    LEVEL_NOTE = (
        "Partial: /bin/sh is modelled only as a token recogniser fragment that answers None on anything it does not cover "
        "(validated against dash) plus a six-command model of cd/export/exit/pwd/echo; process creation, asyncio timeouts, the "
        "incremental UTF-8 decoder (errors='replace' on both paths after the fix), uuid uniqueness of markers and the OS are "
        "exercised, not modelled; 'complete output' is judged up to str.strip(), which both paths apply; the model's py_strip "
        "strips ASCII white space only (\\t\\n\\v\\f\\r, FS GS RS US, space): outputs whose edge is non-ASCII white space "
        "(NBSP, U+2028, ...) are outside the correspondence domain and judged by the oracle only; the user command text "
        "(' '.join(command)) is shell text by design and only assumed to lex to its own tokens. Known and not repaired: "
        "template export K=\"v\"; double start and polluted next output after a timeout; the fall-back of a bare "
        "BaseConnector (no shipped connector uses it) execs shlex.split(line) without a shell.")
    TECHNIQUE = ("Coq proof (induction over strings, chunk lists and command lists) + vm_compute correspondence against the "
                 "Python functions + end-to-end oracle runs")
    RULE = ("quote/words: hostile strings and shell-text fragments; create/build/template: random command, env (hostile values), "
            "workdir, redirections -> exact string; frame: well-formed and malformed marker streams under random chunkings, "
            "timeouts, EOF; run/out: real execution on local, base (persistent sh) and queue-manager-template paths with a "
            "child dumping argv/env/cwd and a side-effect counter; seq: command sequences with injected timeouts. "
            "Non-trivial = contains a shell-special character / >=2 chunks / >=2 steps. Distinct = distinct canonical JSON.")
    TRUSTED = ("models Shell/Model.v and Frame/Model.v are hand-written and tied to the code only by the correspondence run",
               "/bin/sh (dash), CPython shlex/asyncio/codecs, jinja2 are exercised, not verified")
    ASSUMPTIONS = ("end markers are unique (uuid) and do not occur in command output",
                   "environment keys are shell identifiers; strings contain no NUL",
                   "output is compared after str.strip(), as every connector returns it")

    # ------------------------------------------------------------------ generation
    def _env(self, rng, maxn=3):
        r = rng.random()
        if r < 0.1:
            return None
        if r < 0.15:
            return []
        keys = rng.sample(["K", "SFV_A", "b2", "_x", "PATH_X", "Z9"], rng.randrange(1, maxn + 1))
        return [[k, hostile(rng)] for k in keys]

    def _wdname(self, rng):
        w = hostile(rng, 4).replace("/", "_")
        return "d" if w in ("", ".", "..") else w

    def _shell_text(self, rng):
        import shlex
        parts = []
        for _ in range(rng.randrange(0, 6)):
            r = rng.random()
            if r < 0.3:
                parts.append("".join(rng.choice(SAFE) for _ in range(rng.randrange(1, 4))))
            elif r < 0.55:
                parts.append(shlex.quote(hostile(rng, 4)))
            elif r < 0.7:
                parts.append("'" + hostile(rng, 3).replace("'", "") + "'")
            elif r < 0.85:
                body = "".join(rng.choice(["a", "b", " ", "'", "\\\\", '\\"', "\\$", "\\`", "\\a", "*", ";", "|", ">", "é", "\t"])
                               for _ in range(rng.randrange(0, 5)))
                parts.append('"' + body + '"')
            elif r < 0.93:
                parts.append(rng.choice([" ", "  ", "\t"]))
            else:
                parts.append(rng.choice(["$a", "`a`", "\\", "*", "?", "~", "#", "(", "{", "!", ";", "&", "|", ">f", "2>f", "<f", "'", '"', "\\ ",
                                         "é", "12>f", "]", "^"]))
            if rng.random() < 0.6:
                parts.append(" ")
        return "".join(parts)

    def _gen_frame(self, rng):
        marker = "SF_CMD_END_" + "".join(rng.choice("0123456789abcdef") for _ in range(6))
        r = rng.random()
        out = hostile(rng, 10)
        if r < 0.15:
            out = rng.choice([" \n", "", "\n\n", "x\n", "  lead", "trail \t\r\n", "\x1c\x1fz\x0b\x0c"]) + out
        if rng.random() < 0.2:
            out += rng.choice(["SF_CMD_END_", marker, marker[:-1] + ":", marker + " :", "SF_CMD_END_000000:0\n", ":"])
        if rng.random() < 0.1:
            out = out + "x" * rng.randrange(100, 3000)
        code = str(rng.choice([0, 0, 1, 2, 127, 255, rng.randrange(0, 256)]))
        kind = "wf"
        tail = "\n"
        if r > 0.85:
            kind = rng.choice(["badcode", "no-nl", "early", "trailing", "timeout", "eof"])
        if kind == "badcode":
            code = rng.choice(["x", "", "1x", "z9"])
        if kind == "no-nl":
            tail = ""
        if kind == "early":
            out = out + marker + ":7\nrest"
        data = (out + marker + ":" + code + tail).encode("utf-8", "surrogateescape")
        if kind == "trailing":
            data += b"next output SF_CMD_END_ffffff:3\n"
        n = len(data)
        k = rng.choice([0, 1, 2, 3, 5, min(n, 20)])
        cuts = sorted(set(rng.randrange(1, n) for _ in range(k))) if n > 1 else []
        if rng.random() < 0.15:  # cut inside the marker / around the colon / before the newline
            p = data.find(marker.encode())
            cuts = sorted(set(cuts + [c for c in (p + 3, p + len(marker), p + len(marker) + 1, n - 1) if 0 < c < n]))
        chunks, prev = [], 0
        for c in cuts + [n]:
            chunks.append(data[prev:c])
            prev = c
        evs = [{"c": hexs(c)} for c in chunks if c]
        if kind == "timeout":
            evs.insert(rng.randrange(0, len(evs) + 1), {"t": 1})
        if kind == "eof":
            evs.insert(rng.randrange(0, len(evs) + 1), {"c": ""})
        return {"f": "frame", "marker": marker, "evs": evs, "kind": kind,
                "out": out if kind in ("wf", "trailing") else None, "code": code}

    def gen(self, rng, tier):
        k = {"quick": 1, "thorough": 3, "extended": 2}[tier]
        cases = []
        for _ in range(150 * k):
            cases.append({"f": "quote", "s": hostile(rng)})
        for _ in range(200 * k):
            cases.append({"f": "words", "s": self._shell_text(rng)})
        for _ in range(60 * k):
            cases.append({"f": "qwords", "args": [hostile(rng) for _ in range(rng.randrange(1, 5))]})
        streams_o = [-2, -2, -2, -1, -3, "out.txt", "o ut", "o'$x"]
        for _ in range(150 * k):
            cmd = [rng.choice(["echo", "a", "'x y'", "\"$K\"", "-n", "a;b"]) for _ in range(rng.randrange(1, 4))]
            o = rng.choice(streams_o)
            e = rng.choice(streams_o + [o, o])
            cases.append({"f": "create", "cmd": cmd, "env": self._env(rng),
                          "wd": rng.choice([None, "/tmp/x", "", hostile(rng, 5)]),
                          "stdin": rng.choice([None, None, -3, "in.txt", hostile(rng, 3)]), "stdout": o, "stderr": e})
        for _ in range(80 * k):
            cmd = [rng.choice(["echo", "a", "'x y'", "\"$K\""]) for _ in range(rng.randrange(1, 4))]
            cases.append({"f": "build", "marker": "SF_CMD_END_" + str(rng.randrange(10**6)), "cmd": cmd,
                          "env": self._env(rng), "wd": rng.choice([None, "/tmp/x", "", hostile(rng, 5)])})
        for _ in range(40 * k):
            cases.append({"f": "template", "env": self._env(rng)})
        for _ in range(200 * k):
            cases.append(self._gen_frame(rng))
        nrun = {"quick": 20, "thorough": 60, "extended": 40}[tier]
        for conn in ("local", "base", "qm"):
            for _ in range(nrun):
                cases.append({"f": "run", "conn": conn, "args": [hostile(rng) for _ in range(rng.randrange(0, 4))],
                              "env": self._env(rng), "wd": rng.choice([None, self._wdname(rng)]),
                              "wdmissing": rng.random() < 0.08,
                              "rc": rng.choice([0, 0, 0, 1, 3, 255])})
        nout = {"quick": 5, "thorough": 15, "extended": 10}[tier]
        for conn in ("local", "base"):
            for _ in range(nout):
                cases.append({"f": "out", "conn": conn, "seed": rng.randrange(10**9),
                              "len": rng.choice([0, 1, 5, 100, 4095, 4096, 65536, 65537, 200000] +
                                                ([1 << 20] if tier != "quick" else [])),
                              "kind": rng.choice(["text", "text", "ws", "uni", "bytes"]), "nl": rng.random() < 0.5,
                              "rc": rng.choice([0, 1, 42, 255])})
        for _ in range({"quick": 16, "thorough": 48, "extended": 24}[tier]):
            cases.append({"f": "path", "job": rng.random() < 0.35, "stdin": rng.random() < 0.35, "cap": rng.random() < 0.6,
                          "env": rng.random() < 0.2,
                          "out": rng.choice(["", "x", "three\n", "  pad  ", "l1\nl2", "no-nl"]), "rc": rng.choice([0, 0, 1, 7, 255])})
        nseq = {"quick": 6, "thorough": 18, "extended": 9}[tier]
        for j in range(nseq):
            steps = []
            for _ in range(rng.randrange(2, 6)):
                steps.append({"k": "ok", "out": rng.choice(["", "x", "three", "a b\n", "  pad  ", "l1\nl2", "no-nl", "tab\t\n\n"]),
                              "rc": rng.choice([0, 0, 1, 2, 255])})
            if j % 3 == 0:
                steps.insert(rng.randrange(0, len(steps)), {"k": "to"})
            elif j % 3 == 1:
                # state-changing commands given to run() as they are (no sh -c of the caller), each followed by probes:
                # a fresh process would not see any of it
                for _ in range(rng.randrange(1, 4)):
                    st = rng.choice([{"k": "cd", "d": rng.choice(["/", "/tmp", "/var"])},
                                     {"k": "export", "key": "SFV_X", "val": rng.choice(["1", "a b"])},
                                     {"k": "exit", "n": rng.choice([0, 3, 42])},
                                     {"k": "stdin"}])
                    at = rng.randrange(0, len(steps) + 1)
                    steps[at:at] = [st, {"k": "pwd"}, {"k": "echo", "key": "SFV_X"}]
            cases.append({"f": "seq", "steps": steps})
        return cases

    # ------------------------------------------------------------------ implementation
    def impl_init(self):
        import asyncio
        import atexit
        import shutil
        import tempfile

        from streamflow.core import utils
        from streamflow.core.deployment import ExecutionLocation
        from streamflow.core.exception import WorkflowExecutionException
        from streamflow.deployment import shell as sfshell
        from streamflow.deployment.connector.base import BaseConnector
        from streamflow.deployment.connector.local import LocalConnector
        from streamflow.deployment.template import CommandTemplateMap

        self.asyncio, self.utils, self.sfshell = asyncio, utils, sfshell
        self.WEE, self.Loc, self.Local, self.CTM = WorkflowExecutionException, ExecutionLocation, LocalConnector, CommandTemplateMap
        self.scratch = tempfile.mkdtemp(prefix="sfv-c25-", dir="/var/tmp")
        atexit.register(shutil.rmtree, self.scratch, True)
        self.dumper = os.path.join(self.scratch, "dump.py")
        with open(self.dumper, "w") as f:
            f.write(DUMPER)
        self.n = 0
        os.chdir(self.scratch)
        # hostile names are interpolated into shell text by the code under test (and by mutants of it): keep every
        # expansion ($HOME, ~, relative paths) inside the scratch directory
        os.makedirs(os.path.join(self.scratch, "home"), exist_ok=True)
        os.environ["HOME"] = os.path.join(self.scratch, "home")

        class ShConnector(BaseConnector):
            async def deploy(self, external):
                pass

            async def get_available_locations(self, service=None):
                return {}

            @classmethod
            def get_schema(cls):
                return ""

        self.ShConnector = ShConnector

        class ScriptedReader:
            def __init__(self, evs):
                self.evs, self.eof = list(evs), False

            async def read(self, n=-1):
                if not self.evs:
                    self.eof = True
                    return b""
                e = self.evs.pop(0)
                if "t" in e:
                    raise asyncio.TimeoutError()
                return bytes.fromhex(e["c"])

        class ScriptedShell(sfshell.BaseShell):
            async def _close(self):
                pass

        self.ScriptedReader, self.ScriptedShell = ScriptedReader, ScriptedShell

    def _dir(self):
        self.n += 1
        d = os.path.join(self.scratch, f"c{self.n}")
        os.makedirs(d)
        return d

    def _count(self, path):
        try:
            return len(open(path).read().splitlines())
        except FileNotFoundError:
            return 0

    def impl_run(self, c):
        f = c["f"]
        if f == "quote":
            import shlex
            return {"r": shlex.quote(c["s"])}
        if f in ("words", "qwords"):
            import shlex
            import subprocess
            s = c["s"] if f == "words" else " ".join(shlex.quote(a) for a in c["args"])
            d = self._dir()
            try:
                p = subprocess.run(["/bin/sh", "-c", "set -- " + s + "\nprintf '%s\\0' \"$#\" \"$@\""], cwd=d,
                                   stdin=subprocess.DEVNULL, stdout=subprocess.PIPE, stderr=subprocess.DEVNULL, timeout=300,
                                   env={"PATH": "/nonexistent", "a": "EXPANDED a", "X": "EXPANDED X"})
            except (subprocess.TimeoutExpired, ValueError):
                return {"err": "timeout"}
            parts = p.stdout.split(b"\0")
            if p.returncode != 0 or len(parts) < 2 or not parts[0].isdigit() or len(parts) != int(parts[0]) + 2 or parts[-1] != b"":
                return {"err": "sh", "rc": p.returncode}
            return {"r": [hexs(x) for x in parts[1:-1]]}
        if f == "create":
            try:
                e = dict(c["env"]) if c["env"] is not None else None
                return {"r": self.utils.create_command("X", c["cmd"], e, c["wd"], c["stdin"], c["stdout"], c["stderr"])}
            except self.WEE:
                return {"err": "WorkflowExecutionException"}
        if f == "build":
            e = dict(c["env"]) if c["env"] is not None else None
            return {"r": self.sfshell._build_shell_command(c["marker"], c["cmd"], "cls", ["sh"], e, c["wd"])}
        if f == "template":
            e = dict(c["env"]) if c["env"] is not None else None
            t = self.CTM(default="{{streamflow_command}}", template_map={"s": "{{streamflow_environment}}|{{streamflow_command}}"})
            r = t.get_command(command="true", template="s", environment=e)
            return {"r": r[:-len("|true")] if r.endswith("|true") else {"raw": r}}
        if f == "frame":
            return self.asyncio.run(self._frame(c))
        if f == "run":
            return self.asyncio.run(self._run(c))
        if f == "out":
            return self.asyncio.run(self._out(c))
        if f == "seq":
            return self.asyncio.run(self._seq(c))
        if f == "path":
            return self.asyncio.run(self._path(c))
        raise ValueError(f)

    async def _frame(self, c):
        sh = self.ScriptedShell(["sh"], 1 << 16)
        rd = self.ScriptedReader(c["evs"])
        sh._reader = rd
        try:
            out, code = await sh._read_with_output(c["marker"], None)
            res = {"r": [hexs(out.encode("utf-8", "surrogateescape")), code]}
        except self.WEE as e:
            m = str(e)
            res = {"err": "Timeout" if "Timeout" in m else "Terminated" if "terminated" in m else
                   "BadCode" if "Invalid return code" in m else m}
        res["unread"] = len(rd.evs) + (0 if rd.eof else 1)
        return res

    def _connector(self, kind, d):
        if kind == "local":
            return self.Local("local", d), self.Loc(name="__LOCAL__", deployment="local", local=True)
        return self.ShConnector("base", d, 1 << 16), self.Loc(name="sh", deployment="base")

    async def _run(self, c):
        import shlex
        d = self._dir()
        counter = os.path.join(d, "count")
        env = dict(c["env"]) if c["env"] is not None else None
        wd = None
        if c["wd"] is not None:
            if "/" in c["wd"] or c["wd"] in ("", ".", ".."):
                return {"skip": "not a directory name"}
            wd = os.path.join(d, "w", c["wd"])
            try:
                os.makedirs(os.path.dirname(wd) if c.get("wdmissing") else wd)
            except (OSError, ValueError):
                return {"skip": "workdir cannot be created"}
        keys = ",".join(k for k, _ in (c["env"] or []))
        os.chdir(d)
        cmd = [PY, self.dumper, counter, shlex.quote(keys), str(c["rc"])] + [shlex.quote(a) for a in c["args"]]
        res = {}
        try:
            if c["conn"] == "qm":
                # QueueManagerConnector.run(job_name=...) up to the submission: create_command, then the service template;
                # the batch system is replaced by running the script with sh, as sbatch/qsub would
                t = self.CTM(default="#!/bin/sh\n\n{{streamflow_command}}",
                             template_map={"svc": "#!/bin/sh\n{{streamflow_environment}}\n{{streamflow_command}}"})
                line = self.utils.create_command(class_name="QM", command=cmd, environment=env, workdir=wd)
                script = t.get_command(command=line, template="svc", environment=env, workdir=wd)
                sp = os.path.join(d, "job.sh")
                with open(sp, "w", encoding="utf-8", errors="surrogateescape") as fh:
                    fh.write(script)
                p = await self.asyncio.create_subprocess_exec("/bin/sh", sp, stdin=self.asyncio.subprocess.DEVNULL, cwd=d,
                                                              stdout=self.asyncio.subprocess.PIPE,
                                                              stderr=self.asyncio.subprocess.STDOUT)
                so, _ = await self.asyncio.wait_for(p.communicate(), 300)
                out, rc = so.decode("utf-8", "replace").strip(), p.returncode
            else:
                conn, loc = self._connector(c["conn"], d)
                try:
                    out, rc = await conn.run(loc, cmd, environment=env, workdir=wd, capture_output=True, timeout=300)
                finally:
                    await conn.undeploy(False)
            res["rc"] = rc
            try:
                res["dump"] = json.loads(out)
            except ValueError:
                res["raw"] = out[:300]
        except Exception as e:  # noqa
            res["exc"] = type(e).__name__
            res["msg"] = str(e)[:200]
        res["count"] = self._count(counter)
        res["wd"] = os.path.realpath(wd) if wd else None
        leftovers = sorted(x for x in os.listdir(d) if x not in ("count", "w", "job.sh"))
        if leftovers:
            res["leftovers"] = leftovers[:5]
        return res

    def _payload(self, c):
        rng = random.Random(c["seed"])
        n = c["len"]
        if c["kind"] == "text":
            body = "".join(rng.choice("abcdefghij klm\n\t'\"$`\\;|&<>*") for _ in range(n))
        elif c["kind"] == "ws":
            body = "".join(rng.choice(" \n\t\r x") for _ in range(n))
        else:
            body = "".join(rng.choice("aé日 €\n 😀b") for _ in range(n))
        if c["kind"] == "bytes":         # arbitrary bytes, not valid UTF-8
            return bytes(rng.choice([0x61, 0x20, 0x0a, 0xff, 0xfe, 0xc3, 0x80, 0xe2, 0x28, 0xf0]) for _ in range(min(n, 5000))) \
                + (b"\n" if c["nl"] else b"")
        b = body.encode()[:n] if c["kind"] != "uni" else body.encode()
        b = b.decode("utf-8", "ignore").encode()
        if c["nl"]:
            b += b"\n"
        return b

    async def _out(self, c):
        import hashlib
        import shlex
        d = self._dir()
        pf = os.path.join(d, "payload")
        data = self._payload(c)
        with open(pf, "wb") as fh:
            fh.write(data)
        counter = os.path.join(d, "count")
        script = f"echo x >> {counter}; cat {pf}; exit {c['rc']}"
        conn, loc = self._connector(c["conn"], d)
        res = {}
        try:
            out, rc = await conn.run(loc, ["sh", "-c", shlex.quote(script)], capture_output=True, timeout=300)
            exp = data.decode("utf-8", "replace").strip()
            res = {"rc": rc, "len": len(out), "same": out == exp, "sha": hashlib.sha1(out.encode()).hexdigest()[:12],
                   "exp_len": len(exp)}
            if out != exp:
                i = next((i for i, (a, b) in enumerate(zip(out, exp)) if a != b), min(len(out), len(exp)))
                res["diff_at"] = i
                res["got"], res["want"] = out[max(0, i - 10):i + 20], exp[max(0, i - 10):i + 20]
        except Exception as e:  # noqa
            res = {"exc": type(e).__name__, "msg": str(e)[:200]}
        finally:
            await conn.undeploy(False)
        res["count"] = self._count(counter)
        return res

    async def _path(self, c):
        """One BaseConnector.run with a given (job_name, stdin, capture_output): which path produced the result
        (persistent shell / fresh process), what was returned, how many times the command started."""
        import shlex
        d = self._dir()
        counter, pf = os.path.join(d, "count"), os.path.join(d, "payload")
        with open(pf, "w") as fh:
            fh.write(c["out"])
        script = f"echo x >> {counter}; cat {pf}; exit {c['rc']}"
        k, subs = [0], [0]

        def name():
            k[0] += 1
            return f"m{k[0] - 1}"

        old_name, old_sub = self.sfshell.random_name, self.utils.run_in_subprocess

        async def sub(*a, **kw):
            subs[0] += 1
            return await old_sub(*a, **kw)

        self.sfshell.random_name, self.utils.run_in_subprocess = name, sub
        conn, loc = self._connector("base", d)
        res = {}
        try:
            r = await conn.run(loc, ["sh", "-c", shlex.quote(script)], capture_output=c["cap"], timeout=300,
                               environment={"SFV_P": "1"} if c.get("env") else None,
                               stdin=self.asyncio.subprocess.DEVNULL if c["stdin"] else None,
                               job_name="job" if c["job"] else None)
            res["ret"] = None if r is None else [hexs(r[0].encode()), r[1]]
        except Exception as e:  # noqa
            res["exc"] = type(e).__name__
        finally:
            self.sfshell.random_name, self.utils.run_in_subprocess = old_name, old_sub
            try:
                await conn.run(loc, ["true"], capture_output=True, timeout=300)
            except Exception:  # noqa
                pass
            await self._settle(d)
            await conn.undeploy(False)
        res.update({"via": "sub" if subs[0] else "shell", "markers": k[0], "count": self._count(counter)})
        return res

    async def _settle(self, d):
        """Waits until no descendant process still refers to the case directory d (structural, not a fixed sleep)."""
        import psutil
        me, mine = psutil.Process(), None
        quiet = 0
        for _ in range(2400):
            busy = False
            for ch in me.children(recursive=True):
                try:
                    cl = ch.cmdline()
                except (psutil.NoSuchProcess, psutil.ZombieProcess):
                    continue
                if mine is None:
                    mine = me.cmdline()
                if any(d in a for a in cl) or cl == mine:
                    busy = True
            quiet = 0 if busy else quiet + 1
            if quiet >= 2:
                return
            await self.asyncio.sleep(0.1)

    async def _seq(self, c):
        import shlex
        d = self._dir()
        k = [0]

        def name():
            k[0] += 1
            return f"m{k[0] - 1}"

        old = self.sfshell.random_name
        self.sfshell.random_name = name
        os.chdir(d)
        conn, loc = self._connector("base", d)
        obs = []
        save0 = os.dup(0)                  # children must never read this worker's stdin (the case stream)
        nul = os.open(os.devnull, os.O_RDONLY)
        os.dup2(nul, 0)
        try:
            for i, st in enumerate(c["steps"]):
                counter = os.path.join(d, f"count{i}")
                m0 = k[0]
                timeout, rel = 300, None
                if st["k"] == "ok":
                    pf = os.path.join(d, f"p{i}")
                    with open(pf, "w") as fh:
                        fh.write(st["out"])
                    cmd = ["sh", "-c", shlex.quote(f"echo x >> {counter}; cat {pf}; exit {st['rc']}")]
                elif st["k"] == "to":
                    rel = os.path.join(d, f"rel{i}")
                    cmd = ["sh", "-c", shlex.quote(f"echo x >> {counter}; while [ ! -e {rel} ]; do sleep 0.2; done; printf late")]
                    timeout = 1
                elif st["k"] == "cd":
                    cmd = ["cd", st["d"]]
                elif st["k"] == "pwd":
                    cmd = ["pwd"]
                elif st["k"] == "export":
                    cmd = ["export", shlex.quote(f"{st['key']}={st['val']}")]
                elif st["k"] == "echo":
                    cmd = ["echo", f'"[${st["key"]}]"']
                elif st["k"] == "exit":
                    cmd = ["exit", str(st["n"])]
                else:  # a command that reads its standard input
                    cmd = ["sh", "-c", shlex.quote('read x; echo "got=[$x]"')]
                    timeout = 5
                try:
                    out, rc = await conn.run(loc, cmd, capture_output=True, timeout=timeout)
                    o = {"r": [hexs(out.encode()), rc]}
                except Exception as e:  # noqa
                    o = {"exc": type(e).__name__}
                if st["k"] == "to":
                    open(rel, "w").close()          # release every started copy; they are counted at the end
                o["markers"] = k[0] - m0
                obs.append(o)
            # Counting is structural, not timed: (1) the persistent shell is sequential, so a command sent through it
            # now returns only after every copy the shell was asked to run has finished; (2) the fall-back copies are
            # children of this process: wait until no descendant refers to the case directory.
            try:
                await conn.run(loc, ["true"], capture_output=True, timeout=240)
            except Exception:  # noqa
                pass
            await self._settle(d)
            for i, o in enumerate(obs):
                o["count"] = self._count(os.path.join(d, f"count{i}"))
        finally:
            os.dup2(save0, 0)
            os.close(save0)
            os.close(nul)
            self.sfshell.random_name = old
            for i in range(len(c["steps"])):        # never leave a blocked command behind
                open(os.path.join(d, f"rel{i}"), "w").close()
            await conn.undeploy(False)
        return {"steps": obs, "cwd": os.path.realpath(d)}

    # ------------------------------------------------------------------ oracle (from the property text)
    @staticmethod
    def _cls(s):
        if s is None:
            return "none"
        if set(s) & DQ_SPECIAL:
            return "dq-special"
        if any(ch in s for ch in " \t\n\r"):
            return "blank"
        if any(ch in s for ch in "*?[]~#&|;<>(){}!'"):
            return "meta"
        return "plain"

    def oracle(self, c, o):
        if "crash" in o or "hang" in o:
            return ("crash", f"implementation crashed/hung: {str(o)[:300]}")
        f = c["f"]
        if f == "qwords":
            want = [hexs(a.encode("utf-8", "surrogateescape")) for a in c["args"]]
            if o.get("r") != want:
                return ("quote-roundtrip", f"sh read {o} from the shlex.quote'd words {c['args']!r}")
        if f == "frame" and c["kind"] in ("wf", "trailing"):
            want = [hexs(c["out"].strip().encode("utf-8", "surrogateescape")), int(c["code"])]
            if (c["marker"] + ":") not in c["out"] and o.get("r") != want:
                return ("framing", f"_read_with_output returned {o} for output {c['out']!r} code {c['code']}")
        if f == "run":
            if "skip" in o:
                return None
            if c.get("wdmissing") and c["wd"] is not None:
                if o.get("count") or o.get("rc") == 0:
                    return ("workdir-missing", f"the working directory does not exist, yet the command was started "
                                               f"{o.get('count')} time(s), rc {o.get('rc')} ({c['conn']})")
                return None
            if (o.get("count") or 0) > 1:
                return ("exactly-once", f"the command was started {o.get('count')} times ({c['conn']}): {str(o)[:200]}")
            dump = o.get("dump")
            hx = lambda s: hexs(s.encode("utf-8", "surrogateescape"))
            if dump is not None:
                for k, v in (c["env"] or []):
                    if dump["env"].get(k) != hx(v):
                        return ("env-verbatim", f"{k}={v!r} reached the command as {dump['env'].get(k)!r} ({c['conn']})")
                # On the queue-manager path the service template renders export K="v" BEFORE the cd/export/command line:
                # a value with an unbalanced quote swallows (part of) that line, so the damage done by the value can show
                # as a wrong cwd or argv while the value itself arrives (create_command exports it again).  The cause is
                # the value's interpretation, i.e. the env-verbatim clause (seed 45: b2='BBx"$HOME\'' ate `cd '…' &&`).
                tmpl = c["conn"] == "qm" and any(self._cls(v) == "dq-special" for _, v in (c["env"] or []))
                if o.get("wd") and dump["cwd"] != o["wd"]:
                    return ("env-verbatim" if tmpl else "workdir-verbatim",
                            f"cwd {dump['cwd']!r}, asked {o['wd']!r} ({c['conn']})" +
                            (" — the template's export line of a value with quotes swallowed the cd" if tmpl else ""))
                if dump["argv"] != [hx(a) for a in c["args"]]:
                    return ("env-verbatim" if tmpl else "argv-verbatim", f"argv {dump['argv']} for {c['args']!r} ({c['conn']})")
            if dump is None or o.get("rc") != c["rc"] or o.get("count") != 1:
                bad = next((v for _, v in (c["env"] or []) if self._cls(v) == "dq-special"), None)
                clause = "env-verbatim" if bad is not None else \
                    "workdir-verbatim" if c["wd"] is not None and self._cls(c["wd"]) != "plain" else "output-status"
                return (clause, f"run returned {str(o)[:300]} instead of the child's dump, rc {c['rc']}, one start ({c['conn']})")
            if o.get("leftovers"):
                return ("env-verbatim", f"files appeared in the scratch directory: {o['leftovers']}")
        if f == "out":
            if o.get("count") != 1:
                return ("exactly-once", f"started {o.get('count')} times")
            if "exc" in o or not o.get("same") or o.get("rc") != c["rc"]:
                return ("output-status", f"output/status differ: {str(o)[:300]}")
        if f == "path":
            if "exc" not in o and o.get("count") != 1:
                return ("exactly-once", f"run(job={c['job']}, stdin={c['stdin']}, capture={c['cap']}) started the command "
                                        f"{o.get('count')} times: {o}")
            want = [hexs(c["out"].strip().encode()), c["rc"]] if c["cap"] else None
            if "exc" in o or o.get("ret") != want:
                return ("output-status", f"run(job={c['job']}, stdin={c['stdin']}, capture={c['cap']}) returned {o}, expected {want}")
        if f == "seq":
            fails = self._seq_failures(c, o)
            if fails:
                known = self._known()
                pick = next((x for x in fails if f"seq/{x[0]}/{x[1]}" not in known), None) \
                    or next((x for x in fails if x[0] == c.get("prefer")), fails[0])   # corpus replays name their clause
                return (pick[0], pick[2] + f" [all failing steps: {[(x[0], x[1]) for x in fails]}]")
        return None

    def _known(self):
        if not hasattr(self, "_known_sigs"):
            from harness.lib.framework import load_known
            self._known_sigs = {k[0] for k in load_known(self.ID)[0]}
        return self._known_sigs

    @staticmethod
    def _seq_expect(c, o, st):
        """what a fresh process returns for this step (the property's reference), or None for a timed-out step"""
        k = st["k"]
        if k == "ok":
            return [hexs(st["out"].strip().encode()), st["rc"]]
        if k in ("cd", "export"):
            return ["", 0]
        if k == "pwd":
            return [hexs(o.get("cwd", "").encode()), 0]
        if k == "echo":
            return [hexs(b"[]"), 0]
        if k == "exit":
            return ["", st["n"]]
        if k == "stdin":
            return [hexs(b"got=[]"), 0]
        return None

    def _seq_failures(self, c, o):
        """every step is judged: [(clause, detail, message)]"""
        if len(o.get("steps", [])) != len(c["steps"]):
            return [("crash", "incomplete", "sequence not completed")]
        out = []
        for i, (st, so) in enumerate(zip(c["steps"], o["steps"])):
            before = [s["k"] for s in c["steps"][:i]]
            want = self._seq_expect(c, o, st)
            if want is not None and so.get("r") != want:
                got = bytes.fromhex(so["r"][0]).decode("utf-8", "replace") if "r" in so else so.get("exc")
                exp = bytes.fromhex(want[0]).decode("utf-8", "replace")
                if "to" in before and isinstance(got, str) and "SF_CMD_END_" in got and got.endswith(exp):
                    detail = "late-output-and-old-marker-prefixed"
                elif "stdin" in before and isinstance(got, str) and "SF_CMD_END_" in got:
                    detail = "marker-line-eaten-by-stdin-reader"
                elif st["k"] == "pwd" and "cd" in before:
                    detail = "cwd-leaked"
                elif st["k"] == "echo" and "export" in before:
                    detail = "env-leaked"
                elif st["k"] == "exit":
                    detail = "exit-kills-shell" if "exc" in so else "exit-status"
                elif st["k"] == "stdin":
                    detail = "stdin-shared-with-shell"
                else:
                    detail = "after-" + (before[-1] if before else "start")
                out.append(("sequence-output", detail,
                            f"step {i} ({st['k']}) returned {got!r} (rc {so.get('r', [0, None])[1]}), a fresh process returns {exp!r} (rc {want[1]})"))
            if st["k"] in ("ok", "to") and so.get("count") != 1:
                out.append(("exactly-once", f"{st['k']}-count={so.get('count')}",
                            f"step {i} ({st['k']}) was started {so.get('count')} times"))
        return out

    # ------------------------------------------------------------------ model side
    def coq_case(self, c, o):
        if "crash" in o or "hang" in o or "skip" in o:
            return None
        f = c["f"]
        if f == "quote":
            return f"CQuote {coq_str(c['s'])} {coq_str(o['r'])}"
        if f == "words":
            r = coq_opt(o.get("r"), lambda ws: coq_list([coq_str(bytes.fromhex(w)) for w in ws]))
            return f"CWords {coq_str(c['s'])} {r}"
        if f == "create":
            return (f"CCreate {coq_list([coq_str(x) for x in c['cmd']])} {env_coq(c['env'])} {coq_opt(c['wd'], coq_str)} "
                    f"{'None' if c['stdin'] is None else '(Some ' + stream_coq(c['stdin']) + ')'} "
                    f"{stream_coq(c['stdout'])} {stream_coq(c['stderr'])} {coq_opt(o.get('r'), coq_str)}")
        if f == "build":
            return (f"CBuild {coq_str(c['marker'])} {coq_list([coq_str(x) for x in c['cmd']])} {env_coq(c['env'])} "
                    f"{coq_opt(c['wd'], coq_str)} {coq_str(o['r'])}")
        if f == "template":
            if not isinstance(o.get("r"), str):
                return None
            return f"CTemplate {env_coq(c['env'])} {coq_str(o['r'])}"
        if f == "frame":
            data = b"".join(bytes.fromhex(e["c"]) for e in c["evs"] if "c" in e)
            try:
                txt = data.decode("utf-8")
            except UnicodeDecodeError:
                return None
            i = txt.find(c["marker"] + ":")
            pre = txt if i < 0 else txt[:i]
            if pre.strip() != pre.strip(" \t\n\r\x0b\x0c\x1c\x1d\x1e\x1f"):
                return None      # str.strip() also strips non-ASCII white space: outside the byte-level model
            evs = [("TimeoutEv" if "t" in e else f"Chunk {coq_str(bytes.fromhex(e['c']))}") for e in c["evs"]]
            evs.append('Chunk ""%string')
            if "r" in o:
                r = {"r": [bytes.fromhex(o["r"][0]), o["r"][1]]}
            else:
                r = o
            return f"CFrame {coq_str(c['marker'])} {coq_list(evs)} {result_coq(r)} {coq_nat(o['unread'])}"
        if f == "path":
            def oc(x):
                return "(inl None)" if x is None else f"(inl (Some ({coq_str(bytes.fromhex(x[0]))}, {coq_N(x[1])})))"
            if "exc" in o:
                return None
            q = f"{{| r_job := {'true' if c['job'] else 'false'}; r_stdin := {'true' if c['stdin'] else 'false'}; " \
                f"r_capture := {'true' if c['cap'] else 'false'} |}}"
            m = "SF_CMD_END_m0"
            resp = f"[Chunk {coq_str(c['out'] + m + ':' + str(c['rc']) + chr(10))}]"
            fresh = oc(o["ret"]) if o["via"] == "sub" else "(inr EHang)"
            return (f"CRunAny {q} {coq_str(m)} {resp} {fresh} {oc(o['ret'])} {coq_nat(o['count'])} "
                    f"{'ViaSubprocess' if o['via'] == 'sub' else 'ViaShell'}")
        if f == "seq" and not any(st["k"] == "to" for st in c["steps"]):
            cs, rs = [], []
            for st, so in zip(c["steps"], o["steps"]):
                k = st["k"]
                cs.append({"ok": lambda: f"SExt {coq_str(st['out'])} {coq_N(st['rc'])}",
                           "cd": lambda: f"SCd {coq_str(st['d'])}", "pwd": lambda: "SPwd",
                           "export": lambda: f"SExport {coq_str(st['key'])} {coq_str(st['val'])}",
                           "echo": lambda: f"SEcho {coq_str(st['key'])}", "exit": lambda: f"SExit {coq_N(st['n'])}",
                           "stdin": lambda: f"SExt {coq_str('got=[]' + chr(10))} {coq_N(0)}"}[k]())
                rs.append(f"({coq_str(bytes.fromhex(so['r'][0]))}, {coq_N(so['r'][1])})" if "r" in so
                          else f"({coq_str('<' + str(so.get('exc')) + '>')}, {coq_N(0)})")
            return f"CSeqState {coq_str(o['cwd'])} {coq_list(cs)} {coq_list(rs)}"
        if f == "seq":
            cs, rs, k = [], [], 0
            for st, so in zip(c["steps"], o["steps"]):
                m = f"SF_CMD_END_m{k}"
                k += 1
                if st["k"] == "ok":
                    resp = f"[Chunk {coq_str(st['out'] + m + ':' + str(st['rc']) + chr(10))}]"
                    fresh = "(inr EHang)"
                else:
                    resp = f"[TimeoutEv; Chunk {coq_str('late' + m + ':0' + chr(10))}]"
                    fresh = "(inr ETimeout)"
                cs.append(f"{{| c_marker := {coq_str(m)}; c_resp := {resp}; c_fresh := {fresh} |}}")
                r = {"r": [bytes.fromhex(so["r"][0]), so["r"][1]]} if "r" in so else so
                rs.append(f"({result_coq(r)}, {coq_nat(so['count'])})")
            return f"CSeq {coq_list(cs)} {coq_list(rs)}"
        return None

    def nontrivial(self, c):
        f = c["f"]
        if f in ("quote", "words"):
            return any(ch in c["s"] for ch in "'\"$`\\ \n*;|&<>")
        if f == "frame":
            return len(c["evs"]) >= 2
        if f == "seq":
            return len(c["steps"]) >= 2
        if f == "run":
            return any(self._cls(v) != "plain" for v in [c["wd"]] + c["args"] + [v for _, v in (c["env"] or [])] if v is not None)
        return True

    def signature(self, c, o, clause):
        f = c["f"]
        if f == "run":
            what = "none"
            if clause == "env-verbatim":
                vals = [v for _, v in (c["env"] or [])]
                what = "dq-special" if any(self._cls(v) == "dq-special" for v in vals) else \
                    next((self._cls(v) for v in vals if self._cls(v) != "plain"), "plain")
            elif clause == "workdir-verbatim":
                what = self._cls(c["wd"])
            elif clause == "argv-verbatim":
                what = next((self._cls(v) for v in c["args"] if self._cls(v) != "plain"), "plain")
            return f"run/{c['conn']}/{clause}/{what}"
        if f == "out":
            return f"out/{c['conn']}/{clause}/{c['kind']}"
        if f == "seq":
            x = next((x for x in self._seq_failures(c, o) if x[0] == clause and f"seq/{x[0]}/{x[1]}" not in self._known()), None) \
                or next((x for x in self._seq_failures(c, o) if x[0] == clause), None)
            return f"seq/{clause}/{x[1] if x else 'none'}"
        if f == "path":
            if o.get("exc") == "FileNotFoundError" and c.get("env") and (c["job"] or c["stdin"]):
                return f"path/{clause}/bare-fallback-without-shell"
            return f"path/{clause}/job={int(c['job'])},stdin={int(c['stdin'])},cap={int(c['cap'])},env={int(bool(c.get('env')))}"
        return f"{f}/{clause}"

    def shrink(self, c):
        f = c["f"]
        if f == "run":
            if c["env"]:
                for i in range(len(c["env"])):
                    if len(c["env"]) > 1:
                        yield {**c, "env": c["env"][:i] + c["env"][i + 1:]}
                for i, (k, v) in enumerate(c["env"]):
                    for ch in sorted(set(v)):
                        if ch != v:
                            yield {**c, "env": c["env"][:i] + [[k, ch]] + c["env"][i + 1:]}
            if c["args"]:
                yield {**c, "args": []}
                for i in range(len(c["args"])):
                    yield {**c, "args": c["args"][:i] + c["args"][i + 1:]}
                for i, a in enumerate(c["args"]):
                    for ch in sorted(set(a)):
                        if ch != a:
                            yield {**c, "args": c["args"][:i] + [ch] + c["args"][i + 1:]}
            if c["wd"]:
                yield {**c, "wd": None}
                for ch in sorted(set(c["wd"])):
                    if ch != c["wd"] and ch not in "/.":
                        yield {**c, "wd": "d" + ch}
            if c["rc"]:
                yield {**c, "rc": 0}
        elif f == "seq":
            for i in range(len(c["steps"])):
                if len(c["steps"]) > 1:
                    yield {**c, "steps": c["steps"][:i] + c["steps"][i + 1:]}
        elif f == "qwords":
            for i in range(len(c["args"])):
                if len(c["args"]) > 1:
                    yield {**c, "args": c["args"][:i] + c["args"][i + 1:]}
        elif f == "frame":
            if len(c["evs"]) > 1:
                data = "".join(e.get("c", "") for e in c["evs"])
                if all("c" in e for e in c["evs"]):
                    yield {**c, "evs": [{"c": data}]}


PROP = C25()
