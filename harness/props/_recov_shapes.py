"""Shapes of the recovery scenarios: job functions, failure-free denotation, job names.
No StreamFlow import: used by the main process (generation, oracle) and by the workers."""


def apply_op(op, label, vals):
    """The deterministic job functions.  `vals` = list of plain input values (ints, strings, lists).
    The same function is used by the harness to compute the failure-free denotation."""
    if op == "inc":          # ints
        return sum(vals) * 2 + len(label)
    if op == "succ":         # loop counter
        return vals[0] + 1
    if op == "cat":          # strings (file contents)
        return "+".join(vals) + "|" + label
    if op == "split":        # one string -> list of strings
        n = int(label.split(":")[1])
        return [f"{vals[0]}#{i}" for i in range(n)]
    if op == "splitn":       # one int -> list of ints
        n = int(label.split(":")[1])
        return [vals[0] * 10 + i for i in range(n)]
    if op == "joinl":        # list of strings -> string
        return ",".join(vals[0]) + "|" + label
    if op == "suml":         # list of ints -> int
        return sum(vals[0]) + len(label)
    raise ValueError(op)


def denote(shape):
    """Failure-free denotation of a shape, computed without StreamFlow: (final value, {job name: value})."""
    kind = shape["kind"]
    ftype = shape["type"]  # 'file' | 'file2' (file + secondary file) | 'primitive'
    if ftype == "file2":
        ftype = "file"
    v = "seed" if ftype == "file" else 3
    if kind == "pipeline":
        for i in range(shape["n"]):
            v = apply_op("cat" if ftype == "file" else "inc", f"s{i}", [v])
        return v
    if kind == "scatter":
        for i in range(shape["pre"]):
            v = apply_op("cat" if ftype == "file" else "inc", f"a{i}", [v])
        vs = apply_op("split" if ftype == "file" else "splitn", f"sp:{shape['width']}", [v])
        for i in range(shape["depth"]):
            vs = [apply_op("cat" if ftype == "file" else "inc", f"b{i}", [x]) for x in vs]
        v = apply_op("joinl" if ftype == "file" else "suml", "g", [vs])
        for i in range(shape["post"]):
            v = apply_op("cat" if ftype == "file" else "inc", f"c{i}", [v])
        return v
    if kind == "loop":
        for i in range(shape["pre"]):
            v = apply_op("cat" if ftype == "file" else "inc", f"a{i}", [v])
        if shape["iters"] == 0:
            v = None   # the loop-output step emits Token(None) when the body never ran
        for _ in range(shape["iters"]):
            v = apply_op("cat" if ftype == "file" else "inc", "body", [v])
        for i in range(shape["post"]):
            v = apply_op("cat" if ftype == "file" else "inc", f"c{i}", [v])
        return v
    if kind == "diamond":
        v = apply_op("cat" if ftype == "file" else "inc", "root", [v])
        bs = [apply_op("cat" if ftype == "file" else "inc", f"br{i}", [v]) for i in range(shape["branches"])]
        return apply_op("cat" if ftype == "file" else "inc", "join", bs)
    raise ValueError(kind)


def step_names(shape):
    """names of the execute steps of a shape in topological order, with the tags of their jobs"""
    kind = shape["kind"]
    if kind == "pipeline":
        return [(f"/s{i}", ["0"]) for i in range(shape["n"])]
    if kind == "scatter":
        w = shape["width"]
        r = [(f"/a{i}", ["0"]) for i in range(shape["pre"])]
        r.append(("/sp", ["0"]))
        r += [(f"/b{i}", [f"0.{j}" for j in range(w)]) for i in range(shape["depth"])]
        r.append(("/g", ["0"]))
        r += [(f"/c{i}", ["0"]) for i in range(shape["post"])]
        return r
    if kind == "loop":
        its = [f"0.{i}" for i in range(shape["iters"])]
        return ([(f"/a{i}", ["0"]) for i in range(shape["pre"])] + [("/body", its), ("/cnt", its)]
                + [(f"/c{i}", ["0"]) for i in range(shape["post"])])
    if kind == "diamond":
        return [("/root", ["0"])] + [(f"/br{i}", ["0"]) for i in range(shape["branches"])] + [("/join", ["0"])]
    raise ValueError(kind)




def dag_of(shape):
    """The unfolded job DAG of a shape for the Coq model: list of (job name | None, [input indexes], op term).
    Index 0 is the workflow input (never lost, never fails)."""
    kind, fil = shape["kind"], shape["type"] in ("file", "file2")

    def q(s):
        return '"' + s + '"'

    def one(label):
        return f"OCat {q(label)}" if fil else f"OInc {len(label)}"

    d = [(None, [], 'OConstS "seed"' if fil else "OConstN 3")]
    if kind == "pipeline":
        for i in range(shape["n"]):
            d.append((f"/s{i}/0", [len(d) - 1], one(f"s{i}")))
        return d
    if kind == "scatter":
        w = shape["width"]
        for i in range(shape["pre"]):
            d.append((f"/a{i}/0", [len(d) - 1], one(f"a{i}")))
        d.append(("/sp/0", [len(d) - 1], f"OSplit {w}" if fil else f"OSplitN {w}"))
        sp = len(d) - 1
        prev = []
        for i in range(shape["depth"]):
            cur = []
            for j in range(w):
                if i == 0:
                    d.append((f"/b0/0.{j}", [sp], f"OElemCat {j} {q('b0')}" if fil else f"OElemInc {j} 2"))
                else:
                    d.append((f"/b{i}/0.{j}", [prev[j]], one(f"b{i}")))
                cur.append(len(d) - 1)
            prev = cur
        d.append(("/g/0", prev, f"OJoin {q('g')}" if fil else "OSum 1"))
        for i in range(shape["post"]):
            d.append((f"/c{i}/0", [len(d) - 1], one(f"c{i}")))
        return d
    if kind == "loop":
        for i in range(shape["pre"]):
            d.append((f"/a{i}/0", [len(d) - 1], one(f"a{i}")))
        x = len(d) - 1
        d.append((None, [], "OConstN 0"))          # the counter's initial value: a workflow input
        cnt = len(d) - 1
        for it in range(shape["iters"]):
            d.append((f"/body/0.{it}", [x], one("body")))
            x = len(d) - 1
            d.append((f"/cnt/0.{it}", [cnt], "OSucc"))
            cnt = len(d) - 1
        for i in range(shape["post"]):
            d.append((f"/c{i}/0", [x], one(f"c{i}")))
            x = len(d) - 1
        return d, x
    if kind == "diamond":
        d.append(("/root/0", [0], one("root")))
        brs = []
        for i in range(shape["branches"]):
            d.append((f"/br{i}/0", [1], one(f"br{i}")))
            brs.append(len(d) - 1)
        d.append(("/join/0", brs, one("join")))
        return d
    raise ValueError(kind)


def dag_out(shape):
    """(dag, index of the output job, indexes of the jobs whose output is a file when the data type is file)"""
    r = dag_of(shape)
    d, out = r if isinstance(r, tuple) else (r, len(r) - 1)
    vol = [i for i, (name, _, op) in enumerate(d) if name and not op.startswith(("OSucc", "OConst"))]
    return d, out, vol


def predict_demand(case):
    """The re-executions the fault plan DEMANDS of every job under the canonical rollback of the model (Recovery/Model.v
    `ensure`: the failed job and, recursively, the producers of its unavailable inputs), computed without StreamFlow:
    {job name: number of rollbacks that re-execute it}.  This is the `demand` of C16_completes_partial
    (Recovery/Budget.v); the budget hypothesis of that theorem is  1 + demand[j] <= limit  for every job j.
    Jobs are taken in topological order, one at a time (the generator puts no faults on concurrent jobs when data can be
    lost); a job's phases fail in the order schedule, transfer, execute, each for its first `count` attempts; a job whose
    input is unavailable when it starts fails organically once (in its transfer)."""
    shape = case["shape"]
    d, _out, vol = dag_out(shape)
    volatile = set(vol) if shape["type"] in ("file", "file2") else set()
    idx = {name: i for i, (name, _, _) in enumerate(d) if name}
    plan = {}
    for st, tag, phase, kind, cnt in case.get("faults", []):
        plan.setdefault(f"{st}/{tag}", []).append([("schedule", "transfer", "execute").index(phase), kind, cnt])
    avail = {i for i, (name, _, _) in enumerate(d) if name is None}
    demand = {name: 0 for name in idx}

    def closure(i, acc):
        for k in d[i][1]:
            if k not in avail and k not in acc:
                closure(k, acc)
        if d[i][0] is not None and i not in acc:
            acc.append(i)
        return acc

    def rollback(i):
        for j in closure(i, []):
            demand[d[j][0]] += 1
            if j != i:
                avail.add(j)

    for i, (name, ins, _op) in enumerate(d):
        if name is None:
            continue
        faults = sorted(plan.get(name, []))
        for f in faults:
            while f[2] > 0:
                if any(k not in avail for k in ins):        # organic failure first: an input is gone
                    rollback(i)
                    continue
                f[2] -= 1
                if f[1] == "failstop" or (f[1] == "partial" and shape["type"] == "file2"):
                    avail.difference_update(volatile)
                rollback(i)
        while any(k not in avail for k in ins):
            rollback(i)
        avail.add(i)
    return demand
