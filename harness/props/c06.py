"""C06 — Loops emit the last/all iteration values in iteration order, for any count."""
import json
import random
import re

from harness.lib.framework import Prop, coq_list, coq_opt, coq_str
from harness.lib.looputil import permute_ready

TAG = re.compile(r"^(0|[1-9][0-9]*)(\.(0|[1-9][0-9]*))*$")
STATUS = {"SKIPPED": "Skipped", "COMPLETED": "Completed", "FAILED": "Failed", "CANCELLED": "Cancelled",
          "RECOVERED": "Recovered"}

CWL = """cwlVersion: v1.2
class: Workflow
$namespaces:
  cwltool: "http://commonwl.org/cwltool#"
requirements:
  InlineJavascriptRequirement: {}
  ScatterFeatureRequirement: {}
  SubworkflowFeatureRequirement: {}
inputs:
  i1: %(itype)s
  lim: int
outputs:
  o1:
    type: Any
    outputSource: %(src)s/o1
steps:
%(steps)s
"""
LOOPSTEP = """sub:
  run:
    class: ExpressionTool
    inputs:
      i1: int
      lim: int
    outputs:
      o1: int
    expression: >
      ${return {'o1': inputs.i1 + 1};}
  in:
    i1: i1
    lim: lim
  out: [o1]
  requirements:
    cwltool:Loop:
      loopWhen: $(inputs.i1 < inputs.lim)
      loop:
        i1: o1
      outputMethod: %(method)s
"""
LOOPSTEP2 = """sub:
  run:
    class: ExpressionTool
    inputs:
      i1: int
      acc: int
      lim: int
    outputs:
      o1: int
      o2: int
    expression: >
      ${return {'o1': inputs.i1 + 1, 'o2': inputs.acc + inputs.i1};}
  in:
    i1: i1
    acc: lim
    lim: lim
  out: [o1, o2]
  requirements:
    cwltool:Loop:
      loopWhen: $(inputs.i1 < inputs.lim)
      loop:
        i1: o1
        acc: o2
      outputMethod: %(method)s
"""
SKIPIN = """cwlVersion: v1.2
class: Workflow
$namespaces:
  cwltool: "http://commonwl.org/cwltool#"
requirements:
  InlineJavascriptRequirement: {}
inputs:
  i1: int
  lim: int
outputs:
  o1:
    type: Any
    outputSource: sub/o1
steps:
  pre:
    run:
      class: ExpressionTool
      inputs:
        x: int
      outputs:
        y: int?
      expression: >
        ${return {'y': inputs.x};}
    when: $(inputs.x > 100000)
    in:
      x: i1
    out: [y]
  sub:
    run:
      class: ExpressionTool
      inputs:
        i1: int
        lim: int
        extra: int?
      outputs:
        o1: int
      expression: >
        ${return {'o1': inputs.i1 + 1};}
    in:
      i1: i1
      lim: lim
      extra: pre/y
    out: [o1]
    requirements:
      cwltool:Loop:
        loopWhen: $(inputs.i1 < inputs.lim)
        loop:
          i1: o1
        outputMethod: %(method)s
"""
SCATTER = """scatter:
  run:
    class: Workflow
    inputs:
      i1: int
      lim: int
    outputs:
      o1:
        type: Any
        outputSource: sub/o1
    steps:
%(inner)s
  in:
    i1: i1
    lim: lim
  scatter: i1
  out: [o1]
"""


def indent(s, n):
    return "\n".join((" " * n + l if l else l) for l in s.splitlines())


def coq_tok(c):
    if c[0] == "L":
        return f"(ListTok {coq_str(c[1])} {coq_list([coq_tok(x) for x in c[2]])})"
    return f"(Tok {coq_str(c[1])} {coq_str(c[2])})"


def coq_larr(a):
    if a[0] == "E":
        return f"(LTok {coq_tok(a[1])})"
    if a[0] == "I":
        return f"(LIter {coq_str(a[1])})"
    return f"(LTerm {STATUS[a[1]]})"


def coq_tag(t):
    return "[" + ";".join(t.split(".")) + "]%N"


def coq_atok(a):
    if a[0] == "E":
        return f"(AT {coq_tag(a[1])})"
    if a[0] == "I":
        return f"(AI {coq_tag(a[1])})"
    return "ATerm"


def step_arrivals(c):
    """the arrival list of a 'step' case: every body token p.i and IterationTermination p.k, shuffled; then Term"""
    arr = []
    for ins in c["insts"]:
        for i in range(ins["k"]):
            arr.append(["E", ["T", f"{ins['p']}.{i}", json.dumps(ins["base"] + i)]])
        arr.append(["I", f"{ins['p']}.{ins['k']}"])
    if c["order"] == 1:
        arr.reverse()
    elif c["order"] != 0:
        random.Random(c["order"]).shuffle(arr)
    return arr + [["T", "COMPLETED"]]


class C06(Prop):
    ID = "C06"
    PROPS_FILE = "Props/C06.v"
    CORR_MODULE = "Loop.Corr"
    MAX_WORKERS = 8
    COQ_SHARD = 60
    CASE_TIMEOUT = 300
    SHARD_TIMEOUT = 2400
    LEVEL_TEXT = (
        "Theorems (Coq, closed under the global context). (1) Loop output step, model of LoopOutputStep.run with the CWL "
        "all/last policies: for any set of loop instances (distinct prefixes), any iteration counts (0 and >= 10 included) "
        "and ANY arrival order of the iteration tokens p.0..p.(k-1) and the iteration-termination token p.k before the "
        "first termination token, the step emits exactly one token per instance, tagged p: the values in iteration order "
        "(all) / the value of iteration k-1 or null (last), and terminates at the termination token (C06_step, _all, "
        "_last). (2) Wiring: the sub-network the translator builds (input forwarder, LoopCombinatorStep with its "
        "iteration_termination_checklist and LoopCombinator counters, loop-when step with skip port, body, output and "
        "back-propagation forwarders, loop output step, loop-terminator with LoopTerminationCombinator) as an "
        "interleaving transition system over FIFO ports: in EVERY reachable state, for every loop condition and every "
        "behaviour of the loop output step, a termination token has reached (or is on its way to) the loop output step "
        "only if that step has already emitted an output for every instance (C06_no_early_exit; invariant proof over the "
        "seven moves). (2') End to end (C06_loop_network): that wiring with the loop output step instantiated by the model "
        "of CWLLoopOutput{All,Last}Step.run, a deterministic body and any loop condition: in every reachable state, until "
        "the loop output step has taken a termination token it has not terminated, and once it has, every instance p ran "
        "exactly k_p iterations (k_p = first index where the condition is false; 0 and >= 10 included) and the step has "
        "emitted exactly one token per instance with the iteration values in order (all) / the last or null (last), then "
        "terminated (second invariant: per-instance phase + exact multiset of tokens sent towards the loop output step). "
        "(2'') The same two theorems for a loop with k >= 1 input variables and m outputs (C06_no_early_exit_k, "
        "C06_loop_network_k: one output per instance PER OUTPUT VARIABLE, values in iteration order / last, then termination), "
        "by projecting the k x m network on each (input, output) pair (C06_projection_k). C06_all_dict_keys / C06_no_early_exit_refuted record that the step alone does NOT have this "
        "property (all(self.termination_map) tests the dict's keys): it is the wiring that provides it. (3) The "
        "combinator numbers the iterations of each instance 0,1,2,... (C06_iteration_tags). Models are tied to /repo by "
        "driving the real CWLLoopOutput*Step, LoopCombinatorStep, LoopCombinator and CWLLoopConditionalStep token by "
        "token and comparing with vm_compute, plus whole CWL loop workflows judged by an oracle from the property text.")
    LEVEL_NOTE = (
        "k input variables and m outputs (C06_loop_network_k, C06_no_early_exit_k, any k >= 1): Loop/NetK.v is the k x m "
        "network (k-port LoopCombinatorStep with per-port checklists and the dot-product join, lock-step loop-when, k "
        "back-propagation and m output forwarders, m loop output steps, the terminator's join over the m outputs); every "
        "(input, output) projection is proved to move by the moves of Loop/NetG.v, for which both invariants are re-proved. "
        "Statuses: the network models COMPLETED and SKIPPED termination tokens (ATerm), the two statuses on which the "
        "combinator step KEEPS its checklist (repo fix 754238f); FAILED, CANCELLED and RECOVERED (what InterWorkflowPort puts "
        "on the ports of a recovery workflow) clear it, so that port is not read again: that path is modelled at step level "
        "only (CombK.ckx_run, tied by cstep/ckstep cases with such tokens) and is outside the network theorems. The step and "
        "network theorems state the loop output step's final status as a function of the status [tst] the termination token "
        "carries -- COMPLETED, or SKIPPED, which is what the real engine delivers when no instance iterates (the loop-when step "
        "puts nothing on its output ports), observed on the engine and recorded in C06_loop_network_k_nonvacuous -- but which "
        "of the two the wiring delivers is not derived in the model. Before the fixes recorded in known/C06.txt the "
        "combinator step cleared its checklist on SKIPPED too, and a loop with an input coming from a skipped conditional "
        "step hung. Other scope limits: "
        "a body and forwarders emitting one token per token with the same tag, a deterministic body, instances of equal tag "
        "depth, loop variables that all enter the combinator (valueFrom/default transformers on loop inputs not modelled). "
        "Tied to the code by correspondence: loop output steps, LoopCombinatorStep with 1, 2 and 3 ports, LoopCombinator "
        "counters, the loop-when step with one and two input ports (lock step); the forwarders, the body "
        "and LoopTerminationCombinator are modelled from reading the code and exercised only by whole-loop runs (one and "
        "two loop variables). Trusted: Coq kernel + vm_compute; hand-written Loop/Model.v, Net.v, NetG.v, NetK.v, CombK.v; "
        "sorted() modelled as stable insertion sort; JS evaluation, body execution and asyncio are exercised, not modelled.")
    TECHNIQUE = ("Coq proof (projection on one loop instance, closed form on incomplete prefixes, uniqueness of sorted "
                 "permutations) + vm_compute correspondence against the real steps + whole-loop CWL runs judged by the oracle")
    RULE = ("step: 1..4 instances (prefixes of depth 1..3), counts 0..15 (bias 0,1,9..12), all/last, iteration tokens and "
            "iteration-termination tokens in a seeded shuffle, then the termination token; early/raw: termination token "
            "before completion, duplicated or missing iteration-termination tokens, single-component tags, several "
            "statuses (model fidelity only); retag: real LoopCombinator fed interleaved instances and iterations; cstep: real LoopCombinatorStep fed "
            "interleaved instance / looped-back / iteration-termination tokens with the termination token early or late, "
            "well-formed or with junk, termination tokens COMPLETED / SKIPPED (checklist kept) and RECOVERED / FAILED / CANCELLED "
            "(checklist cleared: the port is not read again); when: real CWLLoopConditionalStep with a JS condition, output vs skip port; ckstep: real LoopCombinatorStep with 2 or 3 "
            "input ports (k loop variables) fed interleaved per-port sequences; when2: real CWLLoopConditionalStep with two "
            "input ports fed the same tag sequence in arbitrary interleavings (one token from each port per turn); wf: CWL "
            "workflows (loop inside scatter or plain loop, ExpressionTool body, one or two back-propagated loop variables) run by the real engine. Non-trivial = a "
            "count >= 10 or 0, or >= 2 instances, or a non-identity order; every wf case. Distinct = distinct canonical JSON.")
    TRUSTED = ("models: Loop/Model.v (LoopOutputStep.run, CWLLoopOutputAllStep/LastStep._process_output, "
               "LoopCombinator._product counters) and Loop/Net.v (LoopCombinatorStep.run, CWLLoopConditionalStep, "
               "LoopTerminationCombinator, ForwardTransformers, terminate()) are hand-written; the last three and the "
               "port topology are tied to the code only by reading cwl/translator.py and by whole-loop runs",)
    ASSUMPTIONS = ("termination tokens carry COMPLETED; the body emits one token per input tuple and output, with the same tag; "
                   "all instances of a loop have the same tag depth; every loop variable enters the combinator directly",
                   "tags are well-formed dotted decimals; the body is deterministic")

    # ---------------------------------------------------------------- generation
    def _count(self, rng):
        r = rng.random()
        if r < 0.5:
            return rng.choice([0, 0, 1, 2, 9, 10, 11, 12])
        return rng.randrange(0, 16)

    def _prefix(self, rng, depth):
        return ".".join(["0"] + [str(rng.choice([0, 1, 2, 3, 9, 10, 11])) for _ in range(depth - 1)])

    def _seed(self, rng):
        r = rng.random()
        return 0 if r < 0.1 else 1 if r < 0.2 else rng.randrange(2, 10**9)

    def gen(self, rng, tier):
        n = {"quick": 220, "thorough": 1200, "extended": 700}[tier]
        nwf = {"quick": 6, "thorough": 30, "extended": 10}[tier]
        cases = []
        for _ in range(n):
            r = rng.random()
            if r < 0.55:
                depth = rng.choice([1, 2, 2, 3])
                ps = []
                for _ in range(1 if depth == 1 else rng.randrange(1, 5)):
                    p = self._prefix(rng, depth)
                    if p not in ps:
                        ps.append(p)
                cases.append({"f": "step", "pol": rng.choice(["all", "last"]),
                              "insts": [{"p": p, "k": self._count(rng), "base": rng.randrange(0, 1000)} for p in ps],
                              "order": self._seed(rng)})
            elif r < 0.8:
                cases.append(self._raw(rng))
            elif r < 0.9:
                cases.append(self._retag(rng))
            elif r < 0.95:
                cases.append(self._cstep(rng))
            else:
                cases.append(self._ckstep(rng))
        for _ in range({"quick": 8, "thorough": 40, "extended": 12}[tier]):
            k = rng.randrange(0, 6)
            cases.append({"f": "when", "lim": rng.choice([0, 2, 5]),
                          "toks": [[self._prefix(rng, 2) + "." + str(i), rng.randrange(0, 8)] for i in range(k)]})
        for _ in range({"quick": 6, "thorough": 30, "extended": 8}[tier]):
            n = rng.randrange(0, 5)
            toks = [[self._prefix(rng, 2) + "." + str(i), rng.randrange(0, 8)] for i in range(n)]
            order = [p for p in (0, 1) for _ in range(n + 1)]      # n tokens and one termination token per port
            rng.shuffle(order)
            cases.append({"f": "when2", "lim": rng.choice([0, 2, 5]), "toks": toks, "order": order})
        for _ in range(nwf):
            scat = rng.random() < 0.75
            lim = rng.choice([3, 10, 11, 13, 15])
            starts = [max(0, lim - self._count(rng)) if rng.random() < 0.8 else lim + rng.randrange(0, 3)
                      for _ in range(rng.randrange(1, 5) if scat else 1)]
            cases.append({"f": "wf", "method": rng.choice(["all", "last"]), "scatter": scat, "starts": starts,
                          "lim": lim, "sched": rng.randrange(0, 10**6), "vars": rng.choice([1, 1, 2])})
        # a loop one of whose inputs comes from a SKIPPED conditional step (data followed by TerminationToken(SKIPPED))
        for _ in range({"quick": 2, "thorough": 6, "extended": 3}[tier]):
            lim = rng.choice([1, 3, 11])
            cases.append({"f": "wf", "method": rng.choice(["all", "last"]), "scatter": False,
                          "starts": [max(0, lim - self._count(rng))], "lim": lim, "sched": rng.randrange(0, 10**6),
                          "vars": 1, "skipin": True})
        return cases

    def _raw(self, rng):
        depth = rng.choice([1, 2, 2, 3])
        arr = []
        uid = 0
        for _ in range(rng.randrange(1, 4)):
            p = self._prefix(rng, depth) if rng.random() < 0.9 else ""
            k = rng.choice([0, 1, 2, 3, 11])
            for i in range(k):
                uid += 1
                idx = i if rng.random() < 0.85 else rng.randrange(0, k)
                arr.append(["E", ["T", (p + "." if p else "") + str(idx), str(uid)]])
            r = rng.random()
            if r < 0.6:
                arr.append(["I", (p + "." if p else "") + str(k)])
            elif r < 0.8:
                arr.append(["I", (p + "." if p else "") + str(max(0, k + rng.choice([-1, 1, 2])))])
            elif r < 0.9:
                arr.append(["I", (p + "." if p else "") + str(k)])
                arr.append(["I", (p + "." if p else "") + str(k)])
        rng.shuffle(arr)
        sts = ["COMPLETED"] * 6 + ["SKIPPED", "FAILED", "CANCELLED", "RECOVERED"]
        r = rng.random()
        if r < 0.5:
            arr.append(["T", rng.choice(sts)])
        elif r < 0.9:
            arr.insert(rng.randrange(0, len(arr) + 1), ["T", rng.choice(sts)])
            if rng.random() < 0.5:
                arr.append(["T", rng.choice(sts)])
        return {"f": "raw", "pol": rng.choice(["all", "last"]), "arr": arr}

    CLEARING = ("FAILED", "CANCELLED", "RECOVERED")     # statuses on which the combinator step clears the checklist

    def _term(self, rng):
        """a termination-token entry: COMPLETED mostly, SKIPPED (keeps the checklist), sometimes RECOVERED / FAILED /
        CANCELLED (clear it: the port is not read again)"""
        r = rng.random()
        if r < 0.5:
            return ["T"]
        if r < 0.75:
            return ["T", "SKIPPED"]
        if r < 0.92:
            return ["T", "RECOVERED"]
        return ["T", rng.choice(["FAILED", "CANCELLED"])]

    def _cstep(self, rng):
        """tokens reaching the LoopCombinatorStep: per instance p the token p, the looped-back tokens p.0 .. p.(k-1),
        then IterationTermination(p); instances interleaved; the external termination token somewhere after the
        last instance token (well-formed) or anywhere, plus junk (not well-formed)"""
        depth = rng.choice([1, 2, 2, 3])
        ps = []
        for _ in range(1 if depth == 1 else rng.randrange(1, 5)):
            p = self._prefix(rng, depth)
            if p not in ps:
                ps.append(p)
        seqs = [[["E", p]] + [["E", f"{p}.{i}"] for i in range(rng.choice([0, 0, 1, 2, 3, 11]))] + [["I", p]] for p in ps]
        wf = rng.random() < 0.7
        firsts_left = len(seqs)
        arr, term_put = [], False
        while any(seqs):
            if firsts_left == 0 and not term_put and rng.random() < 0.3:
                arr.append(self._term(rng))
                term_put = True
                continue
            s = rng.choice([s for s in seqs if s])
            if len(s) >= 2 and s[0][1] in ps and s[0][0] == "E" and all(s[0][1] != x[1] for x in arr):
                firsts_left -= 1
            arr.append(s.pop(0))
        if not term_put and (wf or rng.random() < 0.7):
            arr.append(self._term(rng))
        if not wf:
            for _ in range(rng.randrange(1, 4)):
                junk = rng.choice([["I", self._prefix(rng, depth)], ["E", self._prefix(rng, depth) + ".0"], ["T"],
                                   ["I", rng.choice(ps) + ".0"]])
                arr.insert(rng.randrange(0, len(arr) + 1), junk)
        return {"f": "cstep", "arr": arr, "wf": wf, "insts": ps}

    def _ckstep(self, rng):
        """k loop variables: every port gets, per instance p, the token p, the looped-back tokens p.0 .. p.(c-1) and
        IterationTermination(p); ports and instances interleaved at random; termination tokens per port; some junk"""
        k = rng.choice([2, 2, 3])
        depth = rng.choice([1, 2, 2])
        ps = []
        for _ in range(1 if depth == 1 else rng.randrange(1, 4)):
            p = self._prefix(rng, depth)
            if p not in ps:
                ps.append(p)
        counts = {p: rng.choice([0, 1, 2, 3]) for p in ps}
        seqs = []
        for i in range(k):
            per_inst = [[["E", p]] + [["E", f"{p}.{j}"] for j in range(counts[p])] + [["I", p]] for p in ps]
            port = []
            while any(per_inst):
                q = rng.choice([q for q in per_inst if q])
                port.append(q.pop(0))
            port.insert(rng.randrange(len(ps), len(port) + 1), self._term(rng))
            if rng.random() < 0.25:
                port.insert(rng.randrange(0, len(port) + 1), rng.choice([["I", self._prefix(rng, depth)], ["T"],
                                                                       ["E", rng.choice(ps) + ".0"]]))
            if rng.random() < 0.15:
                port.pop(rng.randrange(0, len(port)))
            seqs.append([[i] + a for a in port])
        arr = []
        while any(seqs):
            q = rng.choice([q for q in seqs if q])
            arr.append(q.pop(0))
        return {"f": "ckstep", "k": k, "arr": arr}

    def _retag(self, rng):
        """tags carried by the tokens reaching the loop combinator: each instance p first, then p.0, p.1, ...
        (the body keeps the iteration tag); instances interleaved at random"""
        depth = rng.choice([1, 2, 3])
        ps = []
        for _ in range(1 if depth == 1 else rng.randrange(1, 5)):
            p = self._prefix(rng, depth)
            if p not in ps:
                ps.append(p)
        seqs = [[p] + [f"{p}.{i}" for i in range(self._count(rng))] for p in ps]
        tags = []
        while any(seqs):
            s = rng.choice([s for s in seqs if s])
            tags.append(s.pop(0))
        return {"f": "retag", "tags": tags}

    # ---------------------------------------------------------------- implementation
    def impl_init(self):
        from harness.props import _stepdrive

        self.sd = _stepdrive
        self.e = _stepdrive.make_env()
        from streamflow.core.workflow import Status
        from streamflow.cwl.step import CWLLoopOutputAllStep, CWLLoopOutputLastStep
        from streamflow.workflow.combinator import LoopCombinator

        self.Status, self.All, self.Last, self.LoopCombinator = Status, CWLLoopOutputAllStep, CWLLoopOutputLastStep, LoopCombinator
        from streamflow.cwl.step import CWLLoopConditionalStep
        from streamflow.workflow.step import LoopCombinatorStep

        self.LoopCombinatorStep, self.When = LoopCombinatorStep, CWLLoopConditionalStep

    async def _loop_step(self, pol, arr):
        e, sd = self.e, self.sd
        ctx = e.build_context()
        try:
            wf = e.Workflow(ctx, config={}, name="w")
            inp, out = wf.create_port(e.ObsPort), wf.create_port()
            st = wf.create_step(self.All if pol == "all" else self.Last, name="/s/o-loop-output")
            st.add_input_port("o", inp)
            st.add_output_port("o", out)
            await wf.save(ctx.database)
            feed = []
            for a in arr:
                if a[0] == "E":
                    feed.append(("o", e.Token(json.loads(a[1][2]), tag=a[1][1])))
                elif a[0] == "I":
                    feed.append(("o", e.IterationTerminationToken(a[1])))
                else:
                    feed.append(("o", e.TerminationToken(self.Status[a[1]])))
            # a port delivers tokens after a termination token too (nothing closes it), so does the driver
            inp_feed = inp.feed

            def feed_keep_open(tok):
                inp_feed(tok)
                inp.terminated = False
            inp.feed = feed_keep_open
            used = []
            try:
                finished = await sd.drive(st, {"o": inp}, feed, lambda pn, tok: used.append(1))
                err = None
            except Exception as ex:
                finished, err = False, type(ex).__name__
            outs = [sd.canon_tok(e, x) for x in out.token_list if not isinstance(x, e.TerminationToken)]
            terms = [x.value.name for x in out.token_list if isinstance(x, e.TerminationToken)]
            o = {"out": outs, "terms": terms, "status": st.status.name if finished else None, "fed": len(used)}
            if err:
                o["err"] = err
            return o
        finally:
            await ctx.close()

    def _canon(self, port):
        e = self.e
        out = []
        for x in port.token_list:
            if isinstance(x, e.TerminationToken):
                out.append(["T", x.value.name])
            elif isinstance(x, e.IterationTerminationToken):
                out.append(["I", x.tag])
            else:
                out.append(["E", x.tag])
        return out

    async def _comb_step(self, arr):
        e, sd = self.e, self.sd
        ctx = e.build_context()
        try:
            wf = e.Workflow(ctx, config={}, name="w")
            inp, out = wf.create_port(e.ObsPort), wf.create_port()
            comb = self.LoopCombinator(name="/s-loop-combinator", workflow=wf)
            comb.add_item("x")
            st = wf.create_step(self.LoopCombinatorStep, name="/s-loop-combinator", combinator=comb)
            st.add_input_port("x", inp)
            st.add_output_port("x", out)
            await wf.save(ctx.database)
            feed = []
            for a in arr:
                tok = e.Token(0, tag=a[1]) if a[0] == "E" else e.IterationTerminationToken(a[1]) if a[0] == "I" \
                    else e.TerminationToken(self.Status[a[1]] if len(a) > 1 else self.Status.COMPLETED)
                if a[0] == "E":
                    await tok.save(ctx.database)
                feed.append(("x", tok))
            inp_feed = inp.feed

            def feed_keep_open(tok):        # the step keeps reading after a termination token while its checklist is not empty
                inp_feed(tok)
                inp.terminated = False
            inp.feed = feed_keep_open
            used = []
            try:
                finished = await sd.drive(st, {"x": inp}, feed, lambda pn, tok: used.append(1))
                err = None
            except Exception as ex:
                finished, err = False, type(ex).__name__
            o = {"out": self._canon(out), "fin": finished, "fed": len(used)}
            if err:
                o["err"] = err
            return o
        finally:
            await ctx.close()

    async def _comb_k(self, c):
        e, sd = self.e, self.sd
        ctx = e.build_context()
        try:
            k = c["k"]
            wf = e.Workflow(ctx, config={}, name="w")
            ins = {f"x{i}": wf.create_port(e.ObsPort) for i in range(k)}
            outs = {f"x{i}": wf.create_port() for i in range(k)}
            comb = self.LoopCombinator(name="/s-loop-combinator", workflow=wf)
            for n in ins:
                comb.add_item(n)
            st = wf.create_step(self.LoopCombinatorStep, name="/s-loop-combinator", combinator=comb)
            for n in ins:
                st.add_input_port(n, ins[n])
                st.add_output_port(n, outs[n])
            await wf.save(ctx.database)
            feed = []
            for i, kind, *rest in c["arr"]:
                tok = e.Token(0, tag=rest[0]) if kind == "E" else e.IterationTerminationToken(rest[0]) if kind == "I" \
                    else e.TerminationToken(self.Status[rest[0]] if rest else self.Status.COMPLETED)
                if kind == "E":
                    await tok.save(ctx.database)
                feed.append((f"x{i}", tok))
            for port in ins.values():          # a port keeps being read after its termination token while its checklist is not empty
                def keep_open(tok, port=port, orig=port.feed):
                    orig(tok)
                    port.terminated = False
                port.feed = keep_open
            fed = []
            # structural quiescence with ports that are not re-armed: the step awaits only inside _persist_token while it
            # processes a token; blocked with none in flight = back in asyncio.wait (or terminating)
            inflight = [0]
            orig_persist = st._persist_token

            async def counted_persist(*a, **kw):
                inflight[0] += 1
                try:
                    return await orig_persist(*a, **kw)
                finally:
                    inflight[0] -= 1
            st._persist_token = counted_persist
            try:
                # a port the step no longer reads swallows nothing: stop feeding it (the model ignores it too)
                finished = await self._drive_k(st, ins, feed, fed, inflight)
                err = None
            except Exception as ex:
                finished, err = False, type(ex).__name__
            o = {"outs": [self._canon(outs[f"x{i}"]) for i in range(k)], "fin": finished, "fed": fed}
            if err:
                o["err"] = err
            return o
        finally:
            await ctx.close()

    async def _drive_k(self, st, ins, feed, fed, inflight):
        """like _stepdrive.drive, but a token for a port that is no longer being read is skipped"""
        import asyncio

        sd = self.sd
        task = asyncio.ensure_future(st.run())
        await sd.until(lambda: task.done() or (all(p.waiting == 1 for p in ins.values()) and sd._blocked(task)))
        for idx, (pn, tok) in enumerate(feed):
            if task.done():
                break
            p = ins[pn]
            if p.waiting != 1:          # the step does not read this port any more
                continue
            w0 = task._fut_waiter
            p.feed(tok)
            cond = lambda: task.done() or (
                w0.done() and p.delivered == p.nput and sd._blocked(task) and inflight[0] == 0)
            await sd.until(cond)
            # a reader the step re-armed with create_task starts at the next turn of the (FIFO) ready queue:
            # let that turn pass before looking at port.waiting
            await asyncio.sleep(0)
            await asyncio.sleep(0)
            await sd.until(cond)
            fed.append(idx)
        if not task.done() and not any(q.waiting == 1 for q in ins.values()):
            await task                  # no port is read any more: run() is on its way out
        if task.done():
            task.result()
            return True
        task.cancel()
        try:
            await task
        except asyncio.CancelledError:
            pass
        for t in asyncio.all_tasks():
            if t is not asyncio.current_task() and not t.done():
                t.cancel()
        return False

    async def _when_step(self, c):
        e, sd = self.e, self.sd
        ctx = e.build_context()
        try:
            wf = e.Workflow(ctx, config={}, name="w")
            inp, outd, oute = wf.create_port(e.ObsPort), wf.create_port(), wf.create_port()
            st = wf.create_step(self.When, name="/s-loop-when", expression=f"$(inputs.x < {c['lim']})", full_js=True)
            st.add_input_port("x", inp)
            st.add_output_port("x", outd)
            st.add_skip_port("o", oute)
            await wf.save(ctx.database)
            feed = [("x", e.Token(v, tag=t)) for t, v in c["toks"]] + [("x", e.TerminationToken())]
            for _, tok in feed[:-1]:
                await tok.save(ctx.database)
            try:
                finished = await sd.drive(st, {"x": inp}, feed)
                err = None
            except Exception as ex:
                finished, err = False, type(ex).__name__
            o = {"D": self._canon(outd), "E": self._canon(oute), "fin": finished, "status": st.status.name}
            if err:
                o["err"] = err
            return o
        finally:
            await ctx.close()

    async def _when2_step(self, c):
        """two loop variables x, y: the same tag sequence on both input ports, interleaved as c['order'] says"""
        import asyncio

        e, sd = self.e, self.sd
        ctx = e.build_context()
        try:
            wf = e.Workflow(ctx, config={}, name="w")
            ins = {n: wf.create_port(e.ObsPort) for n in ("x", "y")}
            outs = {n: wf.create_port() for n in ("x", "y")}
            oute = wf.create_port()
            st = wf.create_step(self.When, name="/s-loop-when", expression=f"$(inputs.x < {c['lim']})", full_js=True)
            for n in ins:
                st.add_input_port(n, ins[n])
                st.add_output_port(n, outs[n])
            st.add_skip_port("o", oute)
            await wf.save(ctx.database)
            seqs = {}
            for n in ins:
                seqs[n] = [e.Token(v, tag=t) for t, v in c["toks"]] + [e.TerminationToken()]
                for tok in seqs[n][:-1]:
                    await tok.save(ctx.database)
            task = asyncio.ensure_future(st.run())
            ports = list(ins.values())

            def quiet():
                # the step is blocked waiting on a port that has nothing to deliver (a token already put on ANOTHER port
                # stays in its queue until the step asks that port again: one token from each port per turn)
                return task.done() or (sd._blocked(task)
                                       and any(p.waiting == 1 and p.delivered == p.nput for p in ports))
            await sd.until(quiet)
            err = None
            try:
                for which in c["order"]:
                    if task.done():
                        break
                    n = "xy"[which]
                    if not seqs[n]:
                        continue
                    ins[n].feed(seqs[n].pop(0))
                    await sd.until(quiet)
                    await asyncio.sleep(0)
                    await asyncio.sleep(0)
                    await sd.until(quiet)
                if not task.done():
                    await asyncio.wait_for(task, 60)
                task.result()
            except Exception as ex:
                err = type(ex).__name__
            o = {"Dx": self._canon(outs["x"]), "Dy": self._canon(outs["y"]), "E": self._canon(oute),
                 "fin": task.done(), "status": st.status.name}
            if err:
                o["err"] = err
            return o
        finally:
            await ctx.close()

    async def _retag_run(self, tags):
        e = self.e
        comb = self.LoopCombinator("c", None)
        comb.add_item("x")
        out = []
        for t in tags:
            async for schema in comb.combine("x", e.Token(0, tag=t)):
                out.append(schema["x"]["token"].tag)
        return {"out": out}

    def _wf_run(self, c):
        import asyncio
        import io
        import os
        import shutil
        import sys
        import tempfile

        from streamflow.cwl.runner import main

        d = tempfile.mkdtemp(prefix="sfv-c06-", dir="/var/tmp")
        cwd = os.getcwd()
        try:
            if c.get("skipin"):
                open(os.path.join(d, "wf.cwl"), "w").write(SKIPIN % {"method": c["method"]})
            two = c.get("vars", 1) == 2       # two loop variables (i1 and an accumulator), output = the accumulator
            loop = (LOOPSTEP2 if two else LOOPSTEP) % {"method": c["method"]}
            if two:
                loop = loop  # the accumulator starts at lim and adds i1 at every iteration
            if c["scatter"]:
                steps = SCATTER % {"inner": indent(loop, 6)}
                if two:
                    steps = steps.replace("outputSource: sub/o1", "outputSource: sub/o2")
                text = CWL % {"itype": "int[]", "src": "scatter", "steps": indent(steps, 2)}
                job = {"i1": c["starts"], "lim": c["lim"]}
            else:
                text = CWL % {"itype": "int", "src": "sub", "steps": indent(loop, 2)}
                if two:
                    text = text.replace("outputSource: sub/o1", "outputSource: sub/o2")
                job = {"i1": c["starts"][0], "lim": c["lim"]}
            if not c.get("skipin"):
                open(os.path.join(d, "wf.cwl"), "w").write(text)
            json.dump(job, open(os.path.join(d, "job.json"), "w"))
            open(os.path.join(d, "streamflow.yml"), "w").write(
                'version: v1.0\nworkflows:\n  w:\n    type: cwl\n    config:\n      file: wf.cwl\n      settings: job.json\n'
                'database:\n  type: default\n  config:\n    connection: ":memory:"\n')
            os.chdir(d)
            # seeded schedule: the ready callbacks of every event-loop turn are permuted
            rnd = random.Random(c["sched"])

            class ShuffleLoop(asyncio.SelectorEventLoop):
                def _run_once(self):
                    if c["sched"] and len(self._ready) > 1:
                        permute_ready(self._ready, rnd.shuffle)   # thread-safe, same order (harness/lib/looputil.py)
                    super()._run_once()

            class Policy(asyncio.DefaultEventLoopPolicy):
                def new_event_loop(self):
                    return ShuffleLoop()

            buf = io.StringIO()
            old_out, old_pol = sys.stdout, asyncio.get_event_loop_policy()
            asyncio.set_event_loop_policy(Policy())
            sys.stdout = buf
            try:
                rc = main(["--quiet", "--streamflow-file", os.path.join(d, "streamflow.yml"),
                           "--outdir", d, os.path.join(d, "wf.cwl"), os.path.join(d, "job.json")])
            finally:
                sys.stdout = old_out
                asyncio.set_event_loop_policy(old_pol)
            txt = buf.getvalue()
            try:
                res = json.loads(txt[txt.index("{"):])
            except ValueError:
                res = None
            return {"rc": rc, "result": res, "raw": None if res is not None else txt[-500:]}
        finally:
            os.chdir(cwd)
            shutil.rmtree(d, ignore_errors=True)

    def impl_run(self, c):
        import asyncio

        if c["f"] == "wf":
            return self._wf_run(c)
        if c["f"] == "retag":
            return asyncio.run(self._retag_run(c["tags"]))
        if c["f"] == "cstep":
            return asyncio.run(self._comb_step(c["arr"]))
        if c["f"] == "when":
            return asyncio.run(self._when_step(c))
        if c["f"] == "ckstep":
            return asyncio.run(self._comb_k(c))
        if c["f"] == "when2":
            return asyncio.run(self._when2_step(c))
        arr = step_arrivals(c) if c["f"] == "step" else c["arr"]
        o = asyncio.run(self._loop_step(c["pol"], arr))
        o["arr"] = arr
        return o

    # ---------------------------------------------------------------- oracle (from the property text)
    def oracle(self, c, o):
        if "crash" in o or "hang" in o:
            return ("crash", f"implementation crashed/hung: {str(o)[:600]}")
        if c["f"] == "step":
            if o.get("err"):
                return ("step-raises", f"loop output step raised {o['err']}")
            want = {}
            for ins in c["insts"]:
                vals = [ins["base"] + i for i in range(ins["k"])]
                want[ins["p"]] = vals if c["pol"] == "all" else (vals[-1] if vals else None)
            got = {}
            for t in o["out"]:
                if t[1] in got:
                    return ("one-output-per-instance", f"instance {t[1]} got more than one output: {o['out']}"[:600])
                if c["pol"] == "all":
                    if t[0] != "L":
                        return ("all-is-list", f"output {t} is not a list token")
                    got[t[1]] = [json.loads(x[2]) for x in t[2]]
                else:
                    got[t[1]] = json.loads(t[2]) if t[0] == "T" else t
            if got != want:
                return ("iteration-order", f"{c['pol']}: outputs {json.dumps(got, sort_keys=True)[:400]}, "
                                           f"expected {json.dumps(want, sort_keys=True)[:400]}")
            if o["status"] is None or len(o["terms"]) != 1:
                return ("terminates", f"step did not terminate after the termination token (status {o['status']}, "
                                      f"termination tokens {o['terms']})")
        if c["f"] == "retag":
            # per instance, the iterations are numbered 0,1,2,... in the order they happen
            seen = {}
            want = []
            for t in c["tags"]:
                p = t if t not in seen and ".".join(t.split(".")[:-1]) not in seen else ".".join(t.split(".")[:-1])
                seen[p] = seen.get(p, -1) + 1
                want.append(f"{p}.{seen[p]}")
            if o.get("out") != want:
                return ("iteration-numbering", f"combinator tags {o.get('out')}, expected {want}"[:700])
        if c["f"] == "cstep":
            if o.get("err"):
                return ("step-raises", f"loop combinator step raised {o['err']}")
            if c["wf"] and not any(a[0] == "T" and len(a) > 1 and a[1] in self.CLEARING for a in c["arr"]):
                fed = c["arr"][:o["fed"]]
                started = [a[1] for a in fed if a[0] == "E" and a[1] in c["insts"]]
                ended = [a[1] for a in fed if a[0] == "I"]
                if o["fin"] and (not any(a[0] == "T" for a in fed) or any(p not in ended for p in started)):
                    return ("combinator-early-exit", f"loop combinator step terminated after {fed} although an "
                                                     f"instance it had started was not finished")
                if not o["fin"] and any(a[0] == "T" for a in c["arr"]) and all(p in ended for p in c["insts"]):
                    return ("combinator-terminates", f"loop combinator step still waiting after {c['arr']}")
        if c["f"] == "ckstep":
            if o.get("err"):
                return ("step-raises", f"k-port loop combinator step raised {o['err']}")
            fed = [c["arr"][i] for i in o["fed"]]
            if o["fin"]:      # run() returned: every port must have delivered a termination token
                for i in range(c["k"]):
                    mine = [a for a in fed if a[0] == i]
                    if not any(a[1] == "T" for a in mine):
                        return ("combinator-early-exit", f"k-port combinator step returned although port {i} had not "
                                                         f"delivered its termination token: {fed}")
        if c["f"] == "when2":
            if o.get("err") or not o.get("fin"):
                return ("step-raises", f"two-variable loop-when step failed: {o}")
            wantD = [["E", t] for t, v in c["toks"] if v < c["lim"]]
            wantE = [["I", t] for t, v in c["toks"] if not v < c["lim"]]
            for k in ("Dx", "Dy"):
                if [x for x in o[k] if x[0] != "T"] != wantD:
                    return ("when-routing", f"two-variable loop-when put {o[k]} on output {k}, expected {wantD}")
            if [x for x in o["E"] if x[0] != "T"] != wantE:
                return ("when-routing", f"two-variable loop-when put {o['E']} on the skip port, expected {wantE}")
        if c["f"] == "when":
            if o.get("err") or not o.get("fin"):
                return ("step-raises", f"loop-when step failed: {o}")
            wantD = [["E", t] for t, v in c["toks"] if v < c["lim"]]
            wantE = [["I", t] for t, v in c["toks"] if not v < c["lim"]]
            if [x for x in o["D"] if x[0] != "T"] != wantD or [x for x in o["E"] if x[0] != "T"] != wantE:
                return ("when-routing", f"loop-when routed {o['D']} / {o['E']}, expected {wantD} / {wantE}")
        if c["f"] == "wf":
            lim = c["lim"]

            def exp(s):
                vals = list(range(s + 1, lim + 1)) if s < lim else []
                if c.get("vars", 1) == 2:       # o2 = acc + i1, acc starting at lim
                    acc, vals = lim, []
                    for i1 in range(s, lim):
                        acc += i1
                        vals.append(acc)
                return vals if c["method"] == "all" else (vals[-1] if vals else None)
            want = [exp(s) for s in c["starts"]] if c["scatter"] else exp(c["starts"][0])
            if o.get("rc") != 0 or o.get("result") is None:
                return ("workflow-fails", f"loop workflow failed: rc={o.get('rc')} {str(o.get('raw'))[:300]}")
            if o["result"].get("o1") != want:
                return ("workflow-output", f"loop workflow produced {json.dumps(o['result'].get('o1'))[:300]}, "
                                           f"expected {json.dumps(want)[:300]}")
        return None

    # ---------------------------------------------------------------- model side
    def coq_case(self, c, o):
        if "crash" in o or "hang" in o:
            return None
        if c["f"] == "retag":
            if not all(TAG.match(t) for t in c["tags"]):
                return None
            return f"CRetag {coq_list([coq_str(t) for t in c['tags']])} {coq_list([coq_str(t) for t in o['out']])}"
        if c["f"] == "cstep":
            if o.get("err") or not all(TAG.match(a[1]) for a in c["arr"] if a[0] != "T"):
                return None
            arr = c["arr"][:o["fed"]]
            if any(a[0] == "T" and len(a) > 1 and a[1] in self.CLEARING for a in c["arr"]):
                # with a termination token that clears the checklist: the step-level k-port model with k = 1
                def px(a):
                    if a[0] == "T":
                        return "(0%nat, XClear)" if len(a) > 1 and a[1] in self.CLEARING else "(0%nat, XA ATerm)"
                    return f"(0%nat, XA {coq_atok(a)})"
                return (f"CCombKX 1%nat {coq_list([px(a) for a in arr])} "
                        f"{coq_list([coq_list([coq_atok(a) for a in o['out']])])} {'true' if o['fin'] else 'false'}")
            return (f"CCombStep {coq_list([coq_atok(a) for a in arr])} {coq_list([coq_atok(a) for a in o['out']])} "
                    f"{'true' if o['fin'] else 'false'}")
        if c["f"] == "ckstep":
            if o.get("err") or not all(TAG.match(a[2]) for a in c["arr"] if a[1] != "T"):
                return None
            arr = [c["arr"][i] for i in o["fed"]]
            clearing = any(a[1] == "T" and len(a) > 2 and a[2] in self.CLEARING for a in c["arr"])

            def pa(a):
                if a[1] == "T":
                    tokc = "XClear" if len(a) > 2 and a[2] in self.CLEARING else "ATerm"
                else:
                    tokc = coq_atok([a[1], a[2]])
                if clearing and tokc != "XClear":
                    tokc = f"XA {tokc}"
                return f"({a[0]}%nat, {tokc})"
            outs = coq_list([coq_list([coq_atok(x) for x in port]) for port in o["outs"]])
            ctor = "CCombKX" if clearing else "CCombK"
            return f"{ctor} {c['k']}%nat {coq_list([pa(a) for a in arr])} {outs} {'true' if o['fin'] else 'false'}"
        if c["f"] == "when2":
            if o.get("err") or len({t for t, _ in c["toks"]}) != len(c["toks"]):
                return None
            arr = coq_list([f"({coq_tag(t)}, {'true' if v < c['lim'] else 'false'})" for t, v in c["toks"]])
            ds = coq_list([coq_list([coq_atok(a) for a in o[k]]) for k in ("Dx", "Dy")])
            return f"CWhenK {arr} {ds} {coq_list([coq_atok(a) for a in o['E']])}"
        if c["f"] == "when":
            if o.get("err") or len({t for t, _ in c["toks"]}) != len(c["toks"]):
                return None
            arr = coq_list([f"({coq_tag(t)}, {'true' if v < c['lim'] else 'false'})" for t, v in c["toks"]])
            return (f"CWhen {arr} {coq_list([coq_atok(a) for a in o['D']])} {coq_list([coq_atok(a) for a in o['E']])}")
        if c["f"] in ("step", "raw"):
            if o.get("err"):
                return None
            arr = o["arr"][:o["fed"]] if o["status"] is not None else o["arr"]
            for a in o["arr"]:
                tg = a[1][1] if a[0] == "E" else a[1] if a[0] == "I" else "0"
                if not TAG.match(tg):
                    return None
            pol = "OutAll" if c["pol"] == "all" else "OutLast"
            fin = coq_opt(o["status"], lambda x: STATUS.get(x, "OtherStatus"))
            return (f"CLoop {pol} {coq_list([coq_larr(a) for a in o['arr']])} "
                    f"{coq_list([coq_tok(x) for x in o['out']])} {fin}")
        return None

    def nontrivial(self, c):
        if c["f"] == "step":
            return len(c["insts"]) >= 2 or c["order"] != 0 or any(i["k"] >= 10 or i["k"] == 0 for i in c["insts"])
        if c["f"] == "retag":
            return len(c["tags"]) >= 3
        if c["f"] in ("raw", "cstep", "ckstep"):
            return len(c["arr"]) >= 3
        return True

    def signature(self, c, o, clause):
        return f"{c['f']}/{clause}"

    def shrink(self, c):
        if c["f"] == "step":
            for i in range(len(c["insts"])):
                if len(c["insts"]) > 1:
                    yield {**c, "insts": c["insts"][:i] + c["insts"][i + 1:]}
            for i, ins in enumerate(c["insts"]):
                for k in sorted({0, ins["k"] // 2, ins["k"] - 1}):
                    if 0 <= k < ins["k"]:
                        yield {**c, "insts": c["insts"][:i] + [{**ins, "k": k}] + c["insts"][i + 1:]}
            if c["order"] not in (0, 1):
                yield {**c, "order": 0}
                yield {**c, "order": 1}
        elif c["f"] == "raw":
            for i in range(len(c["arr"])):
                yield {**c, "arr": c["arr"][:i] + c["arr"][i + 1:]}
        elif c["f"] == "ckstep":
            for i in range(len(c["arr"]) - 1, -1, -1):
                yield {**c, "arr": c["arr"][:i] + c["arr"][i + 1:]}
        elif c["f"] == "cstep":
            for i in range(len(c["arr"]) - 1, -1, -1):
                yield {**c, "arr": c["arr"][:i] + c["arr"][i + 1:], "wf": False}
        elif c["f"] == "retag":
            for i in range(len(c["tags"]) - 1, -1, -1):
                yield {**c, "tags": c["tags"][:i] + c["tags"][i + 1:]}
        elif c["f"] == "wf":
            for i in range(len(c["starts"])):
                if len(c["starts"]) > 1:
                    yield {**c, "starts": c["starts"][:i] + c["starts"][i + 1:]}
            if c["sched"]:
                yield {**c, "sched": 0}
            for i, s in enumerate(c["starts"]):
                if s < c["lim"] - 1:
                    yield {**c, "starts": c["starts"][:i] + [s + 1] + c["starts"][i + 1:]}


PROP = C06()
