"""C06 — Loops emit the last/all iteration values in iteration order, for any count."""
import json
import random
import re

from harness.lib.framework import Prop, coq_list, coq_opt, coq_str

TAG = re.compile(r"^(0|[1-9][0-9]*)(\.(0|[1-9][0-9]*))*$")
STATUS = {"SKIPPED": "Skipped", "COMPLETED": "Completed", "FAILED": "Failed", "CANCELLED": "Cancelled",
          "RECOVERED": "Recovered"}

CWL = """cwlVersion: v1.2
class: Workflow
$namespaces:
  cwltool: "http://commonwl.org/cwltool#"
requirements:
  InlineJavascriptRequirement: {}
  ScatterFeatureRequirement: {}
  SubworkflowFeatureRequirement: {}
inputs:
  i1: %(itype)s
  lim: int
outputs:
  o1:
    type: Any
    outputSource: %(src)s/o1
steps:
%(steps)s
"""
LOOPSTEP = """sub:
  run:
    class: ExpressionTool
    inputs:
      i1: int
      lim: int
    outputs:
      o1: int
    expression: >
      ${return {'o1': inputs.i1 + 1};}
  in:
    i1: i1
    lim: lim
  out: [o1]
  requirements:
    cwltool:Loop:
      loopWhen: $(inputs.i1 < inputs.lim)
      loop:
        i1: o1
      outputMethod: %(method)s
"""
SCATTER = """scatter:
  run:
    class: Workflow
    inputs:
      i1: int
      lim: int
    outputs:
      o1:
        type: Any
        outputSource: sub/o1
    steps:
%(inner)s
  in:
    i1: i1
    lim: lim
  scatter: i1
  out: [o1]
"""


def indent(s, n):
    return "\n".join((" " * n + l if l else l) for l in s.splitlines())


def coq_tok(c):
    if c[0] == "L":
        return f"(ListTok {coq_str(c[1])} {coq_list([coq_tok(x) for x in c[2]])})"
    return f"(Tok {coq_str(c[1])} {coq_str(c[2])})"


def coq_larr(a):
    if a[0] == "E":
        return f"(LTok {coq_tok(a[1])})"
    if a[0] == "I":
        return f"(LIter {coq_str(a[1])})"
    return f"(LTerm {STATUS[a[1]]})"


def step_arrivals(c):
    """the arrival list of a 'step' case: every body token p.i and IterationTermination p.k, shuffled; then Term"""
    arr = []
    for ins in c["insts"]:
        for i in range(ins["k"]):
            arr.append(["E", ["T", f"{ins['p']}.{i}", json.dumps(ins["base"] + i)]])
        arr.append(["I", f"{ins['p']}.{ins['k']}"])
    if c["order"] == 1:
        arr.reverse()
    elif c["order"] != 0:
        random.Random(c["order"]).shuffle(arr)
    return arr + [["T", "COMPLETED"]]


class C06(Prop):
    ID = "C06"
    PROPS_FILE = "Props/C06.v"
    CORR_MODULE = "Loop.Corr"
    MAX_WORKERS = 8
    COQ_SHARD = 60
    CASE_TIMEOUT = 300
    SHARD_TIMEOUT = 2400
    LEVEL_TEXT = (
        "Theorems (Coq, closed under the global context) over a model of LoopOutputStep.run with the CWL all/last "
        "output policies and of LoopCombinator's iteration counters: for any set of loop instances (distinct prefixes), "
        "any iteration counts (0 and >= 10 included) and ANY arrival order of the iteration tokens p.0..p.(k-1) and the "
        "iteration-termination token p.k before the first termination token, the step emits exactly one token per "
        "instance, tagged p: the values in iteration order (all) / the value of iteration k-1 or null (last), and "
        "terminates at the termination token (C06_step_all, C06_step_last); the combinator numbers the iterations of "
        "each instance 0,1,2,... whatever the interleaving of instances (C06_iteration_tags). The early-exit clause is "
        "NOT proved for the loop sub-network: C06_no_early_exit_refuted shows that the step, as written "
        "(all(self.termination_map) tests the dict's keys), terminates at the first termination token even when an "
        "instance is incomplete; that this order of arrival does not occur through the translator's wiring is only "
        "exercised (whole CWL loop runs: scatter around a loop, counts 0..15, both output methods), not proved.")
    LEVEL_NOTE = (
        "partial: step-level theorems are full-strength; 'the loop step never terminates before every instance emitted' "
        "holds at step level only under the hypothesis that every instance's tokens precede the termination token; the "
        "loop sub-network (combinator step checklist, conditional step, forwarders) is not modelled. Trusted: Coq kernel "
        "+ vm_compute; hand-written Loop/Model.v tied to the code by the correspondence; sorted() modelled as stable "
        "insertion sort; JS evaluation, body execution and asyncio are exercised, not modelled.")
    TECHNIQUE = ("Coq proof (projection on one loop instance, closed form on incomplete prefixes, uniqueness of sorted "
                 "permutations) + vm_compute correspondence against the real steps + whole-loop CWL runs judged by the oracle")
    RULE = ("step: 1..4 instances (prefixes of depth 1..3), counts 0..15 (bias 0,1,9..12), all/last, iteration tokens and "
            "iteration-termination tokens in a seeded shuffle, then the termination token; early/raw: termination token "
            "before completion, duplicated or missing iteration-termination tokens, single-component tags, several "
            "statuses (model fidelity only); retag: real LoopCombinator fed interleaved instances and iterations; wf: CWL "
            "workflows (loop inside scatter or plain loop, ExpressionTool body) run by the real engine. Non-trivial = a "
            "count >= 10 or 0, or >= 2 instances, or a non-identity order; every wf case. Distinct = distinct canonical JSON.")
    TRUSTED = ("model: Loop/Model.v (LoopOutputStep.run, CWLLoopOutputAllStep/LastStep._process_output, "
               "LoopCombinator._product counters) is hand-written; LoopCombinatorStep, CWLLoopConditionalStep, "
               "LoopTerminationCombinator and the forwarders are exercised by whole-loop runs but not modelled",)
    ASSUMPTIONS = ("every iteration token and the iteration-termination token of every instance reach the loop output "
                   "step before the first termination token (a consequence of the translator's wiring that is not proved)",
                   "tags are well-formed dotted decimals; the body is deterministic")

    # ---------------------------------------------------------------- generation
    def _count(self, rng):
        r = rng.random()
        if r < 0.5:
            return rng.choice([0, 0, 1, 2, 9, 10, 11, 12])
        return rng.randrange(0, 16)

    def _prefix(self, rng, depth):
        return ".".join(["0"] + [str(rng.choice([0, 1, 2, 3, 9, 10, 11])) for _ in range(depth - 1)])

    def _seed(self, rng):
        r = rng.random()
        return 0 if r < 0.1 else 1 if r < 0.2 else rng.randrange(2, 10**9)

    def gen(self, rng, tier):
        n = {"quick": 220, "thorough": 1200, "extended": 700}[tier]
        nwf = {"quick": 6, "thorough": 30, "extended": 10}[tier]
        cases = []
        for _ in range(n):
            r = rng.random()
            if r < 0.55:
                depth = rng.choice([1, 2, 2, 3])
                ps = []
                for _ in range(1 if depth == 1 else rng.randrange(1, 5)):
                    p = self._prefix(rng, depth)
                    if p not in ps:
                        ps.append(p)
                cases.append({"f": "step", "pol": rng.choice(["all", "last"]),
                              "insts": [{"p": p, "k": self._count(rng), "base": rng.randrange(0, 1000)} for p in ps],
                              "order": self._seed(rng)})
            elif r < 0.8:
                cases.append(self._raw(rng))
            else:
                cases.append(self._retag(rng))
        for _ in range(nwf):
            scat = rng.random() < 0.75
            lim = rng.choice([3, 10, 11, 13, 15])
            starts = [max(0, lim - self._count(rng)) if rng.random() < 0.8 else lim + rng.randrange(0, 3)
                      for _ in range(rng.randrange(1, 5) if scat else 1)]
            cases.append({"f": "wf", "method": rng.choice(["all", "last"]), "scatter": scat, "starts": starts,
                          "lim": lim, "sched": rng.randrange(0, 10**6)})
        return cases

    def _raw(self, rng):
        depth = rng.choice([1, 2, 2, 3])
        arr = []
        uid = 0
        for _ in range(rng.randrange(1, 4)):
            p = self._prefix(rng, depth) if rng.random() < 0.9 else ""
            k = rng.choice([0, 1, 2, 3, 11])
            for i in range(k):
                uid += 1
                idx = i if rng.random() < 0.85 else rng.randrange(0, k)
                arr.append(["E", ["T", (p + "." if p else "") + str(idx), str(uid)]])
            r = rng.random()
            if r < 0.6:
                arr.append(["I", (p + "." if p else "") + str(k)])
            elif r < 0.8:
                arr.append(["I", (p + "." if p else "") + str(max(0, k + rng.choice([-1, 1, 2])))])
            elif r < 0.9:
                arr.append(["I", (p + "." if p else "") + str(k)])
                arr.append(["I", (p + "." if p else "") + str(k)])
        rng.shuffle(arr)
        sts = ["COMPLETED"] * 6 + ["SKIPPED", "FAILED", "CANCELLED", "RECOVERED"]
        r = rng.random()
        if r < 0.5:
            arr.append(["T", rng.choice(sts)])
        elif r < 0.9:
            arr.insert(rng.randrange(0, len(arr) + 1), ["T", rng.choice(sts)])
            if rng.random() < 0.5:
                arr.append(["T", rng.choice(sts)])
        return {"f": "raw", "pol": rng.choice(["all", "last"]), "arr": arr}

    def _retag(self, rng):
        """tags carried by the tokens reaching the loop combinator: each instance p first, then p.0, p.1, ...
        (the body keeps the iteration tag); instances interleaved at random"""
        depth = rng.choice([1, 2, 3])
        ps = []
        for _ in range(1 if depth == 1 else rng.randrange(1, 5)):
            p = self._prefix(rng, depth)
            if p not in ps:
                ps.append(p)
        seqs = [[p] + [f"{p}.{i}" for i in range(self._count(rng))] for p in ps]
        tags = []
        while any(seqs):
            s = rng.choice([s for s in seqs if s])
            tags.append(s.pop(0))
        return {"f": "retag", "tags": tags}

    # ---------------------------------------------------------------- implementation
    def impl_init(self):
        from harness.props import _stepdrive

        self.sd = _stepdrive
        self.e = _stepdrive.make_env()
        from streamflow.core.workflow import Status
        from streamflow.cwl.step import CWLLoopOutputAllStep, CWLLoopOutputLastStep
        from streamflow.workflow.combinator import LoopCombinator

        self.Status, self.All, self.Last, self.LoopCombinator = Status, CWLLoopOutputAllStep, CWLLoopOutputLastStep, LoopCombinator

    async def _loop_step(self, pol, arr):
        e, sd = self.e, self.sd
        ctx = e.build_context()
        try:
            wf = e.Workflow(ctx, config={}, name="w")
            inp, out = wf.create_port(e.ObsPort), wf.create_port()
            st = wf.create_step(self.All if pol == "all" else self.Last, name="/s/o-loop-output")
            st.add_input_port("o", inp)
            st.add_output_port("o", out)
            await wf.save(ctx.database)
            feed = []
            for a in arr:
                if a[0] == "E":
                    feed.append(("o", e.Token(json.loads(a[1][2]), tag=a[1][1])))
                elif a[0] == "I":
                    feed.append(("o", e.IterationTerminationToken(a[1])))
                else:
                    feed.append(("o", e.TerminationToken(self.Status[a[1]])))
            # a port delivers tokens after a termination token too (nothing closes it), so does the driver
            inp_feed = inp.feed

            def feed_keep_open(tok):
                inp_feed(tok)
                inp.terminated = False
            inp.feed = feed_keep_open
            used = []
            try:
                finished = await sd.drive(st, {"o": inp}, feed, lambda pn, tok: used.append(1))
                err = None
            except Exception as ex:
                finished, err = False, type(ex).__name__
            outs = [sd.canon_tok(e, x) for x in out.token_list if not isinstance(x, e.TerminationToken)]
            terms = [x.value.name for x in out.token_list if isinstance(x, e.TerminationToken)]
            o = {"out": outs, "terms": terms, "status": st.status.name if finished else None, "fed": len(used)}
            if err:
                o["err"] = err
            return o
        finally:
            await ctx.close()

    async def _retag_run(self, tags):
        e = self.e
        comb = self.LoopCombinator("c", None)
        comb.add_item("x")
        out = []
        for t in tags:
            async for schema in comb.combine("x", e.Token(0, tag=t)):
                out.append(schema["x"]["token"].tag)
        return {"out": out}

    def _wf_run(self, c):
        import asyncio
        import io
        import os
        import shutil
        import sys
        import tempfile

        from streamflow.cwl.runner import main

        d = tempfile.mkdtemp(prefix="sfv-c06-", dir="/var/tmp")
        cwd = os.getcwd()
        try:
            loop = LOOPSTEP % {"method": c["method"]}
            if c["scatter"]:
                steps = SCATTER % {"inner": indent(loop, 6)}
                text = CWL % {"itype": "int[]", "src": "scatter", "steps": indent(steps, 2)}
                job = {"i1": c["starts"], "lim": c["lim"]}
            else:
                text = CWL % {"itype": "int", "src": "sub", "steps": indent(loop, 2)}
                job = {"i1": c["starts"][0], "lim": c["lim"]}
            open(os.path.join(d, "wf.cwl"), "w").write(text)
            json.dump(job, open(os.path.join(d, "job.json"), "w"))
            open(os.path.join(d, "streamflow.yml"), "w").write(
                'version: v1.0\nworkflows:\n  w:\n    type: cwl\n    config:\n      file: wf.cwl\n      settings: job.json\n'
                'database:\n  type: default\n  config:\n    connection: ":memory:"\n')
            os.chdir(d)
            # seeded schedule: the ready callbacks of every event-loop turn are permuted
            rnd = random.Random(c["sched"])

            class ShuffleLoop(asyncio.SelectorEventLoop):
                def _run_once(self):
                    if c["sched"] and len(self._ready) > 1:
                        items = list(self._ready)
                        rnd.shuffle(items)
                        self._ready.clear()
                        self._ready.extend(items)
                    super()._run_once()

            class Policy(asyncio.DefaultEventLoopPolicy):
                def new_event_loop(self):
                    return ShuffleLoop()

            buf = io.StringIO()
            old_out, old_pol = sys.stdout, asyncio.get_event_loop_policy()
            asyncio.set_event_loop_policy(Policy())
            sys.stdout = buf
            try:
                rc = main(["--quiet", "--streamflow-file", os.path.join(d, "streamflow.yml"),
                           "--outdir", d, os.path.join(d, "wf.cwl"), os.path.join(d, "job.json")])
            finally:
                sys.stdout = old_out
                asyncio.set_event_loop_policy(old_pol)
            txt = buf.getvalue()
            try:
                res = json.loads(txt[txt.index("{"):])
            except ValueError:
                res = None
            return {"rc": rc, "result": res, "raw": None if res is not None else txt[-500:]}
        finally:
            os.chdir(cwd)
            shutil.rmtree(d, ignore_errors=True)

    def impl_run(self, c):
        import asyncio

        if c["f"] == "wf":
            return self._wf_run(c)
        if c["f"] == "retag":
            return asyncio.run(self._retag_run(c["tags"]))
        arr = step_arrivals(c) if c["f"] == "step" else c["arr"]
        o = asyncio.run(self._loop_step(c["pol"], arr))
        o["arr"] = arr
        return o

    # ---------------------------------------------------------------- oracle (from the property text)
    def oracle(self, c, o):
        if "crash" in o or "hang" in o:
            return ("crash", f"implementation crashed/hung: {str(o)[:600]}")
        if c["f"] == "step":
            if o.get("err"):
                return ("step-raises", f"loop output step raised {o['err']}")
            want = {}
            for ins in c["insts"]:
                vals = [ins["base"] + i for i in range(ins["k"])]
                want[ins["p"]] = vals if c["pol"] == "all" else (vals[-1] if vals else None)
            got = {}
            for t in o["out"]:
                if t[1] in got:
                    return ("one-output-per-instance", f"instance {t[1]} got more than one output: {o['out']}"[:600])
                if c["pol"] == "all":
                    if t[0] != "L":
                        return ("all-is-list", f"output {t} is not a list token")
                    got[t[1]] = [json.loads(x[2]) for x in t[2]]
                else:
                    got[t[1]] = json.loads(t[2]) if t[0] == "T" else t
            if got != want:
                return ("iteration-order", f"{c['pol']}: outputs {json.dumps(got, sort_keys=True)[:400]}, "
                                           f"expected {json.dumps(want, sort_keys=True)[:400]}")
            if o["status"] is None or len(o["terms"]) != 1:
                return ("terminates", f"step did not terminate after the termination token (status {o['status']}, "
                                      f"termination tokens {o['terms']})")
        if c["f"] == "retag":
            # per instance, the iterations are numbered 0,1,2,... in the order they happen
            seen = {}
            want = []
            for t in c["tags"]:
                p = t if t not in seen and ".".join(t.split(".")[:-1]) not in seen else ".".join(t.split(".")[:-1])
                seen[p] = seen.get(p, -1) + 1
                want.append(f"{p}.{seen[p]}")
            if o.get("out") != want:
                return ("iteration-numbering", f"combinator tags {o.get('out')}, expected {want}"[:700])
        if c["f"] == "wf":
            lim = c["lim"]

            def exp(s):
                vals = list(range(s + 1, lim + 1)) if s < lim else []
                return vals if c["method"] == "all" else (vals[-1] if vals else None)
            want = [exp(s) for s in c["starts"]] if c["scatter"] else exp(c["starts"][0])
            if o.get("rc") != 0 or o.get("result") is None:
                return ("workflow-fails", f"loop workflow failed: rc={o.get('rc')} {str(o.get('raw'))[:300]}")
            if o["result"].get("o1") != want:
                return ("workflow-output", f"loop workflow produced {json.dumps(o['result'].get('o1'))[:300]}, "
                                           f"expected {json.dumps(want)[:300]}")
        return None

    # ---------------------------------------------------------------- model side
    def coq_case(self, c, o):
        if "crash" in o or "hang" in o:
            return None
        if c["f"] == "retag":
            if not all(TAG.match(t) for t in c["tags"]):
                return None
            return f"CRetag {coq_list([coq_str(t) for t in c['tags']])} {coq_list([coq_str(t) for t in o['out']])}"
        if c["f"] in ("step", "raw"):
            if o.get("err"):
                return None
            arr = o["arr"][:o["fed"]] if o["status"] is not None else o["arr"]
            for a in o["arr"]:
                tg = a[1][1] if a[0] == "E" else a[1] if a[0] == "I" else "0"
                if not TAG.match(tg):
                    return None
            pol = "OutAll" if c["pol"] == "all" else "OutLast"
            fin = coq_opt(o["status"], lambda x: STATUS.get(x, "OtherStatus"))
            return (f"CLoop {pol} {coq_list([coq_larr(a) for a in o['arr']])} "
                    f"{coq_list([coq_tok(x) for x in o['out']])} {fin}")
        return None

    def nontrivial(self, c):
        if c["f"] == "step":
            return len(c["insts"]) >= 2 or c["order"] != 0 or any(i["k"] >= 10 or i["k"] == 0 for i in c["insts"])
        if c["f"] == "retag":
            return len(c["tags"]) >= 3
        if c["f"] == "raw":
            return len(c["arr"]) >= 3
        return True

    def signature(self, c, o, clause):
        return f"{c['f']}/{clause}"

    def shrink(self, c):
        if c["f"] == "step":
            for i in range(len(c["insts"])):
                if len(c["insts"]) > 1:
                    yield {**c, "insts": c["insts"][:i] + c["insts"][i + 1:]}
            for i, ins in enumerate(c["insts"]):
                for k in sorted({0, ins["k"] // 2, ins["k"] - 1}):
                    if 0 <= k < ins["k"]:
                        yield {**c, "insts": c["insts"][:i] + [{**ins, "k": k}] + c["insts"][i + 1:]}
            if c["order"] not in (0, 1):
                yield {**c, "order": 0}
                yield {**c, "order": 1}
        elif c["f"] == "raw":
            for i in range(len(c["arr"])):
                yield {**c, "arr": c["arr"][:i] + c["arr"][i + 1:]}
        elif c["f"] == "retag":
            for i in range(len(c["tags"]) - 1, -1, -1):
                yield {**c, "tags": c["tags"][:i] + c["tags"][i + 1:]}
        elif c["f"] == "wf":
            for i in range(len(c["starts"])):
                if len(c["starts"]) > 1:
                    yield {**c, "starts": c["starts"][:i] + c["starts"][i + 1:]}
            if c["sched"]:
                yield {**c, "sched": 0}
            for i, s in enumerate(c["starts"]):
                if s < c["lim"] - 1:
                    yield {**c, "starts": c["starts"][:i] + [s + 1] + c["starts"][i + 1:]}


PROP = C06()
