"""C17 — Retries are bounded and exhausted retries fail the workflow."""
from harness.lib.framework import Prop, coq_list, coq_N, coq_nat, coq_opt, coq_str, coq_bool

PHASES = ["schedule", "transfer", "execute"]
REC = ["ROLLBACK", "RUNNING", "FIREABLE"]
NOREC = ["COMPLETED", "FAILED", "RECOVERY", "WAITING", "CANCELLED", "SKIPPED"]


def coq_lim(m):
    return coq_opt(m, coq_N)


def coq_outcome(result):
    return "Completed" if result == "completed" else "Failed"


def job_faults(case):
    """job name -> total number of planned failing attempts"""
    tot = {}
    for st, tag, phase, kind, cnt in case.get("faults", []):
        tot[f"{st}/{tag}"] = tot.get(f"{st}/{tag}", 0) + cnt
    return tot


def attempts(trace):
    """(job, phase) -> number of attempts of that phase the real engine made"""
    n = {}
    for e in trace:
        if e[0] in ("schedule", "transfer", "exec"):
            k = (e[1], "execute" if e[0] == "exec" else e[0])
            n[k] = n.get(k, 0) + 1
    return n


class C17(Prop):
    ID = "C17"
    PROPS_FILE = "Props/C17.v"
    CORR_MODULE = "Retry.Corr"
    LEVEL = "proof"
    LEVEL_TEXT = (
        "Theorems (Coq, closed under the global context) over a model of the retry counter of the rollback failure "
        "manager (RecoveryRequest.version, get_request, _update_request, the update loop of _synchronize_workflows, "
        "the recoverable decorator's retry recursion, DummyFailureManager.recover): for EVERY history of rollbacks "
        "(any failures, interleavings, rollback sets, is_recovering answers) no version exceeds max(1, max_retries); "
        "a raise happens exactly when an update finds a job at the limit; for an isolated job (rollback sets containing "
        "just the failing job) any failure pattern executes it at most `limit` times and version = executions, a job whose "
        "first `limit` attempts fail fails the run after exactly `limit` executions, fewer failures complete; for any rollback "
        "sets a job asked to roll back `limit` times makes some _synchronize_workflows call raise; the dummy manager fails at the first failure after one "
        "execution. Tied to /repo by (a) driving the real RollbackFailureManager._synchronize_workflows/_update_request "
        "through generated rollback histories against a stub scheduler and (b) running real workflows (pipelines, "
        "scatter/gather, diamonds; schedule/transfer/execute faults; soft and fail-stop; limits 1..5; counts 0..limit+2) "
        "with the real executor and comparing the recorded update history, versions, outcomes and attempt counts with "
        "the model, plus an oracle from the property text on every run.")
    LEVEL_NOTE = (
        "Partial in these respects. (1) That a job is (re-)executed only after its version was incremented (executions <= "
        "version) is engine behaviour and is checked on every engine run by the oracle and the CJob/CChain correspondence, not "
        "proved. (2) 'Instead of looping or hanging': in the model run_job is a structural recursion on the finite list of "
        "failing attempts, so termination of the MODEL is by construction; that the real executor terminates is exercised "
        "(every engine run must complete or raise within the time limit), not proved. (3) C17_dummy / "
        "C17_dummy_single_execution are computations of the three-line definition run_job_dummy (DummyFailureManager.recover "
        "re-raises); their content is the CDummy correspondence and the oracle on real runs with the dummy manager. (4) "
        "C17_bound, C17_exhaust, C17_completes_below_limit and C17_chain are about an ISOLATED job / a chain of isolated jobs "
        "(every rollback set contains just the failing job: soft failures); jobs rolled back as producers of someone else's "
        "failure are covered by C17_versions_bounded and C17_exhaust_any_rollback_sets (any rollback sets: a job asked to roll "
        "back `limit` times makes some call raise) and, for completion, by C16_completes_partial. "
        "Trusted: Coq kernel + vm_compute, the hand-written model Retry/Model.v, the harness (fault injection classes, "
        "recording shims that call the unchanged methods), asyncio, SQLite. No axioms.")
    TECHNIQUE = ("Coq proof (invariant over all rollback histories; induction over failure patterns) + vm_compute "
                 "correspondence against the real failure manager and real engine runs")
    RULE = ("hist: random histories of 1..8 rollbacks over 1..4 job names with scheduler statuses drawn from all Status "
            "values, limit in {None,0,1..5}, driven through the real _synchronize_workflows; chain: pipelines of 1..4 "
            "jobs (primitive/file), each job failing its first k in 0..limit+2 attempts of one phase (soft), limit 1..5; "
            "dummy: the same with the dummy manager; trace: pipelines/scatter/diamond with soft and fail-stop faults in "
            "any phase under a seeded permuting event loop. Non-trivial = at least one fault / at least one rollback. "
            "Distinct = distinct canonical JSON.")
    TRUSTED = ("model: Retry/Model.v is hand-written (RecoveryRequest.version, RollbackFailureManager.get_request / "
               "_update_request / _synchronize_workflows bookkeeping, recoverable's retry recursion, DummyFailureManager)",
               "harness/props/_recov.py: failure-injecting Step/Command subclasses and recording shims around the real "
               "failure manager methods (they call the originals unchanged)",
               "asyncio, SQLite, the local connector and the filesystem are exercised, not modelled")
    ASSUMPTIONS = ("which jobs one rollback covers (provenance graph search) is an input of the model (property C18)",
                   "a job attempt happens only after its version was incremented: checked per run, not proved",
                   "max_retries is a non-negative integer or None (None = no bound: C17_completes_below_limit shows "
                   "the job then never fails the run)")
    MAX_WORKERS = 8
    CASE_TIMEOUT = 200
    SHARD_TIMEOUT = 900
    COQ_SHARD = 60

    # ---------------------------------------------------------------- generation
    def _shape(self, rng, small=False):
        r = rng.random()
        typ = rng.choice(["file", "file", "primitive"])
        if r < 0.45:
            return {"kind": "pipeline", "type": typ, "n": rng.randrange(1, 4 if small else 6)}
        if r < 0.8:
            return {"kind": "scatter", "type": typ, "pre": rng.randrange(0, 2), "width": rng.randrange(1, 5 if small else 13),
                    "depth": rng.randrange(1, 3), "post": rng.randrange(0, 2)}
        return {"kind": "diamond", "type": typ, "branches": rng.randrange(2, 5)}

    def _jobs(self, shape):
        from harness.props._recov_shapes import step_names
        return [(s, t) for s, tags in step_names(shape) for t in tags]

    def gen(self, rng, tier):
        nh, nc, nd, nt = {"quick": (160, 20, 8, 24), "thorough": (2500, 240, 80, 400),
                          "extended": (800, 80, 30, 150)}[tier]
        cases = []
        for _ in range(nh):
            names = [f"/s{i}/0" for i in range(rng.randrange(1, 5))]
            lim = rng.choice([None, 0, 1, 1, 2, 2, 3, 3, 4, 5])
            hist = []
            for _ in range(rng.randrange(1, 9)):
                js = rng.sample(names, rng.randrange(1, len(names) + 1))
                hist.append([[j, rng.choice(REC) if rng.random() < 0.3 else rng.choice(NOREC)] for j in js])
            cases.append({"f": "hist", "limit": lim, "hist": hist})
        for _ in range(nc):
            lim = rng.randrange(1, 6)
            n = rng.randrange(1, 5)
            ks = [rng.choice([0, 0, 1, lim - 1, lim, lim + 1, lim + 2, rng.randrange(0, lim + 3)]) for _ in range(n)]
            ks = [max(0, k) for k in ks]
            phases = [rng.choice(PHASES) for _ in range(n)]
            cases.append({"f": "chain", "limit": lim, "manager": "rollback",
                          "shape": {"kind": "pipeline", "type": rng.choice(["file", "primitive"]), "n": n},
                          "faults": [[f"/s{i}", "0", phases[i], "soft", ks[i]] for i in range(n) if ks[i] > 0],
                          "ks": ks, "phases": phases, "sched": rng.randrange(1 << 30) if rng.random() < 0.5 else None})
        for _ in range(nd):
            shape = self._shape(rng, small=True)
            jobs = self._jobs(shape)
            st, tag = rng.choice(jobs)
            cases.append({"f": "dummy", "manager": "dummy", "shape": shape,
                          "faults": [[st, tag, rng.choice(PHASES),
                                      rng.choice(["soft", "failstop"]) if shape["kind"] == "pipeline" else "soft",
                                      rng.randrange(1, 4)]],
                          "sched": rng.randrange(1 << 30) if rng.random() < 0.5 else None})
        for _ in range(nt):
            shape = self._shape(rng, small=(tier == "quick" and rng.random() < 0.6))
            jobs = self._jobs(shape)
            lim = rng.randrange(1, 6)
            faults = []
            for st, tag in rng.sample(jobs, min(len(jobs), rng.choice([1, 1, 2, 2, 3, 4]))):
                k = rng.choice([1, 1, 2, lim - 1, lim, lim + 1, lim + 2])
                # fail-stop only in pipelines: with concurrent branches the set of jobs that then fail organically
                # (input wiped under them) depends on real I/O timing; those scenarios belong to C19
                kind = rng.choice(["soft", "failstop"]) if shape["kind"] == "pipeline" else "soft"
                faults.append([st, tag, rng.choice(PHASES), kind, max(1, k)])
            cases.append({"f": "trace", "limit": lim, "manager": "rollback", "shape": shape, "faults": faults,
                          "sched": rng.randrange(1 << 30)})
        # domino: file pipelines in which EVERY step fails c times with loss of data and the limit is tight, so that
        # upstream jobs are re-executed as producers far more often than they fail themselves; the bound is judged on
        # every job's execution count
        for _ in range({"quick": 8, "thorough": 80, "extended": 30}[tier]):
            n = rng.randrange(3, 6)
            c = rng.choice([1, 2, 2])
            lim = rng.randrange(c + 1, min(6, n * c + 1) + 1)
            ph = rng.choice(["execute", "execute", "transfer", "schedule"])
            cases.append({"f": "trace", "limit": lim, "manager": "rollback",
                          "shape": {"kind": "pipeline", "type": "file", "n": n},
                          "faults": [[f"/s{i}", "0", ph, "failstop", c] for i in range(n)],
                          "sched": rng.randrange(1 << 30) if rng.random() < 0.5 else None})
        return cases

    # ---------------------------------------------------------------- implementation
    def impl_init(self):
        from harness.props import _recov
        self.R = _recov

    def _run_hist(self, c):
        import asyncio
        from types import SimpleNamespace

        from streamflow.core.exception import FailureHandlingException
        from streamflow.core.workflow import Job, Status
        from streamflow.recovery.failure_manager import RollbackFailureManager
        from streamflow.workflow.token import JobToken

        class Sched:
            def __init__(self):
                self.status, self.notified = {}, []

            def get_allocation(self, job):
                return SimpleNamespace(status=self.status[job])

            async def notify_status(self, job, status):
                self.notified.append([job, status.name])
                self.status[job] = status

        class Dag:
            def contains(self, x):
                return False

        sched = Sched()
        fm = RollbackFailureManager(SimpleNamespace(scheduler=sched), max_retries=c["limit"], retry_delay=None)
        self.R.SC = self.R.Scenario()
        self.R.instrument(fm)
        mapper = SimpleNamespace(dag_tokens=Dag(), token_instances={})

        async def go():
            out = []
            for rb in c["hist"]:
                for j, st in rb:
                    sched.status[j] = Status[st]
                reqs = [fm.get_request(j) for j, _ in rb]
                toks = [JobToken(value=Job(name=j, workflow_id=0, inputs={}, input_directory=None,
                                           output_directory=None, tmp_directory=None)) for j, _ in rb]
                n0 = len(sched.notified)
                try:
                    await fm._synchronize_workflows(failed_job=rb[0][0], job_tokens=toks, mapper=mapper,
                                                    retry_requests=reqs, workflow=object())
                    raised = False
                except FailureHandlingException:
                    raised = True
                out.append({"raised": raised, "notified": sched.notified[n0:]})
            return out

        res = asyncio.run(go())
        syncs = self.R.history_from_trace(self.R.SC.trace)
        return {"syncs": [{"reqs": s["reqs"], "updates": s["updates"], "raised": r["raised"], "notified": r["notified"]}
                          for s, r in zip(syncs, res)],
                "nsyncs": len(syncs),
                "versions": sorted([k, r.version] for k, r in fm._retry_requests.items())}

    def impl_run(self, c):
        if c["f"] == "hist":
            return self._run_hist(c)
        o = self.R.run_engine(c)
        o["syncs"] = self.R.history_from_trace(o.get("trace", []))
        return o

    # ---------------------------------------------------------------- oracle (from the property text)
    def oracle(self, c, o):
        if "crash" in o:
            return ("crash", f"harness/implementation crashed: {o.get('exc')} {str(o.get('stderr'))[-300:]}")
        if "hang" in o:
            return ("hang", "the run neither completed nor raised within the time limit (looping or hanging)")
        lim = c.get("limit")
        if c["f"] == "hist":
            for i, s in enumerate(o["syncs"]):
                for j, before, after in s["updates"]:
                    if lim is not None and after is not None and after > max(1, lim):
                        return ("version-bound", f"rollback {i}: version of {j} went {before}->{after} with limit {lim}")
                    if lim is not None and after is None and before < lim:
                        return ("early-raise", f"rollback {i}: {j} refused at version {before} < limit {lim}")
                    if after is not None and after != before + 1:
                        return ("version-step", f"rollback {i}: version of {j} went {before}->{after}")
                if s["raised"] != any(a is None for _, _, a in s["updates"]):
                    return ("raise-mismatch", f"rollback {i}: raised={s['raised']} but updates {s['updates']}")
            for j, v in o["versions"]:
                if lim is not None and v > max(1, lim):
                    return ("version-bound", f"final version of {j} is {v} with limit {lim}")
            return None
        # engine runs
        att = attempts(o["trace"])
        if c.get("manager") == "dummy":
            for (job, ph), n in att.items():
                if ph == "execute" and n > 1:
                    return ("dummy-retry", f"{job} executed {n} times without a rollback failure manager")
            if c["faults"] and o["result"] == "completed":
                # the faulty job is always reached in these shapes: its first attempt fails
                return ("dummy-no-raise", f"a job failed but the workflow completed: faults {c['faults']}")
            return None
        for (job, ph), n in att.items():
            # "executed" = the job's command ran (what the execution table records); schedule/transfer
            # phases may legitimately be repeated by concurrent recoveries without a new execution
            if ph == "execute" and n > lim:
                return ("executions-bound", f"{job} was executed {n} times with retry limit {lim}")
        for j, v in o.get("versions", []):
            if v > lim:
                return ("version-bound", f"version of {j} is {v} with retry limit {lim}")
        exhausted = [j for j, k in job_faults(c).items() if k >= lim]
        if exhausted and o["result"] == "completed":
            return ("no-raise", f"{exhausted} fail at least {lim} times but the workflow completed")
        if o["result"].startswith("other:"):
            return ("odd-exception", f"executor raised {o['result']}")
        return None

    # ---------------------------------------------------------------- model side
    def _coq_hist(self, lim, syncs, versions):
        h = coq_list([coq_list([f"rq {coq_str(j)} {coq_bool(f)}" for j, f in s["reqs"]]) for s in syncs])
        log = coq_list([coq_list([f"up {coq_str(j)} {coq_N(b)} {coq_opt(a, coq_N)}" for j, b, a in s["updates"]])
                        for s in syncs])
        fin = coq_list([f"jv {coq_str(j)} {coq_N(v)}" for j, v in versions])
        return f"CHist {coq_lim(lim)} {h} {log} {fin}"

    def coq_case(self, c, o):
        if "crash" in o or "hang" in o:
            return None
        f = c["f"]
        if f == "hist":
            return self._coq_hist(c["limit"], o["syncs"], o["versions"])
        if f == "trace":
            return self._coq_hist(c["limit"], o["syncs"], o["versions"])
        att = attempts(o["trace"])
        if f == "dummy":
            # the faulty job: attempts of the faulty phase
            st, tag, ph, kind, k = c["faults"][0]
            n = att.get((f"{st}/{tag}", ph), 0)
            if n == 0:
                return None  # never reached (an upstream organic failure): outside the one-job model
            return f"CDummy {coq_nat(k)} {coq_outcome(o['result'])} {coq_nat(n)}"
        if f == "chain":
            vers = dict(o.get("versions", []))
            vn = []
            for i, k in enumerate(c["ks"]):
                job = f"/s{i}/0"
                if not any(j == job for (j, _ph) in att):
                    break
                ph = c["phases"][i] if k > 0 else "execute"
                vn.append(f"vn {coq_N(vers.get(job, 1))} {coq_nat(att.get((job, ph), 0))}")
            return (f"CChain {coq_lim(c['limit'])} {coq_list([coq_nat(k) for k in c['ks']])} "
                    f"{coq_outcome(o['result'])} {coq_list(vn)}")
        return None

    def nontrivial(self, c):
        if c["f"] == "hist":
            return any(st not in REC for rb in c["hist"] for _, st in rb)
        return bool(c.get("faults"))

    def signature(self, c, o, clause):
        ph = sorted({f[2] + "/" + f[3] for f in c.get("faults", [])})
        return f"{c['f']}/{clause}/{c.get('shape', {}).get('kind', '-')}/{'+'.join(ph) or '-'}"

    def shrink(self, c):
        if c["f"] == "hist":
            h = c["hist"]
            for i in range(len(h)):
                yield {**c, "hist": h[:i] + h[i + 1:]}
            for i in range(len(h)):
                for j in range(len(h[i])):
                    if len(h[i]) > 1:
                        yield {**c, "hist": h[:i] + [h[i][:j] + h[i][j + 1:]] + h[i + 1:]}
            return
        if c["f"] == "chain":
            ks = c["ks"]
            cands = []
            if len(ks) > 1:
                cands.append((ks[:-1], c["phases"][:-1]))
            for i, k in enumerate(ks):
                if k > 0:
                    cands.append((ks[:i] + [0] + ks[i + 1:], c["phases"]))
                    cands.append((ks[:i] + [k - 1] + ks[i + 1:], c["phases"]))
            for ks2, ph2 in cands:
                yield {**c, "ks": ks2, "phases": ph2, "shape": {**c["shape"], "n": len(ks2)},
                       "faults": [[f"/s{i}", "0", ph2[i], "soft", ks2[i]] for i in range(len(ks2)) if ks2[i] > 0]}
            if c.get("sched") is not None:
                yield {**c, "sched": None}
            return
        fs = c.get("faults", [])
        for i in range(len(fs)):
            if len(fs) > 1:
                yield {**c, "faults": fs[:i] + fs[i + 1:]}
        for i in range(len(fs)):
            if fs[i][4] > 1:
                yield {**c, "faults": fs[:i] + [fs[i][:4] + [fs[i][4] - 1]] + fs[i + 1:]}
        if c.get("sched") is not None:
            yield {**c, "sched": None}
        sh = c.get("shape", {})
        if sh.get("kind") == "scatter" and sh["width"] > 1 and c["f"] != "chain":
            w = sh["width"] - 1
            if all(not (f[1].startswith("0.") and int(f[1].split(".")[1]) >= w) for f in fs):
                yield {**c, "shape": {**sh, "width": w}}


PROP = C17()
