"""C11 — Released resources return exactly what was reserved."""
from harness.props.c14 import totals
from harness.props.sched_common import Ledger, SchedProp, input_class, loc_class


class C11(SchedProp):
    ID = "C11"
    PROPS_FILE = "Props/C11.v"
    LEVEL_TEXT = ("History level (C11_release, C11_release_loc): after EVERY conformant history (flat locations, one location per allocation; any order of notifications, any repetitions of a status incl. RUNNING/FIREABLE), in any state with no fireable/running job (resp. none on a given location) every ledger has cores = memory = 0 and per mount point exactly the sum of the du results of the released reservations. C11_release_stacked: the same for chains of stacked levels (every level, outer and inner), under coherent releases. Event level: Theorems (Coq, closed): notify_status releases exactly when the job leaves Running, or leaves Fireable for a status other than Running; hence never on a repeated notification of the same status, only for fireable/running jobs, and on every exit from {Fireable, Running}; the arithmetic of one reservation followed by its release on one location, (base + rq) - job_hardware + usage, never raises and restores base's cores and memory and base + measured usage per mount point for all base ledgers, requirements (any keys, aliasing) and usages; the model's reserve/free perform exactly that arithmetic. Refuted in the model AND a known finding of the code (C11_out_of_order_running_refuted): the text's 'regardless of the order' is false for a RUNNING notified after a terminal status - the next terminal notification releases twice (negative cores, or notify_status raises when storage was reserved); the history theorems therefore require RUNNING to go to fireable/running jobs only; with two outer locations stacked on one inner location the doubled inner requirement is reserved and the single one released (known finding). Real runs are replayed on the model and judged whenever no job is fireable/running: cores = memory = 0 and storage = sum of du results on every location.")
    LEVEL_NOTE = ("Partial. The model takes as inputs (observed from the real run, not modelled) the resolved requirement map, the policy's choice, du results and re-bound hardware; asyncio (Condition, task order) is exercised under a seeded permuting loop, not modelled. The history-level theorems hold on stated domains only (flat or stacked chains, one location per allocation, coherent releases, conformant lifecycle); outside them, and for the link between model and code, the statement is judged on every real run by an oracle written from the property text (ledger rebuilt from observations) and by replaying the run's event trace on the model. The model's history ends when an operation raises (run = Err), whereas the real scheduler goes on half-updated (e.g. notify_status raising out of _free_resources: status changed, nothing released, no notify_all): such runs are judged by the oracle only. Trusted: Coq kernel + vm_compute, Sched/Model.v, Hardware/Model.v, the harness fakes. No axioms. The history theorems do not cover several locations per target nor incoherent releases (C11_shared_inner_leak_refuted and the multi-location known findings are such histories).")

    def oracle(self, case, obs):
        if "crash" in obs or "hang" in obs:
            return ("crash", f"driver crashed/hung: {obs.get('exc')} {obs.get('stderr', '')[-400:]}")
        if case.get("raw"):
            return None
        led = Ledger(case)
        for i, st in enumerate(obs["steps"]):
            led.feed(st)
            if st["exc"] and st["exc"].startswith("notify:"):
                return ("notify-raises", f"op #{i} {st['op']}: {st['exc']}")
            if led.active(st["snap"]):
                continue
            for name, h in st["snap"]["hwloc"]:
                if h["c"] != 0 or h["m"] != 0:
                    return ("cores-memory-not-zero@" + loc_class(case, name), f"after op #{i} {st['op']} no job is fireable/running but "
                                                     f"{name} still reserves cores={h['c']} memory={h['m']}")
                want = led.measured.get(name, {})
                got = totals(h)
                for m in set(want) | set(got):
                    if want.get(m, 0) != got.get(m, 0):
                        return ("storage-not-measured-usage@" + loc_class(case, name), f"after op #{i} {st['op']} no job is fireable/running; {name} "
                                                              f"reserves {got.get(m, 0)} on {m}, measured usage is {want.get(m, 0)}")
        return None

    def signature(self, case, obs, clause):
        # releasing a multi-location allocation is known to be wrong whatever the location: one signature per clause
        multi = any(t["n"] > 1 for j in case["jobs"].values() for t in j["targets"])
        ic = input_class(obs)
        return f"{clause.split('@')[0]}{ic}/multi" if multi else f"{clause}{ic}/single"


PROP = C11()
