"""C08 — Saving then loading a workflow reproduces it exactly.

Two case kinds, both on the real code with an in-memory SQLite database:
  tok : a nested token is saved, loaded twice (two loading contexts), one copy is mutated, a third load follows;
        the token table is dumped and goes, with the loaded token, to the Coq model (Persist/Model.v);
  wf  : a workflow graph (ports of the three built-in classes, scatter / gather / combinator steps with nested
        combinator trees, tokens on ports) is saved, loaded twice, deep-copied through WorkflowBuilder, one copy
        is mutated, a third load follows; the workflow / port / step / dependency tables are dumped and go, with
        the loaded workflow, to the Coq model (Persist/WfModel.v)."""
import copy
import json

from harness.lib.framework import Prop, coq_bool, coq_list, coq_nat, coq_opt, coq_str, coq_Z
from harness.props.c09 import coq_jv

TOKCLS = "streamflow.core.workflow.Token"
RESERVED = {"list": "streamflow.workflow.token.ListToken", "obj": "streamflow.workflow.token.ObjectToken",
            "term": "streamflow.workflow.token.TerminationToken",
            "iter": "streamflow.workflow.token.IterationTerminationToken",
            "job": "streamflow.workflow.token.JobToken"}
JOBCLS = "streamflow.core.workflow.Job"
COMB = {"dot": "DotProductCombinator", "cart": "CartesianProductCombinator", "loop": "LoopCombinator",
        "loopterm": "LoopTerminationCombinator"}


def coq_ptok(t):
    k = t["k"]
    if k == "tok":
        return f"(PTok {coq_str(t['cls'])} {coq_str(t['tag'])} {coq_jv(t['v'])} {coq_bool(t['rec'])})"
    if k == "list":
        return f"(PList {coq_str(t['tag'])} {coq_list([coq_ptok(x) for x in t['l']])})"
    if k == "obj":
        return (f"(PObj {coq_str(t['tag'])} {coq_list([coq_str(a) for a, _ in t['d']])} "
                f"{coq_list([coq_ptok(x) for _, x in t['d']])})")
    if k == "term":
        return f"(PTerm {coq_Z(t['status'])})"
    if k == "iter":
        return f"(PIter {coq_str(t['tag'])})"
    if k == "job":
        return (f"(PJob {coq_str(t['tag'])} {coq_bool(t['rec'])} {coq_str(t['name'])} {coq_Z(t['wfid'])} "
                f"{coq_list([coq_jv(x) for x in t['dirs']])} {coq_list([coq_str(a) for a, _ in t['d']])} "
                f"{coq_list([coq_ptok(x) for _, x in t['d']])})")
    raise ValueError(k)


def json_ok(v):
    if v is None or isinstance(v, (bool, str)):
        return True
    if isinstance(v, int):
        return True
    if isinstance(v, list):
        return all(json_ok(x) for x in v)
    if isinstance(v, dict):
        return all(isinstance(k, str) and json_ok(x) for k, x in v.items())
    return False


def tok_in_model(t):
    k = t.get("k")
    if k == "tok":
        return json_ok(t["v"]) and t["cls"] == TOKCLS
    if k == "list":
        return all(tok_in_model(x) for x in t["l"])
    if k in ("obj", "job"):
        return all(tok_in_model(x) for _, x in t["d"])
    return k in ("term", "iter")


def coq_smap(d):
    return coq_list([f"({coq_str(k)}, {coq_str(v)})" for k, v in d.items()])


def coq_strs(l):
    return coq_list([coq_str(x) for x in l])


def _ccls(name, depth, outs):
    if name == "DotProductCombinator":
        return "CDot"
    if name == "CartesianProductCombinator":
        return f"(CCart {coq_Z(depth)})"
    if name == "LoopCombinator":
        return "CLoop"
    if name == "LoopTerminationCombinator":
        return f"(CLoopTerm {coq_strs(outs)})"
    return None


def coq_pcomb(c):
    """from the harness dump of an in-memory combinator"""
    cls = _ccls(c["cls"], c.get("depth"), c.get("out"))
    subs = [coq_pcomb(x) for x in c["sub"].values()]
    if cls is None or any(x is None for x in subs):
        return None
    return (f"(PComb {cls} {coq_str(c['name'])} {coq_strs(c['items'])} {coq_smap(c['map'])} "
            f"{coq_strs(list(c['sub']))} {coq_list(subs)})")


def coq_dcomb(j):
    """from the JSON stored in a step row"""
    try:
        pr = j["params"]
        cls = _ccls(j["type"].rsplit(".", 1)[-1], pr.get("depth"), pr.get("output_items"))
        subs = [coq_dcomb(x) for x in pr["combinators"].values()]
        if cls is None or any(x is None for x in subs):
            return None
        return (f"(DComb {cls} {coq_str(pr['name'])} {coq_nat(pr['workflow'])} {coq_strs(pr['items'])} "
                f"{coq_smap(pr['combinators_map'])} {coq_strs(list(pr['combinators']))} {coq_list(subs)})")
    except (KeyError, TypeError, AttributeError, AssertionError):
        return None


def coq_pwf(d, nodes=None):
    """from the harness dump of an in-memory workflow (+ the tree views of its ExecuteSteps)"""
    steps = []
    nodes = nodes or {}
    for st in d["steps"].values():
        if st["cls"] == "ScatterStep":
            k = "KScatter"
        elif st["cls"] == "GatherStep":
            k = f"(KGather {coq_Z(st['depth'])})"
        elif st["cls"] in ("CombinatorStep", "LoopCombinatorStep"):
            c = coq_pcomb(st["comb"])
            if c is None:
                return None
            k = f"(KComb {coq_bool(st['cls'] == 'LoopCombinatorStep')} {c})"
        elif st["cls"].startswith("Plain") and st["fcls"].startswith("harness.props.c08_classes."):
            k = f"(KPlain {coq_str(st['fcls'])})"
        elif st["cls"].startswith("JobIn") and st["fcls"].startswith("harness.props.c08_classes."):
            k = f"(KJobIn {coq_str(st['fcls'])})"
        elif st["cls"] == "ExecuteStep":
            nd = nodes.get(st["name"], {"procs": {}, "command": None})
            if set(nd["procs"]) != set(st["procs"]) or (nd["command"] is None) != (st["command"] is None):
                return None
            ps = [coq_ptree(x) for x in nd["procs"].values()]
            cmd = coq_ptree(nd["command"]) if nd["command"] is not None else None
            if any(x is None for x in ps) or (nd["command"] is not None and cmd is None):
                return None
            k = (f"(KExecute {coq_smap(st['conns'])} {coq_strs(list(nd['procs']))} {coq_list(ps)} "
                 f"{coq_opt(cmd, lambda x: x)})")
        elif st["cls"] == "DeployStep":
            dc = coq_pdeploy(st["dep"])
            if dc is None:
                return None
            k = f"(KDeploy {dc})"
        elif st["cls"] == "ScheduleStep" and st["hw"] is None:
            b = coq_pbinding(st["binding"])
            if b is None:
                return None
            k = f"(KSchedule {b} {coq_str(st['prefix'])} {coq_list([coq_jv(x) for x in st['dirs']])})"
        else:
            return None
        steps.append(f"(mkstep {coq_str(st['name'])} {k} {coq_Z(st['status'])} {coq_smap(st['in'])} {coq_smap(st['out'])})")
    ports = [f"(mkport {coq_str(p['name'])} {coq_str(p['fcls'])})" for p in d["ports"].values()]
    if not json_ok(d["config"]):
        return None
    return (f"(mkwf {coq_str(d['name'])} {coq_jv(d['config'])} {coq_smap(d['input_ports'])} "
            f"{coq_smap(d['output_ports'])} {coq_list(ports)} {coq_list(steps)})")


def coq_wdb(t):
    """from the SQL dump of the four tables"""
    try:
        wf, po, st, de = [], [], [], []
        for i, (rid, name, params, status, typ) in enumerate(t["workflow"]):
            if rid != i + 1 or not json_ok(params["config"]):
                return None
            wf.append(f"(mkwrow {coq_str(name)} {coq_jv(params['config'])} {coq_smap(params.get('input_ports', {}))} "
                      f"{coq_smap(params['output_ports'])})")
        for i, (rid, name, w, typ, params) in enumerate(t["port"]):
            if rid != i + 1 or params != {}:
                return None
            po.append(f"(mkprow {coq_str(name)} {coq_nat(w)} {coq_str(typ)})")
        for i, (rid, name, w, status, typ, params) in enumerate(t["step"]):
            if rid != i + 1:
                return None
            cls = typ.rsplit(".", 1)[-1]
            if cls == "ScatterStep":
                dp = f"(DScatter {coq_nat(params['size_port'])})"
            elif cls == "GatherStep":
                dp = f"(DGather {coq_Z(params['depth'])} {coq_nat(params['size_port'])})"
            elif cls in ("CombinatorStep", "LoopCombinatorStep"):
                c = coq_dcomb(params["combinator"])
                if c is None:
                    return None
                dp = f"(DCombP {coq_bool(cls == 'LoopCombinatorStep')} {c})"
            elif typ.startswith("harness.props.c08_classes.Plain") and params == {}:
                dp = f"(DPlain {coq_str(typ)})"
            elif typ.startswith("harness.props.c08_classes.JobIn") and list(params) == ["job_port"]:
                dp = f"(DJobIn {coq_str(typ)} {coq_nat(params['job_port'])})"
            elif cls == "ExecuteStep":
                ps = [coq_dtree(x) for x in params["output_processors"].values()]
                cmd = coq_dtree(params["command"]) if params["command"] else None
                if any(x is None for x in ps) or (params["command"] and cmd is None):
                    return None
                dp = (f"(DExecute {coq_nat(params['job_port'])} {coq_smap(params['output_connectors'])} "
                      f"{coq_strs(list(params['output_processors']))} {coq_list(ps)} {coq_opt(cmd, lambda x: x)})")
            elif cls == "DeployStep":
                dp = f"(DDeploy {coq_nat(params['deployment_config'])} {coq_nat(params['connector_port'])})"
            elif cls == "ScheduleStep" and not params.get("hardware_requirement"):
                b = params["binding_config"]
                cps = coq_list([f"({coq_str(k)}, {coq_nat(v)})" for k, v in params["connector_ports"].items()])
                dirs = [params["input_directory"], params["output_directory"], params["tmp_directory"]]
                dp = (f"(DSchedule {coq_list([coq_nat(x) for x in b['targets']])} {coq_list([coq_nat(x) for x in b['filters']])} "
                      f"{coq_nat(params['job_port'])} {cps} {coq_str(params['job_prefix'])} {coq_list([coq_jv(x) for x in dirs])})")
            else:
                return None
            st.append(f"(mksrow {coq_str(name)} {coq_nat(w)} {coq_Z(status)} {dp})")
        for step, port, typ, name in t["dependency"]:
            de.append(f"(mkdrow {coq_nat(step)} {coq_nat(port)} {coq_bool(typ == 0)} {coq_str(name)})")
        cfg = coq_cdb(t["cfg"])
        if cfg is None:
            return None
        return f"(mkwdb {coq_list(wf)} {coq_list(po)} {coq_list(st)} {coq_list(de)} {cfg})"
    except (KeyError, TypeError, AssertionError):
        return None


def coq_ostr(x):
    return coq_opt(x, coq_str)


def coq_pdeploy(d):
    """from the harness dump of a DeploymentConfig (also used for table rows brought to the same shape)"""
    if not (json_ok(d["config"]) and json_ok(d["policy"][2])):
        return None
    wr = "None" if d["wraps"] is None else f"(Some ({coq_str(d['wraps'][0])}, {coq_ostr(d['wraps'][1])}))"
    return (f"(mkdeploy {coq_str(d['name'])} {coq_str(d['type'])} {coq_jv(d['config'])} {coq_bool(d['external'])} "
            f"{coq_bool(d['lazy'])} ({coq_str(d['policy'][0])}, {coq_str(d['policy'][1])}, {coq_jv(d['policy'][2])}) "
            f"{coq_ostr(d['workdir'])} {wr})")


def coq_pbinding(b):
    ts = []
    for t in b["targets"]:
        if t["local"]:
            ts.append(f"(PLocal {coq_str(t['workdir'])})")
        else:
            d = coq_pdeploy(t["dep"])
            if d is None:
                return None
            ts.append(f"(PTarget {d} {coq_Z(t['locations'])} {coq_ostr(t['service'])} {coq_str(t['workdir'])})")
    fs = []
    for f in b["filters"]:
        if not json_ok(f["config"]):
            return None
        fs.append(f"(mkfilter {coq_str(f['name'])} {coq_str(f['type'])} {coq_jv(f['config'])})")
    return f"(mkbinding {coq_list(ts)} {coq_list(fs)})"


def coq_cdb(t):
    try:
        deps, tgts, flts = [], [], []
        for i, (rid, name, typ, config, external, lazy, policy, workdir, wraps) in enumerate(t["deployment"]):
            if rid != i + 1:
                return None
            pol = json.loads(policy)
            wr = json.loads(wraps) if wraps else None
            d = coq_pdeploy({"name": name, "type": typ, "config": json.loads(config), "external": bool(external),
                             "lazy": bool(lazy), "policy": [pol["name"], pol["type"], pol["config"]], "workdir": workdir,
                             "wraps": None if wr is None else [wr["deployment"], wr.get("service")]})
            if d is None:
                return None
            deps.append(d)
        for i, (rid, dep, typ, locations, service, workdir, params) in enumerate(t["target"]):
            if rid != i + 1 or json.loads(params) != {}:
                return None
            local = typ.endswith(".LocalTarget")
            if not local and not typ.endswith(".Target"):
                return None
            tgts.append(f"(mktgrow {coq_bool(local)} {coq_nat(dep)} {coq_Z(locations)} {coq_ostr(service)} {coq_str(workdir)})")
        for i, (rid, name, typ, config) in enumerate(t["filter"]):
            if rid != i + 1 or not json_ok(json.loads(config)):
                return None
            flts.append(f"(mkfilter {coq_str(name)} {coq_str(typ)} {coq_jv(json.loads(config))})")
        return f"(mkcdb {coq_list(deps)} {coq_list(tgts)} {coq_list(flts)})"
    except (KeyError, TypeError, ValueError, AssertionError):
        return None


# ---------------------------------------------------------------------------------------- "type + params" trees
def tree_children(params):
    """(keys, list of child nodes) of a stored {"type", "params"} node: one optional child under "processor",
    a list or a dict of children under "processors"."""
    if isinstance(params.get("processor"), dict):
        return ["processor"], [params["processor"]]
    ps = params.get("processors")
    if isinstance(ps, dict):
        return list(ps), list(ps.values())
    if isinstance(ps, list):
        return [], list(ps)
    return [], []


def coq_jmap(d):
    return coq_list([f"({coq_str(k)}, {coq_jv(v)})" for k, v in d.items()])


def coq_dtree(j):
    """from the stored JSON"""
    try:
        pr = j["params"]
        plain = {k: v for k, v in pr.items() if k not in ("processor", "processors", "workflow")}
        if not json_ok(plain) or plain.get("target") is not None:
            return None
        keys, subs = tree_children(pr)
        ts = [coq_dtree(x) for x in subs]
        if any(t is None for t in ts):
            return None
        wid = coq_opt(pr.get("workflow"), coq_nat)
        return f"(DNode {coq_str(j['type'])} {coq_jmap(plain)} {wid} {coq_strs(keys)} {coq_list(ts)})"
    except (KeyError, TypeError, AttributeError, AssertionError):
        return None


def coq_ptree(n):
    """from the harness view of an in-memory object: {"cls", "params", "keys", "subs"}"""
    if n is None or not json_ok(n["params"]) or n["params"].get("target") is not None:
        return None
    ts = [coq_ptree(x) for x in n["subs"]]
    if any(t is None for t in ts):
        return None
    return f"(PNode {coq_str(n['cls'])} {coq_jmap(n['params'])} {coq_strs(n['keys'])} {coq_list(ts)})"


class C08(Prop):
    ID = "C08"
    PROPS_FILE = "Props/C08.v"
    CORR_MODULE = "Persist.Corr"
    MAX_WORKERS = 8
    CASE_TIMEOUT = 900      # generous: the machine is shared
    SHARD_TIMEOUT = 3600
    COQ_SHARD = 60
    TECHNIQUE = ("Coq proof (nested induction over token trees; append-only table, fuel- and extension-monotone loader) "
                 "+ vm_compute correspondence on the real token table + property oracle on real save/load of workflows")
    LEVEL_TEXT = (
        "Theorems (Coq, closed under the global context): load(save w) = w for every workflow of the modelled classes "
        "(name, config, input/output ports, ports of the generic classes; Scatter, Gather, Combinator and LoopCombinator "
        "steps with combinator trees of any depth, parameterless step classes (subclasses of Transformer, ConditionalStep, "
        "LoopOutputStep), job-port classes (subclasses of TransferStep, InputInjectorStep), ExecuteStep with its output "
        "connectors; status; wiring through the dependency table keyed by (step, port)) in the domain ok_wf (dict keys "
        "unique, every step refers to existing ports and to each under one name only) on every consistent prior database; "
        "the WorkflowBuilder copy has the same structure with statuses reset; refutation witness for a port used under two "
        "names by one step; load(save x) = x for DeploymentConfig, Target, LocalTarget, FilterConfig and a ScheduleStep's "
        "BindingConfig on any prior tables; load(save t) = t for every token tree of any depth and width (Token with any "
        "JSON value, ListToken, ObjectToken, JobToken with its Job and input tokens, TerminationToken, "
        "IterationTerminationToken); saving never changes what stored records load to; with the deep-copying getters a "
        "change inside one handed-out row changes no other handed-out row, cached cell or stored record; refutation witness "
        "for the pre-fix shallow copies. DeployStep (its DeploymentConfig) and ScheduleStep (its binding, prefix, "
        "directories) are inside the workflow theorem, the deployment/target/filter tables threaded through the save. "
        "Tied to /repo on every case: the model's loaders run on the rows the real save wrote and are compared with the "
        "real load; the model's saves are compared with those rows (configuration ids up to renaming). Every entity "
        "stored as nested {type, params} JSON -- a command with its command token processors, command output processors, "
        "token processors, hardware requirements (generic and CWL classes) -- is a tree whose save/load round trip is "
        "proved for every tree (C08_command_roundtrip) and which ExecuteSteps carry inside the workflow theorem. "
        "Processors with a target, a ScheduleStep's hardware requirement, CWL step/port/transformer classes and the "
        "absence of persistent ids in the builder copy are NOT modelled (judged by the oracle on the real code).")
    LEVEL_NOTE = ("Partial: for the {type, params} trees the model fixes the shape only (own parameters verbatim, children "
                  "recursively); which attributes are parameters is read from the stored keys and checked by the oracle "
                  "over all attributes. Processors with a target, CWL step classes, port classes with "
                  "parameters and CWL entities are outside the workflow theorem; dict and row order and the interleaving "
                  "of concurrent INSERTs are abstracted (compared as maps/sets); shared configuration objects are saved "
                  "once by the code and per occurrence by the tree model; independence is proved at the database layer "
                  "only. Trusted: Coq kernel + vm_compute; hand-written Persist/{WfModel,CfgModel,Model}.v and "
                  "DbCache/Model.v; SQLite/aiosqlite/json/asyncio. No axioms.")
    RULE = ("tok: random token trees (depth<=4, width<=4, JSON values incl. unicode, nested containers, empty "
            "containers, all six classes incl. JobToken with its Job and input tokens); wf: random graphs of 1-6 ports and 0-5 steps (scatter, gather with depth, "
            "combinator and loop-combinator steps with nested dot/cartesian/loop/loop-termination trees, concrete "
            "subclasses of Transformer/ConditionalStep/LoopOutputStep/TransferStep/InputInjectorStep, ExecuteStep with "
            "output connectors, DeployStep and ScheduleStep with their deployment/binding configurations), tokens on ports, input/output ports, nested config; cfg: bindings of 0-3 targets (plain and "
            "local, deployments with wraps/policy/workdir variants) and 0-2 filters; proc: command / command-token-processor / output-processor / token-processor / hardware trees to "
            "depth 3 over the generic and CWL classes. Non-trivial = a token tree with a container, or a workflow with >=1 step. Distinct = "
            "distinct canonical JSON.")
    TRUSTED = ("models: Persist/Model.v (token classes incl. JobToken/Job over the token table), Persist/WfModel.v (Workflow, "
               "Port, Step and the step classes listed in LEVEL_TEXT over the workflow/port/step/dependency tables), "
               "Persist/CfgModel.v (DeploymentConfig, Target, LocalTarget, FilterConfig, BindingConfig) are hand-written; "
               "SQLite, aiosqlite, json, asyncio.gather ordering are not verified",)
    ASSUMPTIONS = ("token trees share no token object between two containers",
                   "JSON values without floats/NaN; dict keys are strings (JSON itself does not round-trip others)",
                   "a step refers to a port under one name only (known finding otherwise; replayed from the corpus)",
                   "step classes other than Scatter/Gather/Combinator and port classes with parameters: not covered")

    # ---------------------------------------------------------------- generation
    def _str(self, rng):
        return rng.choice(["a", "b", "k", "x y", "", "é", "日本", "a\"b", "𝄞", "0", "items", "null"])

    def _json(self, rng, d=0):
        r = rng.random()
        if d >= 2 or r < 0.45:
            return rng.choice([None, True, False, 0, 1, -7, 2**40, "s", "", "é𝄞", [], {}])
        if r < 0.7:
            return [self._json(rng, d + 1) for _ in range(rng.randrange(0, 4))]
        return {self._str(rng): self._json(rng, d + 1) for _ in range(rng.randrange(0, 4))}

    def _tag(self, rng):
        return rng.choice(["0", "0.0", "0.1", "0.10", "0.2.3", "1"])

    def _tok(self, rng, d=0):
        r = rng.random()
        if d >= 3 or r < 0.4:
            k = rng.random()
            if k < 0.75:
                return {"k": "tok", "cls": TOKCLS, "tag": self._tag(rng), "v": self._json(rng), "rec": rng.random() < 0.4}
            if k < 0.88:
                return {"k": "term", "status": rng.choice([3, 4, 5, 6])}
            return {"k": "iter", "tag": self._tag(rng)}
        if r < 0.66:
            return {"k": "list", "tag": self._tag(rng), "l": [self._tok(rng, d + 1) for _ in range(rng.randrange(0, 4))]}
        ks = []
        for _ in range(rng.randrange(0, 4)):
            s = self._str(rng)
            if s not in ks:
                ks.append(s)
        if r < 0.84:
            return {"k": "obj", "tag": self._tag(rng), "d": [[s, self._tok(rng, d + 1)] for s in ks]}
        return {"k": "job", "tag": self._tag(rng), "rec": rng.random() < 0.3, "name": "/step" + self._str(rng) + "/0.1",
                "wfid": rng.randrange(1, 5), "dirs": [rng.choice([None, "/tmp/é", "/a b"]) for _ in range(3)],
                "d": [[s, self._tok(rng, d + 1)] for s in ks]}

    def _comb(self, rng, names, d=0):
        kind = rng.choice(["dot", "cart", "loop", "loopterm"])
        nm = f"c{len(names)}"
        names.append(nm)
        c = {"kind": kind, "name": nm, "items": [], "sub": []}
        if kind == "cart":
            c["depth"] = rng.randrange(1, 3)
        if kind == "loopterm":
            c["out"] = [self._str(rng) for _ in range(rng.randrange(0, 3))]
        for _ in range(rng.randrange(1, 4)):
            if d < 3 and rng.random() < (0.45 if d == 0 else 0.4):
                sub = self._comb(rng, names, d + 1)
                c["sub"].append({"c": sub, "ports": [f"p{rng.randrange(9)}" for _ in range(rng.randrange(1, 3))]})
            else:
                c["items"].append(f"i{rng.randrange(9)}")
        return c

    def _wf(self, rng):
        nports = rng.randrange(1, 7)
        ports = [{"name": f"port{i}", "cls": rng.choice(["Port", "Port", "JobPort", "ConnectorPort"])} for i in range(nports)]
        steps = []
        with_cfg = rng.random() < 0.4       # DeployStep / ScheduleStep with their configuration objects
        for i in range(rng.randrange(0, 6)):
            kind = rng.choice(["scatter", "gather", "comb", "comb", "loopcomb", "plain", "plain", "jobin", "execute"]
                              + (["deploy", "schedule"] * 2 if with_cfg else []))
            st = {"name": f"/step{i}" + rng.choice(["", "-scatter", "/é"]), "kind": kind,
                  "in": {}, "out": {}, "status": rng.choice([0, 0, 1, 2, 4, 5, 3])}   # 6 (CANCELLED): corpus only, known finding
            for j in range(rng.randrange(0, 3)):
                st["in"][rng.choice(["a", "b", "in", "x y"]) + str(j)] = rng.randrange(nports)
            for j in range(rng.randrange(0, 3)):
                st["out"][rng.choice(["o", "out", "é"]) + str(j)] = rng.randrange(nports)
            if kind == "plain" and rng.random() < 0.25:
                # the CWL conditional steps (skip ports): judged by the oracle only
                kind = st["kind"] = rng.choice(["cwlempty", "cwlcond"])
                st["method"] = rng.choice(["dotproduct", "nested_crossproduct", "flat_crossproduct"])
                st["expr"], st["lib"], st["full_js"] = "$(inputs.x > 1)", rng.choice([None, ["lib"]]), rng.random() < 0.5
                st["skip"] = {f"sk{j}": rng.randrange(nports) for j in range(rng.randrange(0, 3))}
            if kind == "plain":
                st["cls"] = rng.choice(["PlainTransformer", "PlainConditional", "PlainLoopOutput"])
                if st["cls"] == "PlainLoopOutput":
                    st["in"] = dict(list(st["in"].items())[:1])
                    st["out"] = dict(list(st["out"].items())[:1])
            elif kind == "jobin":
                st["cls"] = rng.choice(["JobInTransfer", "JobInInjector"])
                st["out"] = dict(list(st["out"].items())[:1])
            elif kind == "execute":
                st["conns"] = {k: self._str(rng) for k in list(st["out"])[:rng.randrange(0, 3)]}
                st["procs"] = {k: self._ptree(rng, "out", 1) for k in st["out"] if rng.random() < 0.7}
                st["command"] = self._ptree(rng, "cmd") if rng.random() < 0.5 else None
            elif kind == "deploy":
                st["dep"] = self._dep(rng)
                st["in"], st["out"] = {}, {}
            elif kind == "schedule":
                b = self._cfg(rng)
                st["binding"] = {"targets": b["targets"], "filters": b["filters"]}
                st["prefix"] = rng.choice([None, "/pre fix"])
                st["dirs"] = [rng.choice([None, "/d é"]) for _ in range(3)]
                st["out"] = {}
                st["in"] = {"__connector__" + k[:-1]: v for k, v in st["in"].items()}
            elif kind in ("comb", "loopcomb"):
                st["comb"] = self._comb(rng, [])
            if kind in ("scatter", "gather"):
                st["size_port"] = rng.randrange(nports)
                st["in"] = dict(list(st["in"].items())[:1])
                st["out"] = dict(list(st["out"].items())[:1])
                if kind == "gather":
                    st["depth"] = rng.randrange(1, 4)
            # the dependency table is keyed by (step, port): a step refers to a port under one name only
            free = [p for p in range(nports) if p != st.get("size_port")]
            rng.shuffle(free)
            if kind in ("jobin", "execute", "deploy", "schedule"):      # the port the constructor wires itself
                if not free:
                    continue
                st["own_port"] = free.pop()
            for k in ("in", "out"):
                for nm in list(st[k]):
                    if free:
                        st[k][nm] = free.pop()
                    else:
                        del st[k][nm]
            else:
                st["comb"] = self._comb(rng, [])
            steps.append(st)
        toks = [{"port": rng.randrange(nports), "t": self._tok(rng, 1)} for _ in range(rng.randrange(0, 4))]
        outp = {self._str(rng): f"port{rng.randrange(nports)}" for _ in range(rng.randrange(0, 3))}
        inp = {self._str(rng): f"port{rng.randrange(nports)}" for _ in range(rng.randrange(0, 3))}
        return {"f": "wf", "name": rng.choice(["wf", "w é", "/a/b"]), "config": {"cfg": self._json(rng), "l": [self._json(rng)]},
                "ports": ports, "steps": steps, "tokens": toks, "output_ports": outp, "input_ports": inp}

    def _dep(self, rng):
        return {"name": self._str(rng) or "d", "type": rng.choice(["local", "docker", "ssh", "slurm"]),
                "config": rng.choice([None, {}, {"image": "x", "volumes": [self._json(rng, 1)]}, {"k": self._json(rng)}]),
                "external": rng.random() < 0.5, "lazy": rng.random() < 0.5,
                "policy": rng.choice([None, {"name": "p", "type": "data_locality", "config": {"a": [1]}}]),
                "workdir": rng.choice([None, "/w d", "/é"]),
                "wraps": rng.choice([None, None, {"deployment": "outer", "service": None},
                                     {"deployment": "o é", "service": "svc"}])}

    def _cfg(self, rng):
        ts = []
        for _ in range(rng.randrange(0, 4)):
            if rng.random() < 0.25:
                ts.append({"local": True, "workdir": rng.choice([None, "/tmp/x y"])})
            else:
                ts.append({"local": False, "dep": self._dep(rng), "locations": rng.randrange(1, 4),
                           "service": rng.choice([None, "svc", "é"]), "workdir": rng.choice([None, "/t"])})
        fs = [{"name": self._str(rng), "type": rng.choice(["shuffle", "matching"]),
               "config": rng.choice([None, {}, {"filters": [self._json(rng, 1)]}])} for _ in range(rng.randrange(0, 3))]
        case = {"f": "cfg", "targets": ts, "filters": fs}
        plain = [i for i, t in enumerate(ts) if not t["local"]]
        if len(plain) >= 2 and rng.random() < 0.0:     # sharing is a known finding: corpus only
            case["share"] = plain[:2]
        return case

    # -- "type + params" trees
    def _ptree(self, rng, family, d=0):
        nm = self._str(rng) or "n"
        sf = lambda: rng.choice([None, [], [{"pattern": ".bai", "required": True}, {"pattern": "^.x", "required": "$(1 == 1)"}]])
        if family == "cmdtok":
            r = rng.random()
            if d >= 3 or r < 0.35:
                if rng.random() < 0.3:
                    return {"c": "CWLForward", "a": {"name": nm, "token_type": rng.choice([None, "string", "File"])}}
                return {"c": "CWLTok", "a": {"name": nm, "expression": rng.choice([None, "$(inputs.x)", {"k": [1]}, 3]),
                                             "token_type": rng.choice([None, "int", "string"]),
                                             "is_shell_command": rng.random() < 0.5, "item_separator": rng.choice([None, ","]),
                                             "position": rng.choice([0, 2, "$(self)"]), "prefix": rng.choice([None, "--p"]),
                                             "separate": rng.random() < 0.5, "shell_quote": rng.random() < 0.5},
                        "sub": self._ptree(rng, family, d + 1) if rng.random() < 0.4 and d < 3 else None}
            if r < 0.55:
                return {"c": rng.choice(["MapTok", "CWLMapTok"]), "a": {"name": nm}, "sub": self._ptree(rng, family, d + 1)}
            if r < 0.8:
                ks = list(dict.fromkeys(self._str(rng) for _ in range(rng.randrange(0, 3))))
                return {"c": rng.choice(["ObjTok", "CWLObjTok"]), "a": {"name": nm},
                        "sub": [[k, self._ptree(rng, family, d + 1)] for k in ks]}
            return {"c": "UnionTok", "a": {"name": nm}, "sub": [self._ptree(rng, family, d + 1) for _ in range(rng.randrange(0, 3))]}
        if family == "cmd":
            return {"c": "CWLCommand",
                    "a": {"absolute_initial_workdir_allowed": rng.random() < 0.5, "base_command": rng.choice([None, [], ["echo", "a b"]]),
                          "environment": rng.choice([None, {"A": "$(inputs.a)"}]), "expression_lib": rng.choice([None, ["lib"]]),
                          "failure_codes": rng.choice([None, [1, 2]]), "full_js": rng.random() < 0.5,
                          "initial_work_dir": rng.choice([None, "/home", [{"entry": "x", "entryname": "y"}]]),
                          "inplace_update": rng.random() < 0.5, "is_shell_command": rng.random() < 0.5,
                          "success_codes": rng.choice([None, [0]]), "step_stderr": rng.choice([None, "err"]),
                          "step_stdin": rng.choice([None, "in"]), "step_stdout": rng.choice([None, "out"]),
                          "time_limit": rng.choice([None, 100, "$(1)"])},
                    "sub": [self._ptree(rng, "cmdtok", 1) for _ in range(rng.randrange(0, 4))]}
        if family == "out":
            r = rng.random()
            if d >= 3 or r < 0.4:
                if rng.random() < 0.5:
                    return {"c": "DefaultOut", "a": {"name": nm}}
                return {"c": "CWLOut", "a": {"name": nm, "token_type": rng.choice([None, "File", ["null", "string"]]),
                                             "enum_symbols": rng.choice([None, ["a", "b"]]), "expression_lib": rng.choice([None, ["l"]]),
                                             "file_format": rng.choice([None, "fmt"]), "full_js": rng.random() < 0.5,
                                             "glob": rng.choice([None, "*.txt"]), "load_contents": rng.random() < 0.5,
                                             "load_listing": rng.choice([None, 0, 1, 2]), "optional": rng.random() < 0.5,
                                             "output_eval": rng.choice([None, "$(self)"]), "secondary_files": sf(),
                                             "single": rng.random() < 0.5, "streamable": rng.random() < 0.5}}
            if r < 0.6:
                return {"c": rng.choice(["MapOut", "PopOut"]), "a": {"name": nm}, "sub": self._ptree(rng, family, d + 1)}
            if r < 0.8:
                ks = list(dict.fromkeys(self._str(rng) for _ in range(rng.randrange(0, 3))))
                return {"c": "ObjOut", "a": {"name": nm}, "sub": [[k, self._ptree(rng, family, d + 1)] for k in ks]}
            return {"c": "UnionOut", "a": {"name": nm}, "sub": [self._ptree(rng, family, d + 1) for _ in range(rng.randrange(0, 3))]}
        if family == "tp":
            r = rng.random()
            if d >= 3 or r < 0.4:
                if rng.random() < 0.4:
                    return {"c": "NullTP", "a": {"name": nm}}
                return {"c": "CWLTP", "a": {"name": nm, "token_type": rng.choice([None, "enum", ["File", "null"]]),
                                            "enum_symbols": rng.choice([None, ["p1"]]), "expression_lib": rng.choice([None, ["e"]]),
                                            "file_format": rng.choice([None, "d"]), "full_js": rng.random() < 0.5,
                                            "load_contents": rng.choice([None, True, False]), "load_listing": rng.choice([None, 0, 2]),
                                            "only_propagate_secondary_files": rng.random() < 0.5, "secondary_files": sf(),
                                            "streamable": rng.random() < 0.5}}
            if r < 0.6:
                return {"c": "MapTP", "a": {"name": nm}, "sub": self._ptree(rng, family, d + 1)}
            if r < 0.8:
                ks = list(dict.fromkeys(self._str(rng) for _ in range(rng.randrange(0, 3))))
                return {"c": "ObjTP", "a": {"name": nm}, "sub": [[k, self._ptree(rng, family, d + 1)] for k in ks]}
            return {"c": "UnionTP", "a": {"name": nm}, "sub": [self._ptree(rng, family, d + 1) for _ in range(rng.randrange(0, 3))]}
        if family == "hw":
            amt = lambda: rng.choice([None, 1, 1024, "$(inputs.n)"])
            return {"c": "CWLHw", "a": {"cwl_version": "v1.2", "cores": amt(), "memory": amt(), "tmpdir": amt(), "outdir": amt(),
                                        "full_js": rng.random() < 0.5, "expression_lib": rng.choice([None, ["lib"]])}}
        raise ValueError(family)

    def _proc(self, rng):
        family = rng.choice(["cmd", "cmd", "cmdtok", "out", "out", "tp", "hw"])
        return {"f": "proc", "family": family, "tree": self._ptree(rng, family)}

    def gen(self, rng, tier):
        n = {"quick": 150, "thorough": 1500, "extended": 800}[tier]
        cases = [{"f": "tok", "t": self._tok(rng)} for _ in range(n)]
        cases += [self._wf(rng) for _ in range(n // 2)]
        cases += [self._cfg(rng) for _ in range(n // 3)]
        cases += [self._proc(rng) for _ in range(n // 2)]
        return cases

    # ---------------------------------------------------------------- implementation
    def impl_init(self):
        import asyncio
        import os

        from streamflow.core import deployment as dep
        from streamflow.core import utils
        from streamflow.core.config import BindingConfig, Config
        from streamflow.core.workflow import Job, Status, Token, Workflow
        from streamflow.main import build_context
        from streamflow.persistence.loading_context import DefaultDatabaseLoadingContext, WorkflowBuilder
        from streamflow.workflow import combinator as comb
        from streamflow.workflow import port as wport
        from streamflow.workflow import step as wstep
        from streamflow.workflow import token as wtoken

        from harness.props import c08_classes as classes

        self.m = dict(asyncio=asyncio, os=os, utils=utils, dep=dep, BindingConfig=BindingConfig, Config=Config, Job=Job, Status=Status, Token=Token, Workflow=Workflow,
                      build_context=build_context, DLC=DefaultDatabaseLoadingContext, WB=WorkflowBuilder,
                      comb=comb, wport=wport, wstep=wstep, wtoken=wtoken, classes=classes)
        self.loop = asyncio.new_event_loop()

    def _ctx(self):
        return self.m["build_context"]({"database": {"type": "default", "config": {"connection": ":memory:"}},
                                        "path": self.m["os"].getcwd()})

    # -- tokens
    def _mk_tok(self, t):
        wt, m = self.m["wtoken"], self.m
        k = t["k"]
        if k == "tok":
            return m["utils"].get_class_from_name(t["cls"])(value=copy.deepcopy(t["v"]), tag=t["tag"], recoverable=t["rec"])
        if k == "list":
            return wt.ListToken(value=[self._mk_tok(x) for x in t["l"]], tag=t["tag"])
        if k == "obj":
            return wt.ObjectToken(value={a: self._mk_tok(x) for a, x in t["d"]}, tag=t["tag"])
        if k == "term":
            return wt.TerminationToken(m["Status"](t["status"]))
        if k == "iter":
            return wt.IterationTerminationToken(tag=t["tag"])
        if k == "job":
            job = m["Job"](name=t["name"], workflow_id=t["wfid"], inputs={a: self._mk_tok(x) for a, x in t["d"]},
                           input_directory=t["dirs"][0], output_directory=t["dirs"][1], tmp_directory=t["dirs"][2])
            return wt.JobToken(value=job, tag=t["tag"], recoverable=t["rec"])
        raise ValueError(k)

    def _dump_tok(self, tok):
        wt = self.m["wtoken"]
        cls = self.m["utils"].get_class_fullname(type(tok))
        if isinstance(tok, wt.ListToken):
            return {"k": "list", "tag": tok.tag, "l": [self._dump_tok(x) for x in tok.value]}
        if isinstance(tok, wt.ObjectToken):
            return {"k": "obj", "tag": tok.tag, "d": [[a, self._dump_tok(x)] for a, x in tok.value.items()]}
        if isinstance(tok, wt.JobToken):
            j = tok.value
            d = {"k": "job", "tag": tok.tag, "rec": bool(tok.recoverable), "name": j.name, "wfid": j.workflow_id,
                 "dirs": [j.input_directory, j.output_directory, j.tmp_directory],
                 "d": [[a, self._dump_tok(x)] for a, x in j.inputs.items()]}
            if self.m["utils"].get_class_fullname(type(j)) != JOBCLS:
                d["jobcls"] = self.m["utils"].get_class_fullname(type(j))
            return d
        if isinstance(tok, wt.TerminationToken):
            return {"k": "term", "status": int(tok.value.value), "tag": tok.tag} if tok.tag != "0" else \
                {"k": "term", "status": int(tok.value.value)}
        if isinstance(tok, wt.IterationTerminationToken):
            return {"k": "iter", "tag": tok.tag} if tok.value is None else {"k": "iter", "tag": tok.tag, "v": repr(tok.value)}
        v = tok.value
        return {"k": "tok", "cls": cls, "tag": tok.tag, "v": copy.deepcopy(v) if json_ok(v) else {"__repr__": repr(v)},
                "rec": bool(tok.recoverable)}

    def _mut_tok(self, tok):
        """the caller changes everything it can reach in a loaded token"""
        wt = self.m["wtoken"]
        if isinstance(tok, wt.ListToken):
            for x in tok.value:
                self._mut_tok(x)
            tok.value.append(self.m["Token"]("intruder"))
        elif isinstance(tok, wt.ObjectToken):
            for x in tok.value.values():
                self._mut_tok(x)
            tok.value["intruder"] = self.m["Token"]("intruder")
        elif isinstance(tok, wt.JobToken):
            for x in tok.value.inputs.values():
                self._mut_tok(x)
            tok.value.inputs["intruder"] = self.m["Token"]("intruder")
            tok.value.name += "x"
            tok.value.tmp_directory = "/intruder"
        elif isinstance(tok.value, list):
            tok.value.append("intruder")
        elif isinstance(tok.value, dict):
            for x in tok.value.values():
                if isinstance(x, list):
                    x.append("intruder")
                elif isinstance(x, dict):
                    x["intruder"] = 1
            tok.value["intruder"] = 1
        tok.tag = tok.tag + ".99"

    async def _rows(self, ctx):
        async with ctx.database.connection as db:
            async with db.execute("SELECT id, type, tag, value, EXISTS(SELECT 1 FROM recoverable r WHERE r.id = token.id) "
                                  "AS rec FROM token ORDER BY id") as cur:
                return [[r[0], r[1], r[2], json.loads(r[3]), bool(r[4])] for r in await cur.fetchall()]

    async def _run_tok(self, case):
        ctx = self._ctx()
        try:
            tok = self._mk_tok(case["t"])
            await tok.save(ctx.database)
            rows = await self._rows(ctx)
            root = tok.persistent_id
            l1 = await self.m["DLC"](ctx.database).load_token(root)
            l2 = await self.m["DLC"](ctx.database).load_token(root)
            o = {"rows": rows, "root": root, "orig": self._dump_tok(tok), "l1": self._dump_tok(l1),
                 "l2": self._dump_tok(l2), "same_object": l1 is l2}
            self._mut_tok(l1)
            o["l2_after"] = self._dump_tok(l2)
            o["l3"] = self._dump_tok(await self.m["DLC"](ctx.database).load_token(root))
            o["rows_after"] = await self._rows(ctx) == rows
            return o
        finally:
            await ctx.database.close()

    async def _tables(self, ctx):
        qs = {"workflow": "SELECT id, name, params, status, type FROM workflow ORDER BY id",
              "port": "SELECT id, name, workflow, type, params FROM port ORDER BY id",
              "step": "SELECT id, name, workflow, status, type, params FROM step ORDER BY id",
              "dependency": "SELECT step, port, type, name FROM dependency"}
        out = {}
        async with ctx.database.connection as db:
            for t, q in qs.items():
                async with db.execute(q) as cur:
                    out[t] = [list(r) for r in await cur.fetchall()]
        for r in out["workflow"]:
            r[2] = json.loads(r[2])
        for r in out["port"]:
            r[4] = json.loads(r[4])
        for r in out["step"]:
            r[5] = json.loads(r[5])
        out["cfg"] = await self._cfg_tables(ctx)
        return out

    # -- workflows
    def _mk_comb(self, c, wf):
        cm = self.m["comb"]
        cls = getattr(cm, COMB[c["kind"]])
        comb = cls(name=c["name"], workflow=wf, depth=c["depth"]) if c["kind"] == "cart" else cls(name=c["name"], workflow=wf)
        for x in c.get("out", []):
            comb.add_output_item(x)
        for it in c["items"]:
            comb.add_item(it)
        for s in c["sub"]:
            comb.add_combinator(self._mk_comb(s["c"], wf), set(s["ports"]))
        return comb

    def _dump_comb(self, c):
        d = {"cls": type(c).__name__, "name": c.name, "items": list(c.items), "map": dict(sorted(c.combinators_map.items())),
             "sub": {k: self._dump_comb(v) for k, v in c.combinators.items()}}
        if hasattr(c, "depth"):
            d["depth"] = c.depth
        if hasattr(c, "output_items"):
            d["out"] = list(c.output_items)
        return d

    def _dump_wf(self, wf, ids=True):
        ws = self.m["wstep"]
        steps = {}
        for n, s in wf.steps.items():
            d = {"cls": type(s).__name__, "name": s.name, "status": int(s.status), "terminated": bool(s.terminated),
                 "in": dict(s.input_ports),
                 "out": dict(s.output_ports), "wf_is_this": s.workflow is wf}
            d["fcls"] = self.m["utils"].get_class_fullname(type(s))
            if isinstance(s, ws.GatherStep):
                d["depth"] = s.depth
            if isinstance(s, ws.ExecuteStep):
                d["conns"] = dict(s.output_connectors)
                d["procs"] = {k: self._dump_obj(v) for k, v in s.output_processors.items()}
                d["command"] = self._dump_obj(s.command)
            if hasattr(s, "skip_ports"):
                d["skip_ports"] = dict(s.skip_ports)
                d["cwl"] = {k: self._plain(getattr(s, k)) for k in ("scatter_method", "expression", "expression_lib", "full_js")
                            if hasattr(s, k)}
            if isinstance(s, ws.DeployStep):
                d["dep"] = self._dump_dep(s.deployment_config)
            if isinstance(s, ws.ScheduleStep):
                d["binding"] = self._dump_binding(s.binding_config)
                d["prefix"] = s.job_prefix
                d["dirs"] = [s.input_directory, s.output_directory, s.tmp_directory]
                d["hw"] = None if s.hardware_requirement is None else type(s.hardware_requirement).__name__
            if isinstance(s, ws.CombinatorStep):
                d["comb"] = self._dump_comb(s.combinator)
            if ids:
                d["has_id"] = s.persistent_id is not None
            steps[n] = d
        ports = {n: {"cls": type(p).__name__, "fcls": self.m["utils"].get_class_fullname(type(p)), "name": p.name,
                     "wf_is_this": p.workflow is wf,
                     **({"has_id": p.persistent_id is not None} if ids else {})} for n, p in wf.ports.items()}
        return {"name": wf.name, "config": copy.deepcopy(wf.config), "output_ports": dict(wf.output_ports),
                "input_ports": dict(wf.input_ports), "steps": steps, "ports": ports,
                **({"has_id": wf.persistent_id is not None} if ids else {})}

    def _exec_nodes(self, wf, tables):
        out = {}
        rows = {r[1]: r[5] for r in tables["step"]}
        for n, st in wf.steps.items():
            if isinstance(st, self.m["wstep"].ExecuteStep) and n in rows:
                pr = rows[n]
                out[n] = {"procs": {k: self._node(v, pr.get("output_processors", {}).get(k)) for k, v in st.output_processors.items()},
                          "command": None if st.command is None else self._node(st.command, pr.get("command"))}
        return out

    async def _run_wf(self, case):
        m = self.m
        ctx = self._ctx()
        try:
            wf = m["Workflow"](ctx, config=copy.deepcopy(case["config"]), name=case["name"])
            pcls = {"Port": m["wport"].Port if hasattr(m["wport"], "Port") else None, "JobPort": m["wport"].JobPort,
                    "ConnectorPort": m["wport"].ConnectorPort}
            from streamflow.core.workflow import Port
            pcls["Port"] = Port
            ports = [wf.create_port(cls=pcls[p["cls"]], name=p["name"]) for p in case["ports"]]
            for st in case["steps"]:
                if st["kind"] == "scatter":
                    s = wf.create_step(m["wstep"].ScatterStep, name=st["name"], size_port=ports[st["size_port"]])
                elif st["kind"] == "gather":
                    s = wf.create_step(m["wstep"].GatherStep, name=st["name"], size_port=ports[st["size_port"]],
                                       depth=st["depth"])
                elif st["kind"] in ("comb", "loopcomb"):
                    s = wf.create_step(m["wstep"].CombinatorStep if st["kind"] == "comb" else m["wstep"].LoopCombinatorStep,
                                       name=st["name"], combinator=self._mk_comb(st["comb"], wf))
                elif st["kind"] == "plain":
                    s = wf.create_step(getattr(m["classes"], st["cls"]), name=st["name"])
                elif st["kind"] == "jobin":
                    s = wf.create_step(getattr(m["classes"], st["cls"]), name=st["name"], job_port=ports[st["own_port"]])
                elif st["kind"] == "execute":
                    s = wf.create_step(m["wstep"].ExecuteStep, name=st["name"], job_port=ports[st["own_port"]])
                    s.output_connectors = dict(st["conns"])
                elif st["kind"] in ("cwlempty", "cwlcond"):
                    from streamflow.cwl import step as cwlstep
                    if st["kind"] == "cwlempty":
                        s = wf.create_step(cwlstep.CWLEmptyScatterConditionalStep, name=st["name"], scatter_method=st["method"])
                    else:
                        s = wf.create_step(cwlstep.CWLConditionalStep, name=st["name"], expression=st["expr"],
                                           expression_lib=st["lib"], full_js=st["full_js"])
                    for n, p in st["skip"].items():
                        s.add_skip_port(n, ports[p])
                elif st["kind"] == "deploy":
                    b = self._mk_binding({"targets": [{"local": False, "dep": st["dep"], "locations": 1, "service": None,
                                                       "workdir": None}], "filters": []})
                    s = wf.create_step(m["wstep"].DeployStep, name=st["name"], deployment_config=b.targets[0].deployment,
                                       connector_port=ports[st["own_port"]])
                elif st["kind"] == "schedule":
                    s = wf.create_step(m["wstep"].ScheduleStep, name=st["name"], binding_config=self._mk_binding(st["binding"]),
                                       connector_ports={}, job_port=ports[st["own_port"]], job_prefix=st["prefix"],
                                       input_directory=st["dirs"][0], output_directory=st["dirs"][1],
                                       tmp_directory=st["dirs"][2])
                else:
                    raise ValueError(st["kind"])
                for n, p in st["in"].items():
                    s.add_input_port(n, ports[p])
                for n, p in st["out"].items():
                    if st["kind"] == "execute" and n in st.get("procs", {}):
                        s.add_output_port(n, ports[p], self._mk_tree(st["procs"][n], wf))
                    else:
                        s.add_output_port(n, ports[p])
                if st["kind"] == "execute" and st.get("command"):
                    s.command = self._mk_tree({**st["command"], "_step": s}, wf)
                s.status = m["Status"](st["status"])
                # what every terminate() leaves behind: terminated is set for each final status
                s.terminated = st["status"] in (3, 4, 5, 6)
            wf.output_ports = dict(case["output_ports"])
            wf.input_ports = dict(case["input_ports"])
            await wf.save(ctx.database)
            if case.get("legacy"):
                # a row written before input ports were persisted (b798f0b): no "input_ports" key in params
                async with ctx.database.connection as db:
                    async with db.execute("SELECT params FROM workflow WHERE id = ?", (wf.persistent_id,)) as cur:
                        pr = json.loads((await cur.fetchone())[0])
                    pr.pop("input_ports", None)
                    await db.execute("UPDATE workflow SET params = ? WHERE id = ?", (json.dumps(pr), wf.persistent_id))
                wf.input_ports = {}
            tables = await self._tables(ctx)
            toks = []
            for t in case["tokens"]:
                tok = self._mk_tok(t["t"])
                await tok.save(ctx.database, port_id=ports[t["port"]].persistent_id)
                toks.append((tok, ports[t["port"]].persistent_id))
            wid = wf.persistent_id
            l1 = await m["DLC"](ctx.database).load_workflow(wid)
            l2 = await m["DLC"](ctx.database).load_workflow(wid)
            cp = await m["WB"](ctx.database, deep_copy=True).load_workflow(wid)
            o = {"tables": tables, "wid": wid, "orig": self._dump_wf(wf), "l1": self._dump_wf(l1), "l2": self._dump_wf(l2),
                 "orig_nodes": self._exec_nodes(wf, tables), "l1_nodes": self._exec_nodes(l1, tables),
                 "copy": self._dump_wf(cp, ids=False),
                 "copy_ids": [x.persistent_id for x in [cp, *cp.ports.values(), *cp.steps.values()]
                              if x.persistent_id is not None],
                 "tokens": []}
            for tok, pid in toks:
                ids = await ctx.database.get_port_tokens(pid)
                o["tokens"].append({"orig": self._dump_tok(tok), "in_port": tok.persistent_id in ids,
                                    "loaded": self._dump_tok(await m["DLC"](ctx.database).load_token(tok.persistent_id))})
            # the caller changes the first copy
            l1.config["intruder"] = 1
            for v in l1.config.values():
                if isinstance(v, list):
                    v.append("intruder")
                elif isinstance(v, dict):
                    v["intruder"] = 1
            l1.output_ports["intruder"] = "x"
            for s in l1.steps.values():
                s.input_ports["intruder"] = "x"
                s.output_ports["intruder"] = "x"
                if hasattr(s, "output_connectors"):
                    s.output_connectors["intruder"] = "x"
                    for pr in s.output_processors.values():
                        self._scribble(pr)
                    self._scribble(s.command)
                if hasattr(s, "deployment_config"):
                    s.deployment_config.config["intruder"] = 1
                if hasattr(s, "binding_config"):
                    for t in s.binding_config.targets:
                        t.deployment.config["intruder"] = 1
                    for f in s.binding_config.filters:
                        f.config["intruder"] = 1
                if hasattr(s, "combinator"):
                    stack = [s.combinator]
                    while stack:
                        c = stack.pop()
                        c.add_item("intruder")
                        c.combinators_map["intruder"] = "x"
                        if hasattr(c, "output_items"):
                            c.add_output_item("intruder")
                        stack.extend(c.combinators.values())
            o["l2_after"] = self._dump_wf(l2)
            o["l3"] = self._dump_wf(await m["DLC"](ctx.database).load_workflow(wid))
            o["copy_after"] = self._dump_wf(cp, ids=False)
            return o
        finally:
            await ctx.database.close()

    # -- "type + params" trees: commands, command token processors, output processors, token processors, hardware
    def _plain(self, v):
        import enum
        if isinstance(v, enum.Enum):
            return v.value
        if isinstance(v, (list, tuple)):
            return [self._plain(x) for x in v]
        if isinstance(v, dict):
            return {k: self._plain(x) for k, x in v.items()}
        if v is None or isinstance(v, (bool, int, str)):
            return v
        if type(v).__name__ == "SecondaryFile":
            return {"pattern": v.pattern, "required": v.required}
        return {"__object__": type(v).__name__}

    def _obj_children(self, obj):
        if getattr(obj, "processor", None) is not None and not isinstance(getattr(obj, "processor", None), (list, dict)):
            return ["processor"], [obj.processor]
        ps = getattr(obj, "processors", None)
        if isinstance(ps, dict):
            return list(ps), list(ps.values())
        if isinstance(ps, list):
            return [], list(ps)
        return [], []

    def _node(self, obj, j):
        """the model's view of an in-memory object: its own parameters are the attributes named like the stored ones"""
        keys, subs = self._obj_children(obj)
        jkeys, jsubs = tree_children(j["params"]) if isinstance(j, dict) and isinstance(j.get("params"), dict) else ([], [])
        plain = {}
        for k in (j["params"] if isinstance(j, dict) and isinstance(j.get("params"), dict) else {}):
            if k in ("processor", "processors", "workflow"):
                continue
            plain[k] = self._plain(getattr(obj, k)) if hasattr(obj, k) else {"__missing__": k}
        return {"cls": self.m["utils"].get_class_fullname(type(obj)), "params": plain, "keys": keys,
                "subs": [self._node(c, jsubs[i] if i < len(jsubs) else None) for i, c in enumerate(subs)]}

    def _dump_obj(self, obj, depth=0):
        """every attribute of the object, recursively (back references to the workflow / step left out): the oracle's view"""
        if depth > 12:
            return "<deep>"
        if obj is None or isinstance(obj, (bool, int, str)):
            return obj
        import enum
        if isinstance(obj, enum.Enum):
            return {"__enum__": obj.value}
        if isinstance(obj, (list, tuple)):
            return [self._dump_obj(x, depth + 1) for x in obj]
        if isinstance(obj, dict):
            return {str(k): self._dump_obj(x, depth + 1) for k, x in obj.items()}
        dm = self.m["dep"]
        if isinstance(obj, dm.Target):
            return {"__target__": self._dump_binding(self.m["BindingConfig"](targets=[obj], filters=[]))["targets"][0]}
        attrs = dict(vars(obj)) if hasattr(obj, "__dict__") else {k: getattr(obj, k) for k in getattr(obj, "__slots__", ())}
        return {"__cls__": self.m["utils"].get_class_fullname(type(obj)),
                **{k: self._dump_obj(v, depth + 1) for k, v in sorted(attrs.items())
                   if k not in ("workflow", "step", "persistent_id", "_saving")}}

    def _mk_tree(self, t, wf):
        """build a real object from the case description {"c": class key, "a": kwargs, "sub": child | [..] | {..}}"""
        from streamflow.core import processor as cp
        from streamflow.cwl import command as cc
        from streamflow.cwl import processor as cwp
        from streamflow.cwl.hardware import CWLHardwareRequirement
        from streamflow.cwl.utils import LoadListing, SecondaryFile
        from streamflow.workflow import command as wc
        from streamflow.workflow.step import DefaultCommandOutputProcessor

        c, a = t["c"], copy.deepcopy(t.get("a", {}))
        sub = t.get("sub")
        kid = lambda x: self._mk_tree(x, wf)
        if "load_listing" in a and a["load_listing"] is not None:
            a["load_listing"] = LoadListing(a["load_listing"])
        if "secondary_files" in a and a["secondary_files"] is not None:
            a["secondary_files"] = [SecondaryFile(x["pattern"], x["required"]) for x in a["secondary_files"]]
        if c == "CWLCommand":
            return cc.CWLCommand(step=t.get("_step"), processors=[kid(x) for x in sub or []], **a)
        if c == "CWLTok":
            return cc.CWLCommandTokenProcessor(processor=kid(sub) if sub else None, **a)
        if c == "CWLForward":
            return cc.CWLForwardCommandTokenProcessor(**a)
        if c in ("MapTok", "CWLMapTok"):
            return (wc.MapCommandTokenProcessor if c == "MapTok" else cc.CWLMapCommandTokenProcessor)(processor=kid(sub), **a)
        if c in ("ObjTok", "CWLObjTok"):
            return (wc.ObjectCommandTokenProcessor if c == "ObjTok" else cc.CWLObjectCommandTokenProcessor)(
                processors={k: kid(x) for k, x in sub}, **a)
        if c == "UnionTok":
            return wc.UnionCommandTokenProcessor(processors=[kid(x) for x in sub], **a)
        if c == "DefaultOut":
            return DefaultCommandOutputProcessor(workflow=wf, **a)
        if c == "CWLOut":
            return cwp.CWLCommandOutputProcessor(workflow=wf, **a)
        if c in ("MapOut", "PopOut"):
            return (cp.MapCommandOutputProcessor if c == "MapOut" else cp.PopCommandOutputProcessor)(
                workflow=wf, processor=kid(sub), **a)
        if c == "ObjOut":
            return cp.ObjectCommandOutputProcessor(workflow=wf, processors={k: kid(x) for k, x in sub}, **a)
        if c == "UnionOut":
            return cp.UnionCommandOutputProcessor(workflow=wf, processors=[kid(x) for x in sub], **a)
        if c == "NullTP":
            return cp.NullTokenProcessor(workflow=wf, **a)
        if c == "CWLTP":
            return cwp.CWLTokenProcessor(workflow=wf, **a)
        if c == "MapTP":
            return cp.MapTokenProcessor(workflow=wf, processor=kid(sub), **a)
        if c == "ObjTP":
            return cp.ObjectTokenProcessor(workflow=wf, processors={k: kid(x) for k, x in sub}, **a)
        if c == "UnionTP":
            return cp.UnionTokenProcessor(workflow=wf, processors=[kid(x) for x in sub], **a)
        if c == "CWLHw":
            return CWLHardwareRequirement(**a)
        raise ValueError(c)

    async def _load_tree(self, family, row, ctx, step=None):
        from streamflow.core import processor as cp
        from streamflow.core.scheduling import HardwareRequirement
        from streamflow.core.workflow import Command, CommandTokenProcessor

        lc = self.m["DLC"](ctx.database)
        row = json.loads(json.dumps(row))          # what a database round trip leaves of it
        if family == "cmd":
            return await Command.load(row, lc, step)
        if family == "cmdtok":
            return await CommandTokenProcessor.load(row, lc)
        if family == "out":
            return await cp.CommandOutputProcessor.load(row, lc)
        if family == "tp":
            return await cp.TokenProcessor.load(row, lc)
        if family == "hw":
            return await HardwareRequirement.load(row, lc)
        raise ValueError(family)

    async def _run_proc(self, case):
        ctx = self._ctx()
        try:
            wf = self.m["Workflow"](ctx, config={}, name="wf")
            await wf.save(ctx.database)
            obj = self._mk_tree(case["tree"], wf)
            stored = await obj.save(ctx.database)
            stored = json.loads(json.dumps(stored))
            o = {"stored": stored, "wid": wf.persistent_id, "orig": self._dump_obj(obj), "orig_node": self._node(obj, stored)}
            try:
                l1 = await self._load_tree(case["family"], stored, ctx)
                l2 = await self._load_tree(case["family"], stored, ctx)
            except Exception as e:  # noqa  (a load that raises is an observation)
                o["load_error"] = f"{type(e).__name__}: {e}"[:300]
                return o
            o["l1"], o["l2"], o["l1_node"] = self._dump_obj(l1), self._dump_obj(l2), self._node(l1, stored)
            self._scribble(l1)
            o["l2_after"] = self._dump_obj(l2)
            o["l3"] = self._dump_obj(await self._load_tree(case["family"], stored, ctx))
            return o
        finally:
            await ctx.database.close()

    def _scribble(self, obj, depth=0):
        """the caller changes every mutable attribute it can reach"""
        if depth > 12 or obj is None or isinstance(obj, (bool, int, str)):
            return
        if isinstance(obj, list):
            for x in obj:
                self._scribble(x, depth + 1)
            obj.append("intruder")
        elif isinstance(obj, dict):
            for x in list(obj.values()):
                self._scribble(x, depth + 1)
            obj["intruder"] = "x"
        elif hasattr(obj, "__dict__") and not isinstance(obj, (self.m["Workflow"], type)):
            for k, v in list(vars(obj).items()):
                if k in ("workflow", "step"):
                    continue
                if isinstance(v, str):
                    setattr(obj, k, v + "x")
                else:
                    self._scribble(v, depth + 1)

    # -- configurations
    def _mk_binding(self, case):
        dm = self.m["dep"]
        ts = []
        for t in case["targets"]:
            if t["local"]:
                ts.append(dm.LocalTarget(workdir=t["workdir"]))
            else:
                d = t["dep"]
                pol = d["policy"]
                dc = dm.DeploymentConfig(
                    name=d["name"], type=d["type"], config=copy.deepcopy(d["config"]), external=d["external"],
                    lazy=d["lazy"],
                    scheduling_policy=self.m["Config"](name=pol["name"], type=pol["type"], config=copy.deepcopy(pol["config"]))
                    if pol else None,
                    workdir=d["workdir"],
                    wraps=dm.WrapsConfig(deployment=d["wraps"]["deployment"], service=d["wraps"]["service"])
                    if d["wraps"] else None)
                if case.get("share") and len(ts) == case["share"][1]:
                    dc = ts[case["share"][0]].deployment        # the very same DeploymentConfig object
                ts.append(dm.Target(deployment=dc, locations=t["locations"], service=t["service"], workdir=t["workdir"]))
        fs = [dm.FilterConfig(name=f["name"], type=f["type"], config=copy.deepcopy(f["config"])) for f in case["filters"]]
        return self.m["BindingConfig"](targets=ts, filters=fs)

    def _dump_dep(self, d):
        return {"name": d.name, "type": d.type, "config": copy.deepcopy(d.config), "external": bool(d.external),
                "lazy": bool(d.lazy), "flag_types": [type(d.external).__name__, type(d.lazy).__name__],
                "policy": [d.scheduling_policy.name, d.scheduling_policy.type, copy.deepcopy(d.scheduling_policy.config)],
                "workdir": d.workdir, "wraps": None if d.wraps is None else [d.wraps.deployment, d.wraps.service]}

    def _dump_binding(self, b):
        dm = self.m["dep"]
        shared = [[i, j] for i, a in enumerate(b.targets) for j, c in enumerate(b.targets)
                  if i < j and a.deployment is c.deployment]
        return {"shared_deployments": shared,
                "targets": [{"local": type(t) is dm.LocalTarget, "cls": type(t).__name__, "dep": self._dump_dep(t.deployment),
                             "locations": t.locations, "service": t.service, "workdir": t.workdir} for t in b.targets],
                "filters": [{"name": f.name, "type": f.type, "config": copy.deepcopy(f.config)} for f in b.filters]}

    async def _cfg_tables(self, ctx):
        qs = {"deployment": "SELECT id, name, type, config, external, lazy, scheduling_policy, workdir, wraps FROM deployment ORDER BY id",
              "target": "SELECT id, deployment, type, locations, service, workdir, params FROM target ORDER BY id",
              "filter": "SELECT id, name, type, config FROM filter ORDER BY id"}
        out = {}
        async with ctx.database.connection as db:
            for t, q in qs.items():
                async with db.execute(q) as cur:
                    out[t] = [list(r) for r in await cur.fetchall()]
        return out

    async def _run_cfg(self, case):
        ctx = self._ctx()
        try:
            b = self._mk_binding(case)
            row = await b.save(ctx.database)
            tables = await self._cfg_tables(ctx)
            BC = self.m["BindingConfig"]
            l1 = await BC.load(copy.deepcopy(row), self.m["DLC"](ctx.database))
            l2 = await BC.load(copy.deepcopy(row), self.m["DLC"](ctx.database))
            o = {"row": row, "tables": tables, "orig": self._dump_binding(b), "l1": self._dump_binding(l1),
                 "l2": self._dump_binding(l2)}
            for t in l1.targets:                       # the caller changes the first copy
                t.deployment.config["intruder"] = 1
                for v in t.deployment.config.values():
                    if isinstance(v, list):
                        v.append("intruder")
                    elif isinstance(v, dict):
                        v["intruder"] = 1
                t.deployment.scheduling_policy.config["intruder"] = 1
                t.deployment.name += "x"
                t.workdir += "/intruder"
            for f in l1.filters:
                f.config["intruder"] = 1
                for v in f.config.values():
                    if isinstance(v, list):
                        v.append("intruder")
            o["l2_after"] = self._dump_binding(l2)
            o["l3"] = self._dump_binding(await BC.load(copy.deepcopy(row), self.m["DLC"](ctx.database)))
            o["tables_after"] = await self._cfg_tables(ctx) == tables
            return o
        finally:
            await ctx.database.close()

    def impl_run(self, case):
        if case["f"] == "proc":
            return self.loop.run_until_complete(self._run_proc(case))
        if case["f"] == "cfg":
            return self.loop.run_until_complete(self._run_cfg(case))
        if case["f"] == "tok":
            return self.loop.run_until_complete(self._run_tok(case))
        return self.loop.run_until_complete(self._run_wf(case))

    # ---------------------------------------------------------------- oracle (from the property text)
    def oracle(self, case, o):
        if "crash" in o or "hang" in o:
            return ("crash", f"implementation crashed/hung: {str(o)[:400]}")
        c = lambda x: json.dumps(x, sort_keys=True)
        if case["f"] == "tok":
            want = c(case["t"])
            if c(o["orig"]) != want:
                return ("harness", "the driver did not build the token of the case")   # never expected
            for k in ("l1", "l2"):
                if c(o[k]) != want:
                    return ("token-roundtrip", f"loaded token {c(o[k])[:300]} differs from the saved one {want[:300]}")
            if o["same_object"]:
                return ("loads-independent", "two loading contexts returned the very same token object")
            if c(o["l2_after"]) != want:
                return ("loads-independent", f"mutating one loaded token changed the other: {c(o['l2_after'])[:300]}")
            if c(o["l3"]) != want or not o["rows_after"]:
                return ("stored-record-unchanged", f"after mutating a loaded token a new load gives {c(o['l3'])[:300]}")
            return None
        if case["f"] == "proc":
            if "load_error" in o:
                return ("load-raises", f"loading what save() produced raised {o['load_error']}")
            want = c(o["orig"])
            for k in ("l1", "l2"):
                if c(o[k]) != want:
                    return ("tree-roundtrip", f"loaded object differs from the saved one: {self._diff(o['orig'], o[k])}")
            if c(o["l2_after"]) != want:
                return ("loads-independent", f"mutating one loaded object changed the other: {self._diff(o['orig'], o['l2_after'])}")
            if c(o["l3"]) != want:
                return ("stored-record-unchanged", f"after mutating a loaded object a new load differs: {self._diff(o['orig'], o['l3'])}")
            return None
        if case["f"] == "cfg":
            strip = lambda d: json.loads(json.dumps(d, sort_keys=True).replace('"flag_types": ["int", "int"]', '"flag_types": ["bool", "bool"]'))
            want = c(strip(o["orig"]))        # 0 / 1 in INTEGER columns compare equal to False / True
            for k in ("l1", "l2"):
                if c(strip(o[k])) != want:
                    return ("config-roundtrip", f"loaded binding differs from the saved one: {self._diff(strip(o['orig']), strip(o[k]))}")
            if c(strip(o["l2_after"])) != want:
                return ("loads-independent", f"mutating one loaded binding changed the other: {self._diff(strip(o['orig']), strip(o['l2_after']))}")
            if c(strip(o["l3"])) != want or not o["tables_after"]:
                return ("stored-record-unchanged", f"after mutating a loaded binding a new load differs: {self._diff(strip(o['orig']), strip(o['l3']))}")
            return None
        o = json.loads(json.dumps(o).replace('"flag_types": ["int", "int"]', '"flag_types": ["bool", "bool"]'))
        want = c(o["orig"])
        for k in ("l1", "l2"):
            if c(o[k]) != want:
                return ("workflow-roundtrip", f"loaded workflow differs from the saved one: {self._diff(o['orig'], o[k])}")
        nid = lambda d: c(self._strip_ids(d))
        if nid(o["copy"]) != nid(o["orig"]):
            return ("builder-copy", f"WorkflowBuilder copy differs: "
                                    f"{self._diff(self._strip_ids(o['orig']), self._strip_ids(o['copy']))}")
        if o["copy_ids"]:
            return ("builder-copy-identity", f"deep copy kept persistent ids {o['copy_ids']}")
        for t in o["tokens"]:
            if c(t["orig"]) != c(t["loaded"]) or not t["in_port"]:
                return ("token-roundtrip", f"port token {c(t['loaded'])[:200]} vs saved {c(t['orig'])[:200]}")
        if c(o["l2_after"]) != want:
            return ("loads-independent", f"mutating one loaded workflow changed the other: {self._diff(o['orig'], o['l2_after'])}")
        if c(o["l3"]) != want:
            return ("stored-record-unchanged", f"after mutating a loaded workflow a new load differs: {self._diff(o['orig'], o['l3'])}")
        if nid(o["copy_after"]) != nid(o["orig"]):
            return ("loads-independent", f"mutating a loaded workflow changed the builder copy: "
                                         f"{self._diff(self._strip_ids(o['orig']), self._strip_ids(o['copy_after']))}")
        return None

    def _strip_ids(self, d):
        # for the builder copy: no persistent identity, and the run state (status) is reset on purpose
        if isinstance(d, dict):
            return {k: self._strip_ids(v) for k, v in d.items() if k not in ("has_id", "status", "terminated")}
        return d

    def _diff(self, a, b, path=""):
        if isinstance(a, dict) and isinstance(b, dict):
            for k in sorted(set(a) | set(b)):
                if k not in a or k not in b:
                    return f"{path}/{k}: {'missing' if k not in b else 'extra'}"
                if json.dumps(a[k], sort_keys=True) != json.dumps(b[k], sort_keys=True):
                    return self._diff(a[k], b[k], f"{path}/{k}")
            return "?"
        return f"{path}: {json.dumps(a)[:120]} != {json.dumps(b)[:120]}"

    def signature(self, case, o, clause):
        where = ""
        if case["f"] == "proc":
            cls = ""
            if clause == "tree-roundtrip" and "l1" in o:
                d = self._diff(o["orig"], o["l1"] if json.dumps(o["orig"], sort_keys=True) != json.dumps(o["l1"], sort_keys=True) else o["l2"])
                cls = "/" + d.split(":")[0].strip("/").split("/")[-1]
            return f"proc/{case['family']}/{clause}/{case['tree']['c']}{cls}"
        if case["f"] == "cfg" and clause == "config-roundtrip" and "orig" in o:
            for k in ("l1", "l2"):
                if json.dumps(o["orig"], sort_keys=True) != json.dumps(o[k], sort_keys=True):
                    d = self._diff(o["orig"], o[k]).split(":")[0]
                    vocab = ("shared_deployments", "targets", "filters", "dep", "config", "policy", "wraps", "workdir",
                             "locations", "service", "name", "type", "external", "lazy", "local", "cls")
                    where = "/" + "/".join(p for p in d.split("/") if p in vocab)
                    break
        if case["f"] == "wf" and clause in ("workflow-roundtrip", "builder-copy", "loads-independent",
                                            "stored-record-unchanged") and "orig" in o:
            for k in ("l1", "l2", "copy", "l2_after", "l3", "copy_after"):
                a = self._strip_ids(o["orig"]) if k.startswith("copy") else o["orig"]
                b = self._strip_ids(o[k]) if k.startswith("copy") and k in o else o.get(k)
                if k in o and json.dumps(a, sort_keys=True) != json.dumps(b, sort_keys=True):
                    d = self._diff(a, b).split(":")[0]
                    # the structural part of the path only (no concrete step / port / key names)
                    vocab = ("steps", "ports", "in", "out", "status", "terminated", "skip_ports", "cwl", "comb", "items", "map", "sub", "depth", "config",
                             "output_ports", "input_ports", "name", "cls", "wf_is_this", "has_id")
                    where = "/" + "/".join(p for p in d.split("/") if p in vocab)
                    break
        return f"{case['f']}/{clause}{where}"

    # ---------------------------------------------------------------- model side
    def _coq_rows(self, rows):
        out = []
        for i, (rid, typ, tag, val, rec) in enumerate(rows):
            if rid != i + 1:
                return None
            if typ == RESERVED["list"] and isinstance(val, list) and all(isinstance(x, int) for x in val):
                v = f"(VIds {coq_list([coq_nat(x) for x in val])})"
            elif typ == RESERVED["obj"] and isinstance(val, dict) and all(isinstance(x, int) for x in val.values()):
                v = f"(VMap {coq_list([coq_str(k) for k in val])} {coq_list([coq_nat(x) for x in val.values()])})"
            elif typ == RESERVED["term"] and isinstance(val, dict) and list(val) == ["status"]:
                v = f"(VStatus {coq_Z(val['status'])})"
            elif typ == RESERVED["iter"] and val is None:
                v = "VNull"
            elif typ == RESERVED["job"]:
                try:
                    j = val["job"]
                    pr = j["params"]
                    if j["type"] != JOBCLS or not all(isinstance(x, int) for x in pr["inputs"].values()):
                        return None
                    dirs = [pr["input_directory"], pr["output_directory"], pr["tmp_directory"]]
                    v = (f"(VJob {coq_str(pr['name'])} {coq_Z(pr['workflow_id'])} {coq_list([coq_jv(x) for x in dirs])} "
                         f"{coq_list([coq_str(k) for k in pr['inputs']])} {coq_list([coq_nat(x) for x in pr['inputs'].values()])})")
                except (KeyError, TypeError):
                    return None
            elif json_ok(val):
                v = f"(VJson {coq_jv(val)})"
            else:
                return None
            out.append(f"(mkrow {coq_str(typ)} {coq_str(tag)} {v} {coq_bool(rec)})")
        return coq_list(out)

    def coq_case(self, case, o):
        if case["f"] == "proc":
            if "stored" not in o:
                return None
            w = coq_opt(o["wid"] if case["family"] in ("out", "tp") else None, coq_nat)
            orig, stored = coq_ptree(o["orig_node"]), coq_dtree(o["stored"])
            if orig is None or stored is None:
                return None
            return f"XTree (CTree {w} {orig} {stored} {coq_opt(coq_ptree(o.get('l1_node')), lambda x: x)})"
        if case["f"] == "cfg":
            if "tables" not in o or o["orig"]["shared_deployments"]:
                return None          # shared configuration objects: outside the (tree) model
            orig, db = coq_pbinding(o["orig"]), coq_cdb(o["tables"])
            if orig is None or db is None:
                return None
            return (f"XCfg (CCfg {orig} {db} {coq_list([coq_nat(x) for x in o['row']['targets']])} "
                    f"{coq_list([coq_nat(x) for x in o['row']['filters']])} {coq_opt(coq_pbinding(o['l1']), lambda x: x)})")
        if case["f"] == "wf":
            if "tables" not in o:
                return None
            orig, db = coq_pwf(o["orig"], o.get("orig_nodes")), coq_wdb(o["tables"])
            if orig is None or db is None:
                return None
            return f"XWf (CWf {orig} {db} {coq_nat(o['wid'])} {coq_opt(coq_pwf(o['l1'], o.get('l1_nodes')), lambda x: x)})"
        if case["f"] != "tok" or "rows" not in o or not tok_in_model(case["t"]):
            return None
        rows = self._coq_rows(o["rows"])
        if rows is None:
            return None
        loaded = o["l1"] if tok_in_model(o["l1"]) else None
        return f"XTok (CTok {coq_ptok(case['t'])} {rows} {coq_nat(o['root'])} {coq_opt(loaded, coq_ptok)})"

    def nontrivial(self, case):
        if case["f"] == "proc":
            return bool(case["tree"].get("sub"))
        if case["f"] == "cfg":
            return len(case["targets"]) + len(case["filters"]) >= 1
        if case["f"] == "tok":
            return case["t"]["k"] in ("list", "obj")
        return len(case["steps"]) >= 1

    def shrink(self, case):
        if case["f"] == "proc":
            sub = case["tree"].get("sub")
            kids = [x for _, x in sub] if isinstance(sub, list) and sub and isinstance(sub[0], list) else \
                (sub if isinstance(sub, list) else ([sub] if sub else []))
            for k in kids:
                if case["family"] != "cmd":
                    yield {**case, "tree": k}
            if isinstance(sub, list) and len(sub) > 1:
                for i in range(len(sub)):
                    yield {**case, "tree": {**case["tree"], "sub": sub[:i] + sub[i + 1:]}}
            return
        if case["f"] == "cfg":
            for k in ("targets", "filters"):
                for i in range(len(case[k])):
                    yield {**case, k: case[k][:i] + case[k][i + 1:]}
            return
        if case["f"] == "tok":
            t = case["t"]
            if t["k"] == "list":
                for x in t["l"]:
                    yield {"f": "tok", "t": x}
                for i in range(len(t["l"])):
                    yield {"f": "tok", "t": {**t, "l": t["l"][:i] + t["l"][i + 1:]}}
            elif t["k"] in ("obj", "job"):
                for _, x in t["d"]:
                    yield {"f": "tok", "t": x}
                for i in range(len(t["d"])):
                    yield {"f": "tok", "t": {**t, "d": t["d"][:i] + t["d"][i + 1:]}}
            elif t["k"] == "tok":
                for v in (None, [], {}, [[]], {"a": []}):
                    if t["v"] != v:
                        yield {"f": "tok", "t": {**t, "v": v}}
            return
        for k in ("tokens", "steps"):
            for i in range(len(case[k]) - 1, -1, -1):
                yield {**case, k: case[k][:i] + case[k][i + 1:]}
        for k in ("output_ports", "input_ports"):
            if case[k]:
                yield {**case, k: {}}
        if case["config"] != {}:
            yield {**case, "config": {}}
        for i, st in enumerate(case["steps"]):
            for k in ("in", "out"):
                if st[k]:
                    yield {**case, "steps": case["steps"][:i] + [{**st, k: {}}] + case["steps"][i + 1:]}
            if st.get("comb") and (st["comb"]["sub"] or len(st["comb"]["items"]) > 1):
                yield {**case, "steps": case["steps"][:i] + [{**st, "comb": {**st["comb"], "sub": [], "items": st["comb"]["items"][:1]}}]
                       + case["steps"][i + 1:]}


PROP = C08()
