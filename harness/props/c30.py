"""C30 — CWL tools receive exactly the arguments the reference runner passes.

Every case is a generated CommandLineTool + input object.  Both runners run for real, in the worker process:
cwltool (cwltool.main.main) and StreamFlow (streamflow.cwl.runner.main, the `cwl-runner` entry point), each in a
scratch directory under /var/tmp; the tool is harness/props/c30_dump.py, which writes the argv / C30_* environment
/ redirections it received.  The oracle compares what the two processes received.  The Gallina side has two models
(CwlCmd/Model.v): sf_* is compared with StreamFlow (the list built by CWLCommand._get_executable_command, recorded
by a pass-through wrapper, and the argv the tool saw), spec_* with cwltool.
"""
import io
import json
import os
import re
import shlex
import shutil
import tempfile

from harness.lib.framework import Prop, coq_bool, coq_list, coq_N, coq_opt, coq_str, coq_Z

SCRATCH = "/var/tmp"
INHERITED = "set in the runner's own environment"
DUMP = os.path.join(os.path.dirname(os.path.abspath(__file__)), "c30_dump.py")
PYBIN = "/venv/bin/python"
SF_YML = ('version: v1.0\nworkflows:\n  w:\n    type: cwl\n    config:\n      file: tool.cwl\n'
          'database:\n  type: default\n  config:\n    connection: ":memory:"\n')

# strings that a shell would interpret; all harmless when they ARE interpreted (shellQuote: false)
HOSTILE = ["", " ", "a b", "  lead", "trail  ", "tab\tbed", "new\nline", "it's", "'", '"', 'say "hi"', "$HOME", "${HOME}x",
           "$C30_NOPE", "`echo bq`", "$(echo sub)", "a;echo b", "a && echo b", "a|cat", "a & b", "*", "?x", "[a]",
           "~", "#hash", "!bang", "back\\slash", "\\", "a>b", "<in", "(p)", "{a,b}", "-n", "--", "-", "=", "a=b",
           "café", "☃ snow", "日本語", "\U0001F600", "%s", "a,b", "x'y\"z w", "'\"'\"'", "end'", "a\\ b", "\x7f", "\x01"]
# literals written into the CWL document: no $( or ${ (parameter reference syntax) and no backslash
LIT_OK = [s for s in HOSTILE if "$(" not in s and "${" not in s and "\\" not in s]
PREFIXES = ["-p", "--opt", "--opt=", "-x y", "-'q", "--a b=", "$P", "-;", "+"]
SEPS = [",", " ", ";", ":", "' '", ", ", "|", "$", "a b"]
# upper-case names (before and after "None", the str() of an argument's missing name), lower-case, underscore, digits inside;
# digit-LEADING names are kept out: cwltool compares them with argument indexes as strings (outside tool_ok)
NAMES = ["a", "b", "c", "ab", "a1", "B", "Z", "x_y", "zz", "m", "aB", "k9", "INPUT", "M", "Bam", "N", "None", "Nz", "_u"]
# floats as a job file spells them (JSON numbers); Python's repr(float) reproduces only a few of them
FLITS = ["0.00001", "2.50", "1e3", "1E3", "1e+3", "1.5e-3", "15e-1", "1.50e1", "0.0000001", "-0.0000001", "0.0", "-0.0",
         "100.0", "0.000000", "1e-7", "2.5e10", "-1.5E+2", "0.5", "3.14", "1e0", "5e-1", "1234567.125", "0.1e1", "1E-5",
         "123e-2", "1.25e2", "0e3", "-2.50", "10.0", "0.10", "0.000001", "0.0000010", "7.0e-6", "12.5e-7", "1000000.0"]
FLIT_RE = re.compile(r"^(-?)(\d+)(?:\.(\d+))?(?:[eE]([+-]?\d+))?$")
FNAMES = ["out.txt", "o ut.txt", "it's.txt", 'q"uote.txt', "$x.txt", "a;b.txt", "sn☃w.txt", "-dash", "~t", "s*r", "a&b", "#h"]


def _safe(s):
    return s != "" and re.search(r"[^\w@%+=:,./-]", s, flags=re.ASCII) is None


def _b(s):
    """what the tool process receives for a str, as bytes"""
    return s.encode("utf-8", "surrogateescape")


def _repr(v):
    return str(v)


def _job_json(v):
    """the input object as JSON text; a float is written with the spelling the case carries"""
    if isinstance(v, dict) and "flt" in v:
        return v["flt"]
    if isinstance(v, dict):
        return "{" + ", ".join(json.dumps(k) + ": " + _job_json(x) for k, x in v.items()) + "}"
    if isinstance(v, list):
        return "[" + ", ".join(_job_json(x) for x in v) + "]"
    return json.dumps(v, ensure_ascii=False)


class C30(Prop):
    ID = "C30"
    PROPS_FILE = "Props/C30.v"
    CORR_MODULE = "CwlCmd.Corr"
    LEVEL_TEXT = ("Theorems (Coq, closed under the global context) over two Gallina models of how a CommandLineTool's "
                  "command line is built -- the CWL CommandLineBinding rules as cwltool applies them (spec_*) and "
                  "StreamFlow's _get_value_for_command/_get_value_repr/_escape_value/bind/_merge_tokens/sort/"
                  "_get_executable_command plus the translator's quoting flags (sf_*): for every tool of the modelled "
                  "binding language and every input object in job_typed (no null/boolean array items printed one by one, no "
                  "empty list out of a valueFrom under a prefix -- there the runners differ: C30_bool_null_items_refuted, "
                  "C30_empty_valuefrom_refuted, C30_silent_items_prefix_refuted), the text StreamFlow hands to the shell is the reference "
                  "text, and whenever every piece is quoted (always without ShellCommandRequirement; with it when no "
                  "binding says shellQuote:false) a POSIX shell gives the tool exactly the reference argv, verbatim, for "
                  "all strings; EnvVarRequirement values and redirection targets reach the tool verbatim through "
                  "create_command; an undeclared stderr is not redirected (execute's stream defaults).  "
                  "The models are tied to the code by running generated tools (1..6 bound inputs, every modelled option, "
                  "hostile strings) through StreamFlow and cwltool for real and comparing each model with its "
                  "implementation; the oracle compares what the two tool processes received (argv, environment, "
                  "stdin/stdout/stderr targets).  Floats are modelled by their job-file spelling (sign, digits, fraction, exponent) "
                  "rendered through decimal.Decimal as both runners do (dec_repr; C30_float_spelling_kept: a spelling "
                  "without exponent and not below 1e-6 is passed unchanged); spellings of more than 15 significant digits are "
                  "outside.  Bindings on array items are in both models: cwltool's sort keys were read off bind_input "
                  "([P,name] + [P,name,n,itempos,name,name] under an array binding, [n,itempos,name,name] without); the "
                  "theorems cover item bindings under an array binding that leaves shellQuote unwritten and has a shell-safe "
                  "prefix (C30_line_equiv/C30_argv_equiv, example C30_item_binding_order_ex); C30_item_only_order_refuted, C30_item_twice_refuted, "
                  "C30_item_array_prefix_refuted are the witnesses of the three known divergences.  The declared "
                  "EnvVarRequirement variables are compared with the model (sf_env) for every completed case.  "
                  "PARTIAL: records, File arguments, "
                  "JavaScript valueFrom/position are outside the models; for an array binding with shellQuote:false under ShellCommandRequirement spec_* follows the CWL "
                  "text (nothing quoted) whereas cwltool still quotes the items (known finding); the base64 wrapper of "
                  "execute() and /bin/sh itself are exercised, not modelled.")
    LEVEL_NOTE = ("Trusted: Coq kernel + vm_compute; hand-written models CwlCmd/Model.v and Shell/Model.v (sh_lex is a "
                  "fragment of the POSIX lexer); cwltool 3.2 as the reference; /bin/sh, base64, CPython str/shlex/sorted. "
                  "No axioms.")
    TECHNIQUE = ("Coq proof (two executable models + equivalence and shell-quoting theorems) + vm_compute correspondence "
                 "of each model with its implementation + differential oracle StreamFlow vs cwltool on real runs")
    RULE = ("a case = one generated CWL v1.2 CommandLineTool (0..3 arguments, 1..6 inputs with inputBinding: "
            "string/int/boolean/float/double/optional/array types incl. boolean[] and arrays with null items, empty arrays "
            "reached through valueFrom (floats written into the job file with spellings Python's "
            "repr does not reproduce: 0.00001, 2.50, 1e3, 1.50e1, -0.0000001 ...), position ties and negatives, prefix, separate, itemSeparator, "
            "shellQuote, valueFrom literal/$(self)/$(inputs.x); ShellCommandRequirement in ~40%; EnvVarRequirement, "
            "stdin/stdout/stderr in ~35%; item-level bindings in ~12%) + an input object whose strings come from a list "
            "of shell metacharacters, blanks, quotes, unicode and the empty string. Each case is run by both runners. "
            "Non-trivial = at least one hostile (not shell-safe) string reaches a binding. Distinct = distinct JSON.")
    TRUSTED = ("models: CwlCmd/Model.v (spec_* after cwltool's Builder.bind_input/generate_arg and the CWL v1.2 text; "
               "sf_* after streamflow/cwl/command.py and translator.py) and Shell/Model.v are hand-written",
               "cwltool 3.2 is the reference implementation; /bin/sh (dash), base64 and the kernel's execve are "
               "exercised, not verified",
               "the base64/command-substitution wrapper of CWLCommand.execute is assumed transparent (exercised)")
    ASSUMPTIONS = ("positions are integers above -1000000 (the key of baseCommand)",
                   "input names start with a letter or underscore (so that they sort after argument indexes)",
                   "strings are compared as UTF-8 bytes",
                   "local deployment (LocalConnector: sh -c create_command(...))")
    MAX_WORKERS = 8
    CASES_PER_WORKER = 4
    CASE_TIMEOUT = 240
    SHARD_TIMEOUT = 2400
    N = {"quick": 30, "thorough": 160, "extended": 24}

    # ---------------------------------------------------------------- generation
    def _str(self, rng):
        r = rng.random()
        if r < 0.7:
            return rng.choice(HOSTILE)
        if r < 0.85:
            return rng.choice(["plain", "v1", "a.b/c", "x=1", "10"])
        return rng.choice(HOSTILE) + rng.choice(["", " ", "x"]) + rng.choice(HOSTILE)

    def _lit(self, rng):
        return rng.choice(LIT_OK) if rng.random() < 0.7 else rng.choice(["lit", "two words", "k=v"])

    def _binding(self, rng, shell, names, array=False, arg=False):
        b = {"pos": rng.choice([0, 0, 0, 1, 1, 2, -1, 5, 10, -3]),
             "prefix": rng.choice(PREFIXES) if rng.random() < 0.55 else None,
             "sep": True, "isep": None, "quote": None, "vf": None}
        if b["prefix"] is not None and rng.random() < 0.4:
            b["sep"] = False
        if array and rng.random() < 0.45:
            b["isep"] = rng.choice(SEPS)
        if shell and rng.random() < 0.45:
            b["quote"] = rng.random() < 0.35
        elif array and rng.random() < 0.3:
            b["quote"] = True
        r = rng.random()
        if arg:
            b["vf"] = ["lit", self._lit(rng)] if (r < 0.6 or not names) else ["in", rng.choice(names)]
        elif r < 0.12:
            b["vf"] = ["lit", self._lit(rng)]
        elif r < 0.2:
            b["vf"] = ["self"]
        elif r < 0.3 and names:
            b["vf"] = ["in", rng.choice(names)]
        return b

    def _value(self, rng, typ):
        base = typ.rstrip("?")
        if typ.endswith("?") and rng.random() < 0.4:
            return None
        if base.endswith("[]"):
            k = rng.choice([0, 1, 2, 2, 3, 4])
            return [self._value(rng, base[:-2]) for _ in range(k)]
        if base == "string":
            return self._str(rng)
        if base == "int":
            return rng.choice([0, 1, 7, 10, -1, -25, 123456789, 2**31 - 1])
        if base == "boolean":
            return rng.random() < 0.6
        if base in ("float", "double"):
            return {"flt": rng.choice(FLITS)}
        raise ValueError(typ)

    def gen_case(self, rng, kind=None):
        shell = rng.random() < 0.4
        kind = kind or ("item" if rng.random() < 0.12 else "plain")
        n = rng.choice([1, 2, 2, 3, 3, 4, 5, 6])
        names = rng.sample(NAMES, n)
        inputs, job = [], {}
        for nm in names:
            typ = rng.choice(["string", "string", "string", "int", "boolean", "string?", "int?", "string[]", "string[]",
                              "int[]", "float", "double", "float", "float?", "float[]", "double[]",
                              "boolean[]", "string?[]", "int?[]"])
            if kind == "item":
                typ = rng.choice(["string", "string[]", "int", "string"])
            arr = typ.endswith("[]")
            i = {"name": nm, "type": typ, "bind": self._binding(rng, shell, names, array=arr), "item": None}
            if kind == "item" and arr:
                i["item"] = {"pos": rng.choice([0, 0, 1, 2]), "prefix": rng.choice(PREFIXES + [None]),
                             "sep": rng.random() < 0.7, "isep": None, "quote": None, "vf": None}
                if i["item"]["prefix"] is None:
                    i["item"]["sep"] = True
                if rng.random() < 0.5:
                    i["bind"] = None
                elif i["bind"]:
                    i["bind"]["vf"] = None
                    i["bind"]["isep"] = None
            inputs.append(i)
            job[nm] = self._value(rng, typ)
            if arr and i["bind"] and i["bind"]["quote"] is None and rng.random() < 0.15:
                # a few all-safe arrays
                i["bind"]["prefix"] = i["bind"]["prefix"] and rng.choice(["-p", "--opt", "--opt=", "+"])
                i["bind"]["isep"] = i["bind"]["isep"] and rng.choice([",", ":", "+"])
                if typ == "string[]":
                    job[nm] = [rng.choice(["plain", "v1", "a.b/c", "x=1", "10"]) for _ in job[nm]]
        args = [self._binding(rng, shell, names, arg=True) for _ in range(rng.choice([0, 0, 1, 1, 2, 3]))]
        if kind == "item":
            # with bindings on items the ORDER differs from cwltool's (known): a raw ; | & asked for by shellQuote: false
            # would then cut the line at different places, which says nothing -- no shellQuote: false in these cases
            for b in args + [i["bind"] for i in inputs if i["bind"]]:
                if b["quote"] is False:
                    b["quote"] = None
        # a valueFrom that evaluates to an EMPTY array: cwltool emits the bare prefix, StreamFlow nothing (known class
        # empty-valuefrom-prefix); kept out of the item-binding cases only, where the order differences would blur it
        for b in (args + [i["bind"] for i in inputs if i["bind"]]) if kind == "item" else []:
            if b["vf"] and b["vf"][0] == "in" and job.get(b["vf"][1]) == []:
                job[b["vf"][1]] = [self._value(rng, next(i["type"] for i in inputs if i["name"] == b["vf"][1])[:-2])]
        for i in inputs if kind == "item" else []:
            if i["bind"] and i["bind"]["vf"] and i["bind"]["vf"][0] == "self" and job.get(i["name"]) == []:
                job[i["name"]] = [self._value(rng, i["type"][:-2])]
        for a in args:
            a["plain"] = a["vf"][0] == "lit" and a["pos"] == 0 and a["prefix"] is None and a["quote"] is None \
                and rng.random() < 0.6
            if a["plain"]:
                a["sep"] = True
        c = {"f": "tool", "kind": kind, "shell": shell, "base": [rng.choice(HOSTILE[1:])] if rng.random() < 0.15 else [],
             "args": args, "inputs": inputs, "job": job, "env": [], "stdin": None, "stdout": None, "stderr": None,
             "leak": rng.random() < 0.08}
        if rng.random() < 0.35:
            strs = [i["name"] for i in inputs if i["type"] == "string"]
            for k in rng.sample(["C30_A", "C30_B1", "C30_X_Y", "C30_d"], rng.choice([1, 2, 3])):
                c["env"].append([k, ["in", rng.choice(strs)] if strs and rng.random() < 0.3 else ["lit", self._lit(rng)]])
        if rng.random() < 0.35:
            if rng.random() < 0.6:
                c["stdout"] = rng.choice(FNAMES)
            if rng.random() < 0.5:
                c["stderr"] = rng.choice(FNAMES) if rng.random() < 0.8 or not c["stdout"] else c["stdout"]
            if rng.random() < 0.5:
                c["stdin"] = {"name": rng.choice(["in.txt", "i n.txt", "it's in", "$in", "ï.txt"]), "data": self._str(rng)}
        return c

    def gen(self, rng, tier):
        return [self.gen_case(rng) for _ in range(self.N[tier])]

    # ---------------------------------------------------------------- rendering to CWL
    @staticmethod
    def _cwl_binding(b):
        d = {}
        if b["pos"] != 0:
            d["position"] = b["pos"]
        if b["prefix"] is not None:
            d["prefix"] = b["prefix"]
        if not b["sep"]:
            d["separate"] = False
        if b["isep"] is not None:
            d["itemSeparator"] = b["isep"]
        if b["quote"] is not None:
            d["shellQuote"] = b["quote"]
        vf = b["vf"]
        if vf:
            d["valueFrom"] = vf[1] if vf[0] == "lit" else "$(self)" if vf[0] == "self" else "$(inputs.%s)" % vf[1]
        return d

    def render(self, c, stdin_path=None):
        ins = {}
        for i in c["inputs"]:
            t = i["type"]
            if t.endswith("?[]"):            # an array whose items may be null
                t = {"type": "array", "items": ["null", t[:-3]]}
            if i["item"] is not None:
                t = {"type": "array", "items": t[:-2], "inputBinding": self._cwl_binding(i["item"])}
            ins[i["name"]] = {"type": t}
            if i["bind"] is not None:
                ins[i["name"]]["inputBinding"] = self._cwl_binding(i["bind"])
        job = dict(c["job"])
        tool = {"cwlVersion": "v1.2", "class": "CommandLineTool", "baseCommand": [PYBIN, DUMP] + c["base"],
                "inputs": ins, "outputs": {"dump": {"type": "File", "outputBinding": {"glob": "c30_dump.json"}}}}
        if c["args"]:
            tool["arguments"] = [a["vf"][1] if a.get("plain") else self._cwl_binding(a) for a in c["args"]]
        reqs = []
        if c["shell"]:
            reqs.append({"class": "ShellCommandRequirement"})
        if c["env"]:
            reqs.append({"class": "EnvVarRequirement", "envDef": [
                {"envName": k, "envValue": v[1] if v[0] == "lit" else "$(inputs.%s)" % v[1]} for k, v in c["env"]]})
        if reqs:
            tool["requirements"] = reqs
        if c["stdout"]:
            tool["stdout"] = c["stdout"]
        if c["stderr"]:
            tool["stderr"] = c["stderr"]
        if c["stdin"]:
            ins["c30_stdin"] = {"type": "File"}
            tool["stdin"] = "$(inputs.c30_stdin.path)"
            job["c30_stdin"] = {"class": "File", "path": stdin_path}
        return tool, job

    # ---------------------------------------------------------------- implementation (both runners, for real)
    def impl_init(self):
        import logging

        import cwltool.main
        import streamflow.cwl.command as sfc
        import streamflow.cwl.runner as sfr

        self.cwlmain, self.sfr = cwltool.main, sfr
        self.last_cmd = None
        orig = sfc.CWLCommand._get_executable_command
        me = self

        def recording(self_, context, inputs):         # pass-through: records what StreamFlow built
            r = orig(self_, context, inputs)
            me.last_cmd = [str(x) for x in r]
            return r

        sfc.CWLCommand._get_executable_command = recording
        logging.getLogger("streamflow").setLevel(logging.ERROR)

    @staticmethod
    def _read_dump(path):
        try:
            with open(path) as f:
                return json.load(f)
        except (OSError, ValueError):
            return None

    def impl_run(self, c):
        d = tempfile.mkdtemp(prefix="sfv-c30-", dir=SCRATCH)
        cwd = os.getcwd()
        old_tmp, old_env = tempfile.tempdir, os.environ.get("TMPDIR")
        try:
            for sub in ("o-sf", "o-ref", "tmp", "in"):
                os.mkdir(os.path.join(d, sub))
            stdin_path = None
            if c["stdin"]:
                stdin_path = os.path.join(d, "in", c["stdin"]["name"])
                with open(stdin_path, "wb") as f:
                    f.write(_b(c["stdin"]["data"]))
            tool, job = self.render(c, stdin_path)
            with open(os.path.join(d, "tool.cwl"), "w", encoding="utf-8") as f:
                json.dump(tool, f, ensure_ascii=False, indent=1)
            with open(os.path.join(d, "job.json"), "w", encoding="utf-8") as f:
                f.write(_job_json(job))
            with open(os.path.join(d, "sf.yml"), "w") as f:
                f.write(SF_YML)
            os.chdir(d)
            tempfile.tempdir = os.path.join(d, "tmp")
            os.environ["TMPDIR"] = tempfile.tempdir
            obs = {}
            if c.get("leak"):          # a variable of the RUNNER's environment, not declared by the tool
                os.environ["C30_INHERITED"] = INHERITED
            else:
                os.environ.pop("C30_INHERITED", None)
            so, se = io.StringIO(), io.StringIO()
            rc = self.cwlmain.main(["--no-container", "--quiet", "--relax-path-checks", "--outdir", d + "/o-ref", "--tmpdir-prefix", d + "/tmp/",
                                    "--tmp-outdir-prefix", d + "/tmp/", "tool.cwl", "job.json"], stdout=so, stderr=se)
            dump = self._read_dump(d + "/o-ref/c30_dump.json")
            obs["ref"] = dump if rc == 0 and dump else {"fail": True, "why": re.sub(r"\x1b\[[0-9;]*m", "", se.getvalue())[-300:]}
            self.last_cmd = None
            rc = self.sfr.main(["--streamflow-file", "sf.yml", "--outdir", d + "/o-sf", "--quiet", "tool.cwl", "job.json"])
            dump = self._read_dump(d + "/o-sf/c30_dump.json")
            obs["sf"] = dump if rc == 0 and dump else {"fail": True}
            obs["sf_cmd"] = self.last_cmd
            for k in ("ref", "sf"):
                for r in ("stdin_file", "stdout_file", "stderr_file"):
                    if r in obs[k] and obs[k][r] in ("c30_dump.json",):
                        obs[k][r] = None
            return json.loads(json.dumps(obs).replace(d, "<dir>"))
        finally:
            os.environ.pop("C30_INHERITED", None)
            os.chdir(cwd)
            tempfile.tempdir = old_tmp
            if old_env is None:
                os.environ.pop("TMPDIR", None)
            else:
                os.environ["TMPDIR"] = old_env
            shutil.rmtree(d, ignore_errors=True)

    # ---------------------------------------------------------------- oracle (from the property text)
    def oracle(self, c, o):
        if "crash" in o or "hang" in o:
            return ("crash", f"harness/implementation crashed or hung: {str(o)[:300]}")
        ref, sf = o["ref"], o["sf"]
        if "fail" in ref:
            return None            # the reference rejects the tool or the tool fails under it: nothing to be identical to
        if "fail" in sf:
            return ("sf-fails", f"cwltool runs the tool (argv {ref['argv']}), under StreamFlow it does not complete")
        def norm(side):
            # HOME and TMPDIR are the runner's own directories: an argument in which the shell expanded them because
            # the tool asked for it (shellQuote: false) is compared up to their values
            out = []
            for a in side["argv"]:
                for k, tag in (("tmpdir", "<TMPDIR>"), ("home", "<HOME>")):
                    if side.get(k):
                        a = a.replace(side[k], tag)
                out.append(a)
            return out

        if norm(sf) != norm(ref):
            return ("argv", f"argv under cwltool {json.dumps(ref['argv'])}, under StreamFlow {json.dumps(sf['argv'])}")
        strip = lambda e: {k: v for k, v in e.items() if k != "C30_INHERITED"}
        if strip(sf["env"]) != strip(ref["env"]):
            return ("env", f"EnvVarRequirement environment under cwltool {ref['env']}, under StreamFlow {sf['env']}")
        if sf["stdin"] != ref["stdin"] or (sf["stdin_file"] is None) != (ref["stdin_file"] is None):
            return ("stdin", f"stdin under cwltool {ref['stdin']!r}, under StreamFlow {sf['stdin']!r}")
        for k in ("stdout_file", "stderr_file"):
            if sf[k] != ref[k]:
                return (k[:6], f"{k[:6]} redirected to {ref[k]!r} under cwltool, {sf[k]!r} under StreamFlow")
        if sf["env"].get("C30_INHERITED") != ref["env"].get("C30_INHERITED"):
            return ("env-inherited", f"a variable of the runner's own environment (C30_INHERITED) is "
                                     f"{ref['env'].get('C30_INHERITED')!r} for the tool under cwltool and "
                                     f"{sf['env'].get('C30_INHERITED')!r} under StreamFlow; other inherited names: "
                                     f"{len(ref.get('other_env_names', []))} vs {len(sf.get('other_env_names', []))}")
        return None

    # ---------------------------------------------------------------- known-finding classes
    def _array_pieces(self, c):
        """residual of finding 1 (the translator still applies "do not escape composite command tokens" when the
        items are bound themselves): the prefix of an array binding without shellQuote over bound items"""
        return {i["bind"]["prefix"] for i in c["inputs"]
                if i["bind"] and i["item"] is not None and i["bind"]["quote"] is None
                and i["bind"]["prefix"] is not None and c["job"].get(i["name"])}

    # The known argv classes, and how each one transforms the reference argv into what StreamFlow's tool receives.
    # A case may show several of them at once; signature() accepts a difference only if it is explained COMPLETELY by
    # the classes the case can exhibit, and names -- among the classes actually used -- one that is not listed in
    # known/C30.txt first (so an unlisted class is never hidden behind a listed one).
    ARGV_CLASSES = ("bool-null-items-printed", "empty-valuefrom-prefix", "silent-items-array-prefix",
                    "bound-items-array-prefix-unquoted", "item-and-array-binding-quoted-twice", "item-binding-order")

    def _known_sigs(self):
        if not hasattr(self, "_ks"):
            from harness.lib.framework import load_known
            self._ks = {k[0] for k in load_known(self.ID)[0]}
        return self._ks

    def _explain_argv(self, c, ra, sa):
        """set of known classes that together turn ra (cwltool) into sa (StreamFlow), or None"""
        arrs = [i for i in c["inputs"] if i["item"] is not None and c["job"].get(i["name"])]
        prefixes = [i["bind"]["prefix"] for i in arrs if i["bind"] and i["bind"]["quote"] is None
                    and i["bind"]["prefix"] is not None and not _safe(i["bind"]["prefix"])]
        twice = any(i["bind"] is not None and i["bind"]["quote"] is not None and (not c["shell"] or i["bind"]["quote"])
                    for i in arrs)
        order_ok = any(i["bind"] is None for i in arrs)      # only item-only arrays are ordered differently
        used = set()
        exp = list(ra)
        # (1) a valueFrom that evaluates to an EMPTY list under a prefix: cwltool emits the bare prefix (split by the shell
        #     when the binding says shellQuote: false), StreamFlow nothing
        def evaluated(b, own):
            vf = b["vf"]
            return own if not vf or vf[0] == "self" else vf[1] if vf[0] == "lit" else c["job"].get(vf[1])

        def unit(b):
            raw = c["shell"] and b["quote"] is False
            return tuple(b["prefix"].split()) if raw and re.fullmatch(r"[\w@%+=:,./ \t-]*", b["prefix"]) else (b["prefix"],)
        bare = [unit(b) for b in c["args"] if b["prefix"] is not None and evaluated(b, None) == []]
        bare += [unit(i["bind"]) for i in c["inputs"] if i["bind"] and i["item"] is None and i["bind"]["vf"]
                 and i["bind"]["prefix"] is not None and c["job"].get(i["name"]) is not None
                 and evaluated(i["bind"], c["job"].get(i["name"])) == []]
        # (2) an array binding's prefix over bound items that all generate nothing (null, false, true without item prefix)
        silent = lambda i, x: x is None or x is False or (x is True and i["item"]["prefix"] is None)
        quiet_p = [i["bind"]["prefix"] for i in arrs if i["bind"] and i["bind"]["prefix"] is not None
                   and all(silent(i, x) for x in c["job"][i["name"]])]
        prefixes = [p for p in prefixes if p not in quiet_p]
        # (3) null / boolean items of an array bound without valueFrom and itemSeparator: StreamFlow prints them
        printed = [str(x) for i in c["inputs"] if i["bind"] and i["item"] is None and isinstance(c["job"].get(i["name"]), list)
                   and not i["bind"]["vf"] and i["bind"]["isep"] is None
                   for x in c["job"][i["name"]] if x is None or isinstance(x, bool)]
        dels = tuple(sorted(bare + [(p,) for p in quiet_p]))
        if dels or printed:
            # align: delete every such prefix from the reference argv, every printed item from StreamFlow's
            import functools

            @functools.lru_cache(maxsize=None)
            def align(i, j, D, P):
                if i == len(exp) and j == len(sa) and not D and not P:
                    return ((), ())
                if i < len(exp) and j < len(sa) and exp[i] == sa[j]:
                    r = align(i + 1, j + 1, D, P)
                    if r is not None:
                        return ((exp[i],) + r[0], (sa[j],) + r[1])
                for u in set(D):
                    if tuple(exp[i:i + len(u)]) == u:
                        d2 = list(D)
                        d2.remove(u)
                        r = align(i + len(u), j, tuple(d2), P)
                        if r is not None:
                            return r
                if j < len(sa) and sa[j] in P:
                    p2 = list(P)
                    p2.remove(sa[j])
                    r = align(i, j + 1, D, tuple(p2))
                    if r is not None:
                        return r
                # nothing to delete here: the two may still differ by the other classes; step over
                if i < len(exp) and j < len(sa):
                    r = align(i + 1, j + 1, D, P)
                    if r is not None:
                        return ((exp[i],) + r[0], (sa[j],) + r[1])
                return None

            sa = list(sa)
            r = align(0, 0, dels, tuple(sorted(printed)))
            if r is None:
                return None
            exp, sa = list(r[0]), list(r[1])
            if bare:
                used.add("empty-valuefrom-prefix")
            if quiet_p:
                used.add("silent-items-array-prefix")
            if printed:
                used.add("bool-null-items-printed")
        for p in prefixes:       # the array's own prefix reaches sh unquoted
            if p not in exp:
                return None
            if re.fullmatch(r"[\w@%+=:,./ \t-]*", p):
                words = p.split()                              # blanks split it
            elif re.fullmatch(r"\$[A-Za-z_][A-Za-z0-9_]*", p):
                words = []                                     # an unset variable expands to nothing
            else:
                return {"bound-items-array-prefix-unquoted"}   # quotes, ;, ... : the rest of the line is the shell's business
            k = exp.index(p)
            exp[k:k + 1] = words
            used.add("bound-items-array-prefix-unquoted")
        if len(exp) != len(sa):
            return None

        def same(r, a):
            if r == a:
                return 0
            if twice and shlex.quote(r) == a:
                return 1
            return None

        seq = [same(r, a) for r, a in zip(exp, sa)]
        if all(x is not None for x in seq):
            if any(seq):
                used.add("item-and-array-binding-quoted-twice")
            return used or None
        if not order_ok:
            return None
        rest, requoted = list(exp), 0
        for a in sa:
            m = next((r for r in rest if same(r, a) == 0), None)
            if m is None:
                m = next((r for r in rest if same(r, a) == 1), None)
                if m is None:
                    return None
                requoted += 1
            rest.remove(m)
        used.add("item-binding-order")
        if requoted:
            used.add("item-and-array-binding-quoted-twice")
        return used

    def signature(self, c, o, clause):
        """oracle clause + the class of input that explains the observation; `<clause>/other` = not explained."""
        ref, sf = o.get("ref", {}), o.get("sf", {})
        if clause in ("argv", "sf-fails") and "argv" in ref:
            dec = lambda a: a.encode("latin-1").decode("utf-8", "replace")
            ra = [dec(a) for a in ref["argv"]]
            sa = [dec(a) for a in sf["argv"]] if "argv" in sf else None
            hostile = {p for p in self._array_pieces(c) if not _safe(p)}
            raw_items = {_repr(x) for i in c["inputs"] if c["shell"] and i["bind"] and i["item"] is None
                         and i["type"].endswith("[]") and i["bind"]["quote"] is False and i["bind"]["isep"] is None
                         and not i["bind"]["vf"] for x in (c["job"].get(i["name"]) or [])}
            if sa is None:
                if hostile:        # any unquoted metacharacter (newline, quote, <, ;, ...) can make the sh line fail
                    return "sf-fails/bound-items-array-prefix-unquoted"
                if any(re.search(r"""['"\\`<>()]|\$[({]""", x) for x in raw_items):
                    return "sf-fails/array-shellquote-false-items"
            else:
                k = 0
                while k < min(len(ra), len(sa)) and ra[k] == sa[k]:
                    k += 1
                # ShellCommandRequirement + shellQuote: false written on an ARRAY's binding: cwltool still quotes the items
                # (they are bound one by one with a fresh binding), StreamFlow leaves them unquoted as asked
                if k < len(ra) and ra[k] in raw_items and not _safe(ra[k]):
                    return "argv/array-shellquote-false-items"
                used = self._explain_argv(c, ra, sa)
                if used:
                    ordered = [x for x in self.ARGV_CLASSES if x in used]
                    unlisted = [x for x in ordered if f"argv/{x}" not in self._known_sigs()]
                    return "argv/" + (unlisted or ordered)[0]
        return f"{clause}/other"

    # ---------------------------------------------------------------- model side
    @staticmethod
    def _coq_binding(b):
        vf = b["vf"]
        vfs = "VfNone" if not vf else f"(VfLit {coq_str(vf[1])})" if vf[0] == "lit" else "VfSelf" if vf[0] == "self" \
            else f"(VfIn {coq_str(vf[1])})"
        return (f"(mkB {coq_Z(b['pos'])} {coq_opt(b['prefix'], coq_str)} {coq_bool(b['sep'])} "
                f"{coq_opt(b['isep'], coq_str)} {coq_opt(b['quote'], coq_bool)} {vfs})")

    @staticmethod
    def _coq_sval(v):
        if v is None:
            return "VNull"
        if isinstance(v, bool):
            return f"(VBool {coq_bool(v)})"
        if isinstance(v, int):
            return f"(VInt {coq_Z(v)})"
        if isinstance(v, dict):
            m = FLIT_RE.match(v["flt"])
            return (f"(VDec {coq_bool(m.group(1) == '-')} {coq_str(m.group(2))} {coq_str(m.group(3) or '')} "
                    f"{coq_opt(None if m.group(4) is None else int(m.group(4)), coq_Z)})")
        return f"(VStr {coq_str(v)})"

    def coq_case(self, c, o):
        if "crash" in o or "hang" in o:
            return None
        ok = "argv" in o["sf"]
        fb = lambda k: None if not ok or o["sf"][k] is None else o["sf"][k].encode("latin-1")
        decl = f"{coq_opt(c['stdout'], coq_str)} {coq_opt(c['stderr'], coq_str)}"
        seen = f"{coq_opt(fb('stdout_file'), coq_str)} {coq_opt(fb('stderr_file'), coq_str)}"
        streams = f"{decl} {coq_bool(ok)} {seen}"
        ins = coq_list([f"(mkI {coq_str(i['name'])} {coq_bool(i['type'].endswith('[]'))} "
                        f"{coq_opt(i['bind'], self._coq_binding)} {coq_opt(i['item'], self._coq_binding)})"
                        for i in c["inputs"]])
        tool = (f"(mkT {coq_bool(c['shell'])} {coq_list([coq_str(x) for x in [PYBIN, DUMP] + c['base']])} "
                f"{coq_list([self._coq_binding(a) for a in c['args']])} {ins})")
        job = coq_list([f"({coq_str(k)}, " + (f"Arr {coq_list([self._coq_sval(x) for x in v])}" if isinstance(v, list)
                                             else f"Sc {self._coq_sval(v)}") + ")" for k, v in c["job"].items()])
        lst = lambda l: coq_list([coq_str(x) for x in l])

        def argv(side):
            if "argv" not in o[side]:
                return None
            # the dump tool is argv[0]'s script: the model's argv starts with the whole baseCommand
            return [_b(PYBIN), _b(DUMP)] + [a.encode("latin-1") for a in o[side]["argv"]]

        cmd = [_b(x) for x in o["sf_cmd"]] if o.get("sf_cmd") is not None else None
        envd = coq_list([f"({coq_str(k)}, " + (f"VfLit {coq_str(v[1])}" if v[0] == "lit" else f"VfIn {coq_str(v[1])}") + ")"
                         for k, v in c["env"]])
        seen_env = o["sf"].get("env", {}) if ok else {}
        decl_names = [k for k, _ in c["env"]]
        pairs = [(k, seen_env.get(k, "<unset>")) for k in decl_names] + \
                sorted((k, v) for k, v in seen_env.items() if k not in decl_names)
        envo = coq_list([f"({coq_str(k.encode('latin-1'))}, {coq_str(v.encode('latin-1'))})" for k, v in pairs])
        inh = coq_list([f"({coq_str('C30_INHERITED')}, {coq_str(INHERITED)})"] if c.get("leak") else [])
        return (f"CTool {tool} {job} {coq_opt(cmd, lst)} {coq_opt(argv('sf'), lst)} {coq_opt(argv('ref'), lst)} {streams} "
                f"{envd} {inh} {envo}")

    def nontrivial(self, c):
        strs = []
        for i in c["inputs"]:
            v = c["job"].get(i["name"])
            if i["bind"] or i["item"]:
                strs += [str(x) for x in (v if isinstance(v, list) else [v])]
                for b in (i["bind"], i["item"]):
                    if b and b["prefix"]:
                        strs.append(b["prefix"])
        for a in c["args"]:
            if a["vf"][0] == "lit":
                strs.append(a["vf"][1])
        return any(not _safe(s) for s in strs)

    def shrink(self, c):
        for k in ("env", "args"):
            for n in range(len(c[k])):
                yield {**c, k: c[k][:n] + c[k][n + 1:]}
        for k in ("stdin", "stdout", "stderr"):
            if c[k]:
                yield {**c, k: None}
        if c["base"]:
            yield {**c, "base": []}
        used = {b["vf"][1] for b in c["args"] + [i["bind"] for i in c["inputs"] if i["bind"]] if b["vf"] and b["vf"][0] == "in"}
        used |= {v[1] for _, v in c["env"] if v[0] == "in"}
        if len(c["inputs"]) > 1:
            for n, i in enumerate(c["inputs"]):
                if i["name"] not in used:
                    job = {k: v for k, v in c["job"].items() if k != i["name"]}
                    yield {**c, "inputs": c["inputs"][:n] + c["inputs"][n + 1:], "job": job}
        for n, i in enumerate(c["inputs"]):
            v = c["job"].get(i["name"])
            if isinstance(v, list) and len(v) > 1:
                for m in range(len(v)):
                    yield {**c, "job": {**c["job"], i["name"]: v[:m] + v[m + 1:]}}


PROP = C30()
