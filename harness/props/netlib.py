"""Shared engine driver for the network properties C04 / C05 / C07 (imported inside the worker only).

A *net case* describes a workflow graph over the engine's real step classes:

  {"steps":  [{"n": "/s1", "k": KIND, "ins": {portname: port}, "outs": {portname: port}, ...params}],
   "inputs": {port: [[tag, value] ...]},      # tokens the harness injects (persisted like InputInjectorStep does)
   "outputs": [port ...],                     # workflow output ports
   "sched": int}                              # seed of the permuting event loop

KIND:  "xf"    Transformer subclass: value = add + sum(values of the tag's inputs) on every output port; raises on
               tags listed in "fail"; "yields" extra suspension points; "hold" = blocks like a long job until the
               harness releases it after run() has returned/raised
       "cond"  ConditionalStep subclass: true iff (sum of values) % mod == rem; on true forwards the inputs to the
               same-named output ports (like CWLConditionalStep._on_true), on false emits nothing
       "scatter" / "gather" / "dot" / "cart"   the real ScatterStep / GatherStep / CombinatorStep
Values are ints or (for scatter inputs / gather outputs) lists of ints.

run_net(case) runs StreamFlowExecutor.run() under a seeded permuting event loop and returns a canonical observation.
Nothing here judges anything: oracles live in the property modules.
"""
from __future__ import annotations

import asyncio
import os
import random
from harness.lib.looputil import permute_ready

TERMINAL = ("SKIPPED", "COMPLETED", "FAILED", "CANCELLED")


class PermLoop(asyncio.SelectorEventLoop):
    """Before every turn, permute the ready queue with the case's PRNG (DESIGN 2.5)."""

    def __init__(self, seed):
        super().__init__()
        self._prng = random.Random(seed)
        self.turns = 0
        self.quiesce_fut = None

    def run_in_executor(self, executor, func, *args):
        Env.INFLIGHT += 1                       # a thread is working: not quiescent
        fut = super().run_in_executor(executor, func, *args)

        def _done(_f):
            Env.INFLIGHT -= 1

        fut.add_done_callback(_done)
        return fut

    def _run_once(self):
        self.turns += 1
        if not self._ready and not self._scheduled and Env.INFLIGHT == 0 and self.quiesce_fut is not None:
            f, self.quiesce_fut = self.quiesce_fut, None
            if not f.done():
                f.set_result(None)      # the loop would block for ever: wake the harness
        if len(self._ready) > 1:
            permute_ready(self._ready, self._prng.shuffle)   # thread-safe, same order (harness/lib/looputil.py)
        super()._run_once()


class Env:
    """Imports of the tree under examination + step subclasses; built once per worker."""

    def __init__(self):
        import aiosqlite.core as acore
        from streamflow.core.exception import WorkflowExecutionException
        from streamflow.core.utils import get_entity_ids, get_tag
        from streamflow.core.workflow import Status, Token, Workflow
        from streamflow.main import build_context
        from streamflow.workflow.combinator import CartesianProductCombinator, DotProductCombinator
        from streamflow.workflow.executor import StreamFlowExecutor
        from streamflow.workflow.step import (CombinatorStep, ConditionalStep, GatherStep, ScatterStep,
                                              Transformer)
        from streamflow.workflow.token import ListToken, TerminationToken
        from streamflow.core.config import BindingConfig
        from streamflow.core.deployment import DeploymentConfig, Target
        from streamflow.core.workflow import Command, CommandOutput
        from streamflow.workflow.port import ConnectorPort
        from streamflow.workflow.step import DeployStep, ExecuteStep, ScheduleStep

        self.BindingConfig, self.DeploymentConfig, self.Target = BindingConfig, DeploymentConfig, Target
        from streamflow.workflow.port import JobPort
        self.JobPort = JobPort
        self.ConnectorPort, self.DeployStep, self.ExecuteStep, self.ScheduleStep = (
            ConnectorPort, DeployStep, ExecuteStep, ScheduleStep)
        self.Status, self.Token, self.Workflow = Status, Token, Workflow
        self.ListToken, self.TerminationToken = ListToken, TerminationToken
        self.build_context, self.Executor = build_context, StreamFlowExecutor
        self.ScatterStep, self.GatherStep, self.CombinatorStep = ScatterStep, GatherStep, CombinatorStep
        self.Dot, self.Cart = DotProductCombinator, CartesianProductCombinator
        self.inflight = 0
        env = self

        # count database operations in flight (quiescence must not be declared while the sqlite thread works)
        if not getattr(acore.Connection, "_sfv_wrapped", False):
            orig = acore.Connection._execute

            async def _execute(conn, fn, *a, **k):
                Env.INFLIGHT += 1
                try:
                    return await orig(conn, fn, *a, **k)
                finally:
                    Env.INFLIGHT -= 1

            acore.Connection._execute = _execute
            acore.Connection._sfv_wrapped = True

        def tval(t):
            v = t.value
            if isinstance(v, list):
                return sum(tval(x) if isinstance(x, Token) else x for x in v)
            return v

        self.tval = tval

        class VTransformer(Transformer):
            def __init__(self, name, workflow, add=0, fail=(), yields=0, hold=False):
                super().__init__(name, workflow)
                self.add, self.fail, self.yields, self.hold = add, tuple(fail), yields, hold

            async def transform(self, inputs):
                tag = get_tag(inputs.values())
                for _ in range(self.yields):
                    await asyncio.sleep(0)
                if self.hold:
                    await env.latch.wait()
                if tag in self.fail:
                    env.raised.append([self.name, tag])
                    raise WorkflowExecutionException(f"injected failure at {self.name} {tag}")
                v = self.add + sum(tval(t) for t in inputs.values())
                return {o: Token(value=v, tag=tag) for o in self.output_ports}

        class VCond(ConditionalStep):
            def __init__(self, name, workflow, mod=2, rem=0, skip=True):
                super().__init__(name, workflow)
                self.mod, self.rem, self.skip = mod, rem, skip

            async def _eval(self, inputs):
                return sum(tval(t) for t in inputs.values()) % self.mod == self.rem

            async def _on_true(self, inputs):
                for port_name, port in self.get_output_ports().items():
                    port.put(await self._persist_token(
                        token=inputs[port_name].update(inputs[port_name].value), port=port,
                        input_token_ids=get_entity_ids(inputs.values())))

            async def _on_false(self, inputs):
                if not self.skip:
                    return
                for port in self.get_output_ports().values():   # like CWLConditionalStep's skip ports
                    port.put(await self._persist_token(
                        token=Token(value=0, tag=get_tag(inputs.values())), port=port,
                        input_token_ids=get_entity_ids(inputs.values())))

        class VCommand(Command):
            """the command of an "exec" step: value = add + sum(inputs); FAILED on listed tags; other jobs may be
            held (long jobs) until nothing else can move"""

            def __init__(self, step, add=0, fail=(), yields=0, hold=False):
                super().__init__(step)
                self.add, self.fail, self.yields, self.hold = add, tuple(fail), yields, hold

            async def execute(self, job):
                tag = get_tag(job.inputs.values())
                for _ in range(self.yields):
                    await asyncio.sleep(0)
                if tag in self.fail:
                    env.raised.append([self.step.name, tag])
                    return CommandOutput("injected failure", Status.FAILED)
                if self.hold:
                    await env.latch.wait()
                return CommandOutput(self.add + sum(tval(t) for t in job.inputs.values()), Status.COMPLETED)

        self.VTransformer, self.VCond, self.VCommand = VTransformer, VCond, VCommand
        self.latch = None
        self.raised = []


Env.INFLIGHT = 0


def _canon_val(env, tok):
    v = tok.value
    if isinstance(v, list):
        return [_canon_val(env, x) if isinstance(x, env.Token) else x for x in v]
    if v is None or isinstance(v, (int, str)):
        return v
    return "job:" + v.name if hasattr(v, "name") else type(v).__name__


async def _build(env, case, ctx):
    wf = env.Workflow(ctx, config={}, name="sfv")
    ports = {}

    def port(p):
        if p not in ports:
            ports[p] = wf.create_port(name=p)
        return ports[p]

    for p in case["inputs"]:
        port(p)
    for s in case["steps"]:
        k = s["k"]
        if k == "xf":
            st = wf.create_step(env.VTransformer, name=s["n"], add=s.get("add", 0), fail=s.get("fail", ()),
                                yields=s.get("yields", 0), hold=s.get("hold", False))
        elif k == "cond":
            st = wf.create_step(env.VCond, name=s["n"], mod=s.get("mod", 2), rem=s.get("rem", 0),
                                skip=s.get("skip", True))
        elif k == "scatter":
            st = wf.create_step(env.ScatterStep, name=s["n"], size_port=port(s["outs"]["__size__"]))
        elif k == "gather":
            st = wf.create_step(env.GatherStep, name=s["n"], size_port=port(s["ins"]["__size__"]),
                                depth=s.get("depth", 1))
        elif k in ("exec", "sched"):
            # DeployStep (shared) -> ScheduleStep [-> ExecuteStep] on the local deployment
            if "__deploy__" not in ports:
                dconf = env.DeploymentConfig(name="__LOCAL__", type="local", config={}, external=True, lazy=False,
                                             workdir=case["_workdir"])
                dstep = wf.create_step(env.DeployStep, name="/__deploy__/local", deployment_config=dconf,
                                       connector_port=wf.create_port(cls=env.ConnectorPort, name="__deploy__"))
                ports["__deploy__"] = dstep.get_output_port()
                ports["__dconf__"] = dconf
            dconf = ports["__dconf__"]
            sched = wf.create_step(env.ScheduleStep, name=s["n"] + "/__schedule__", job_prefix=s["n"],
                                   connector_ports={dconf.name: ports["__deploy__"]},
                                   binding_config=env.BindingConfig(targets=[env.Target(deployment=dconf)]),
                                   job_port=wf.create_port(cls=env.JobPort, name=s["n"].strip("/") + "__job__"))
            for n, p in s["ins"].items():
                sched.add_input_port(n, port(p))
            ports[s["n"].strip("/") + "__job__"] = sched.get_output_port()
            if k == "sched":
                continue
            st = wf.create_step(env.ExecuteStep, name=s["n"], job_port=sched.get_output_port())
            st.command = env.VCommand(st, add=s.get("add", 0), fail=s.get("fail", ()), yields=s.get("yields", 0),
                                      hold=s.get("hold", False))
        elif k == "default":
            # CWL input with a `default:`: DefaultTransformer(primary port "x", default port s["dport"])
            from streamflow.cwl.transformer import DefaultTransformer

            st = wf.create_step(DefaultTransformer, name=s["n"], default_port=port(s["dport"]))
        elif k == "merge":
            # CWL `source: [a, b, ...]` (linkMerge merge_nested): ListMergeCombinator over the source ports
            from streamflow.cwl.combinator import ListMergeCombinator

            comb = ListMergeCombinator(s["n"] + "-c", wf, input_names=list(s["ins"]), output_name=next(iter(s["outs"])),
                                       flatten=s.get("flatten", False))
            for i in s["ins"]:
                comb.add_item(i)
            st = wf.create_step(env.CombinatorStep, name=s["n"], combinator=comb)
        elif k in ("dot", "cart"):
            if k == "dot":
                comb = env.Dot(s["n"] + "-c", wf)
            else:
                comb = env.Cart(s["n"] + "-c", wf, depth=s.get("depth", 1))
            for i in s["ins"]:
                comb.add_item(i)
            st = wf.create_step(env.CombinatorStep, name=s["n"], combinator=comb)
        else:
            raise ValueError(k)
        for n, p in s["ins"].items():
            if not (k == "gather" and n == "__size__"):
                st.add_input_port(n, port(p))
        for n, p in s["outs"].items():
            if not (k == "scatter" and n == "__size__"):
                st.add_output_port(n, port(p))
    wf.output_ports = {p: p for p in case["outputs"]}
    await wf.save(ctx.database)
    # inject inputs (persisted, as InputInjectorStep does for workflow inputs)
    for p, toks in case["inputs"].items():
        for tag, v in toks:
            if isinstance(v, list):
                t = env.ListToken(value=[env.Token(value=x, tag=tag) for x in v], tag=tag)
            else:
                t = env.Token(value=v, tag=tag)
            await t.save(ctx.database, port_id=ports[p].persistent_id)
            ports[p].put(t)
        ports[p].put(env.TerminationToken(env.Status.COMPLETED))
    return wf, ports


async def _quiesce(loop, me):
    """Structural quiescence, decided by the loop itself: it is about to block with nothing ready, no timer and no
    database operation in flight, i.e. nothing can ever wake any task up again.  (A task blocked on a queue/event
    with nobody left to wake it stays pending: that is an observation.)"""
    others = [t for t in asyncio.all_tasks(loop) if t is not me and not t.done()]
    if not others:
        return
    fut = loop.create_future()
    loop.quiesce_fut = fut
    await fut


def _steps_snapshot(wf):
    return {n: [s.status.name, bool(s.terminated)] for n, s in sorted(wf.steps.items())}


async def _main(env, case, loop, want_db):
    ctx = env.build_context({"database": {"type": "default", "config": {"connection": ":memory:"}},
                             "path": os.getcwd()})
    obs = {}
    workdir = None
    if any(s["k"] in ("exec", "sched") for s in case["steps"]):
        import tempfile

        workdir = tempfile.mkdtemp(prefix="sfv-net-wd-", dir="/var/tmp")
        case = {**case, "_workdir": workdir}
    try:
        env.latch = asyncio.Event()
        env.raised = []
        wf, ports = await _build(env, case, ctx)
        persisted = []  # log of _persist_token calls: (step, port, token id, input ids)
        calls, dbev = [], []
        db0 = ctx.database
        o_add_token, o_add_prov = db0.add_token, db0.add_provenance

        async def add_token(*a, **k):
            r = await o_add_token(*a, **k)
            dbev.append(["alloc", r])
            return r

        async def add_provenance(inputs, token):
            r = await o_add_prov(inputs=inputs, token=token)
            dbev.append(["prov", token])
            return r

        db0.add_token, db0.add_provenance = add_token, add_provenance
        for st in wf.steps.values():
            orig = st._persist_token

            async def logged(token, port, input_token_ids, _o=orig, _s=st):
                ids = list(input_token_ids)
                k = len(calls)
                calls.append(k)
                dbev.append(["begin", k, ids])
                r = await _o(token=token, port=port, input_token_ids=input_token_ids)
                dbev.append(["end", k, r.persistent_id])
                persisted.append([_s.name, port.name, r.persistent_id, sorted(i for i in ids if i is not None)])
                return r

            st._persist_token = logged
        ex = env.Executor(wf)
        ex_events = []
        o_cancel, o_close = ex._cancel, ex.close

        def unterminated():
            """every step's (name, terminated, status code), in name order"""
            return [[n, bool(s.terminated), int(s.status)] for n, s in sorted(wf.steps.items())]

        async def cancel(tasks):
            ev = ["cancel", bool(ex._closed), unterminated()]
            ex_events.append(ev)
            r = await o_cancel(tasks)
            ev.extend([bool(ex._closed), unterminated()])   # no suspension point since _cancel returned
            return r

        async def close():
            ev = ["close", bool(ex._closed), unterminated()]
            ex_events.append(ev)
            r = await o_close()
            ev.extend([bool(ex._closed), unterminated()])
            return r

        ex._cancel, ex.close = cancel, close

        async def runner():
            try:
                out = await ex.run()
                obs["ret"] = "ok"
                obs["outputs"] = {k: out[k] for k in sorted(out)}
            except asyncio.CancelledError:
                obs.setdefault("ret", "hang")
                obs.setdefault("outputs", {})
                raise
            except Exception as e:  # noqa
                obs["ret"] = "raise:" + type(e).__name__
                obs["outputs"] = {}
            # the instant run() returned / raised (no suspension point in between)
            obs["at_return"] = _steps_snapshot(wf)
            obs["exec_at_return"] = [list(e) for e in ex_events]
            env.latch.set()

        me = asyncio.current_task()
        run_task = asyncio.create_task(runner(), name="sfv-runner")
        # held steps behave like long jobs: they finish when nothing else can move (or when run() is over)
        await _quiesce(loop, me)
        env.latch.set()
        await _quiesce(loop, me)
        if not run_task.done():
            # structurally stuck: every task is blocked and nothing is in flight
            obs["ret"] = "hang"
            obs["outputs"] = {}
            obs["at_return"] = _steps_snapshot(wf)
            run_task.cancel()
            try:
                await run_task
            except BaseException:  # noqa
                pass
            await _quiesce(loop, me)
        obs["exec"] = ex_events
        obs["final"] = _steps_snapshot(wf)
        obs["pending"] = sorted(t.get_name() for t in asyncio.all_tasks(loop)
                                if t is not asyncio.current_task() and not t.done())
        pd = {}
        for p, po in sorted(wf.ports.items()):
            toks, terms = [], []
            for t in po.token_list:
                if isinstance(t, env.TerminationToken):
                    terms.append(t.value.name)
                else:
                    toks.append([t.tag, _canon_val(env, t)])
            pd[p] = {"toks": toks, "terms": terms}
        obs["ports"] = pd
        obs["persisted"] = persisted
        obs["raised"] = sorted(env.raised)
        obs["dbev"] = dbev
        if want_db:
            db = ctx.database
            async with db.connection as c:
                async with c.execute("SELECT id, port, tag, type FROM token ORDER BY id") as cur:
                    rows = await cur.fetchall()
                obs["tokens"] = [[r[0], r[1], r[2], r[3].rsplit(".", 1)[-1]] for r in rows]
                async with c.execute("SELECT dependee, depender FROM provenance ORDER BY depender, dependee") as cur:
                    obs["prov"] = [[r[0], r[1]] for r in await cur.fetchall()]
            obs["port_ids"] = {p: po.persistent_id for p, po in sorted(wf.ports.items())}
            obs["mem_ids"] = {p: [t.persistent_id for t in po.token_list
                                  if not isinstance(t, env.TerminationToken)] for p, po in sorted(wf.ports.items())}
        obs["turns"] = loop.turns
    finally:
        for t in asyncio.all_tasks(loop):
            if t is not asyncio.current_task() and not t.done():
                t.cancel()
        await asyncio.sleep(0)
        if workdir is not None:
            import shutil

            try:
                await ctx.deployment_manager.undeploy_all()
            except Exception:  # noqa
                pass
            shutil.rmtree(workdir, ignore_errors=True)
        await ctx.close()
    return obs


def run_net(env, case, want_db=False):
    # a fresh loop and a fresh database: nothing can be in flight.  (A previous case of the same worker that was torn
    # down with a database coroutine still suspended — e.g. a recovery run of C07 — never ran its `finally`.)
    Env.INFLIGHT = 0
    diag = os.environ.get("SFV_DIAG")          # development aid: where is a run that takes more than 90 s of wall time?
    if diag:
        import faulthandler
        faulthandler.dump_traceback_later(90, repeat=False, file=open(f"{diag}-{os.getpid()}.txt", "a"))
    loop = PermLoop(case.get("sched", 0))
    asyncio.set_event_loop(loop)
    try:
        return loop.run_until_complete(_main(env, case, loop, want_db))
    finally:
        if diag:
            faulthandler.cancel_dump_traceback_later()
        try:
            loop.run_until_complete(loop.shutdown_asyncgens())
        finally:
            asyncio.set_event_loop(None)
            loop.close()


# ------------------------------------------------------------------------------------------------
# generation (runs in the main process: no StreamFlow import here)
def consumers(case):
    used = {}
    for s in case["steps"]:
        for p in s["ins"].values():
            used.setdefault(p, []).append(s["n"])
        if "dport" in s:
            used.setdefault(s["dport"], []).append(s["n"])
    return used


def fix_outputs(case, drop=None):
    used = consumers(case)
    allp = list(case["inputs"]) + [p for s in case["steps"] for p in s["outs"].values()]
    outs = [p for p in allp if p not in used]
    if drop is not None and len(outs) > 1:
        outs.pop(drop % len(outs))
    case["outputs"] = outs
    return case


def has_unobserved_sink(case):
    used = consumers(case)
    return any(p not in used and p not in case["outputs"] for s in case["steps"] for p in s["outs"].values())


def gen_tg_net(rng, big=False, fail_p=0.4, unequal_p=0.2, quirk_p=0.1, hold_p=0.5, drop_sink_p=0.0):
    """random DAG of tag-grouping steps (Transformer / ConditionalStep subclasses)"""
    nin = rng.choice([1, 1, 2, 2, 3])
    n = rng.choice([0, 1, 2, 3, 4, 5, 11, 12] if big else [0, 1, 2, 3, 3, 4, 11])
    tags = [f"0.{i}" for i in range(n)]
    if rng.random() < 0.3:
        rng.shuffle(tags)       # a port need not carry its tags in numeric order
    smallv = lambda: rng.choice([3, 5, 6, 9]) if rng.random() < quirk_p else rng.randrange(0, 30)
    inputs = {}
    for i in range(nin):
        tg = list(tags)
        if rng.random() < unequal_p and tg:
            tg = tg[:rng.randrange(0, len(tg))] if rng.random() < 0.5 else rng.sample(tg, len(tg))
        inputs[f"i{i}"] = [[t, smallv()] for t in tg]
    ports = list(inputs)
    steps = []
    for k in range(rng.randrange(1, 8 if big else 6)):
        kind = "xf" if rng.random() < 0.7 else "cond"
        m = min(len(ports), rng.choice([1, 1, 2, 2, 3]))
        # prefer recent ports so that chains and diamonds appear
        pool = ports[-4:] if rng.random() < 0.6 else ports
        src = rng.sample(pool, min(m, len(pool)))
        ins = {f"x{j}": p for j, p in enumerate(src)}
        st = {"n": f"/s{k}", "k": kind, "ins": ins}
        if kind == "xf":
            st["outs"] = {f"o{j}": f"p{k}_{j}" for j in range(rng.choice([1, 1, 1, 2]))}
            st["add"] = rng.randrange(0, 5)
            st["yields"] = rng.choice([0, 0, 1, 2, 3])
        else:
            names = rng.sample(list(ins), rng.randrange(1, len(ins) + 1))
            st["outs"] = {nm: f"p{k}_{nm}" for nm in sorted(names)}
            st["mod"] = rng.choice([2, 2, 3])
            st["rem"] = rng.randrange(0, 2)
            st["skip"] = rng.random() >= unequal_p
        steps.append(st)
        ports.extend(st["outs"].values())
    case = {"f": "net", "steps": steps, "inputs": inputs, "sched": rng.randrange(1 << 30)}
    case["regular"] = regular(case)
    xfs = [s for s in steps if s["k"] == "xf"]
    if xfs and tags and rng.random() < fail_p:
        s = rng.choice(xfs)
        s["fail"] = [rng.choice(tags)]
        others = [x for x in xfs if x is not s]
        if others and rng.random() < hold_p:
            rng.choice(others)["hold"] = True
    elif xfs and rng.random() < 0.15:
        rng.choice(xfs)["hold"] = True
    fix_outputs(case, drop=rng.randrange(8) if rng.random() < drop_sink_p else None)
    if has_unobserved_sink(case):
        case["sink"] = True     # input class: some step output is neither consumed nor a workflow output
    return case


def gen_sg_net(rng, fail_p=0.3):
    """the scatter/gather and combinator families (real ScatterStep / GatherStep / CombinatorStep)"""
    n = rng.choice([0, 1, 2, 3, 5, 11])
    fam = rng.choice(["sg", "sg", "dot", "cart", "bcast", "merge"])
    steps = []
    if fam == "merge":
        # 2-3 source ports carrying the same tags (each in its own order) merged into one list per tag by a
        # ListMergeCombinator (CWL multiple `source:`), then a transformer
        m = rng.choice([2, 2, 3])
        n = rng.choice([1, 2, 3, 5])
        tags = [f"0.{i}" for i in range(n)] if rng.random() < 0.7 else ["0"]
        inputs = {}
        for j in range(m):
            tj = list(tags)
            rng.shuffle(tj)
            inputs[f"i{j}"] = [[t, rng.randrange(0, 30)] for t in tj]
        names = ["a", "b", "c"][:m]
        steps.append({"n": "/m", "k": "merge", "ins": {nm: f"i{j}" for j, nm in enumerate(names)}, "outs": {"o": "mo"}})
        steps.append({"n": "/t", "k": "xf", "ins": {"x": "mo"}, "outs": {"o": "r"}, "add": rng.randrange(0, 5),
                      "yields": rng.choice([0, 1, 3])})
        case = {"f": "net", "steps": steps, "inputs": inputs, "sched": rng.randrange(1 << 30)}
        if rng.random() < fail_p:
            steps[1]["fail"] = [rng.choice(tags)]
        return fix_outputs(case)
    if fam == "bcast":
        # a scattered port and a NON-scattered one (tag 0, broadcast to every element) combined by a dot product,
        # as the CWL translator does for a scatter step with non-scattered inputs; then transform and gather
        n = rng.choice([2, 3, 4, 6])
        inputs = {"i0": [["0", [rng.randrange(0, 30) for _ in range(n)]]], "i1": [["0", rng.randrange(100, 130)]]}
        steps.append({"n": "/sa", "k": "scatter", "ins": {"x": "i0"}, "outs": {"o": "ea", "__size__": "sza"}})
        steps.append({"n": "/da", "k": "xf", "ins": {"x": "ea"}, "outs": {"o": "fa"}, "add": 0,
                      "yields": rng.choice([0, 1, 3])})
        steps.append({"n": "/db", "k": "xf", "ins": {"x": "i1"}, "outs": {"o": "fb"}, "add": 0,
                      "yields": rng.choice([0, 1, 3]), "hold": rng.random() < 0.5})   # the parent token arrives last
        steps.append({"n": "/c", "k": "dot", "ins": {"a": "fa", "b": "fb"}, "outs": {"a": "ca", "b": "cb"}})
        steps.append({"n": "/t", "k": "xf", "ins": {"a": "ca", "b": "cb"}, "outs": {"o": "r"},
                      "add": rng.randrange(0, 5), "yields": rng.choice([0, 1, 3])})
        steps.append({"n": "/g", "k": "gather", "ins": {"x": "r", "__size__": "sza"}, "outs": {"o": "l"}})
        case = {"f": "net", "steps": steps, "inputs": inputs, "sched": rng.randrange(1 << 30), "bcast": True}
        if rng.random() < fail_p:
            next(s for s in steps if s["n"] == "/t")["fail"] = [f"0.{rng.randrange(n)}"]
        return fix_outputs(case)
    if fam == "sg":
        inputs = {"i0": [["0", [rng.randrange(0, 30) for _ in range(n)]]]}
        steps.append({"n": "/sc", "k": "scatter", "ins": {"x": "i0"}, "outs": {"o": "e", "__size__": "sz"}})
        steps.append({"n": "/t", "k": "xf", "ins": {"x": "e"}, "outs": {"o": "f"}, "add": rng.randrange(0, 5),
                      "yields": rng.choice([0, 1, 3])})
        steps.append({"n": "/g", "k": "gather", "ins": {"x": "f", "__size__": "sz"}, "outs": {"o": "l"}})
        steps.append({"n": "/u", "k": "xf", "ins": {"x": "l"}, "outs": {"o": "r"}, "add": 1})
        ftags = [f"0.{i}" for i in range(n)]
    else:
        m = rng.choice([1, 2, 3]) if fam == "cart" else n
        inputs = {"i0": [["0", [rng.randrange(0, 30) for _ in range(n)]]],
                  "i1": [["0", [rng.randrange(0, 30) for _ in range(m)]]]}
        steps.append({"n": "/sa", "k": "scatter", "ins": {"x": "i0"}, "outs": {"o": "ea", "__size__": "sza"}})
        steps.append({"n": "/sb", "k": "scatter", "ins": {"x": "i1"}, "outs": {"o": "eb", "__size__": "szb"}})
        # a transformer on each branch, so that one side of the combinator can lag behind the other
        steps.append({"n": "/da", "k": "xf", "ins": {"x": "ea"}, "outs": {"o": "fa"}, "add": 0,
                      "yields": rng.choice([0, 1, 3, 8, 25])})
        steps.append({"n": "/db", "k": "xf", "ins": {"x": "eb"}, "outs": {"o": "fb"}, "add": 0,
                      "yields": rng.choice([0, 1, 3, 8, 25])})
        steps.append({"n": "/c", "k": fam, "ins": {"a": "fa", "b": "fb"}, "outs": {"a": "ca", "b": "cb"}})
        steps.append({"n": "/t", "k": "xf", "ins": {"a": "ca", "b": "cb"}, "outs": {"o": "r"},
                      "add": rng.randrange(0, 5), "yields": rng.choice([0, 1, 3])})
        steps.append({"n": "/za", "k": "xf", "ins": {"x": "sza"}, "outs": {"o": "qa"}})
        steps.append({"n": "/zb", "k": "xf", "ins": {"x": "szb"}, "outs": {"o": "qb"}})
        ftags = [f"0.{i}" for i in range(n)] if fam == "dot" else [f"0.{i}.{j}" for i in range(n) for j in range(m)]
    case = {"f": "net", "steps": steps, "inputs": inputs, "sched": rng.randrange(1 << 30)}
    if ftags and rng.random() < fail_p:
        next(s for s in steps if s["n"] == "/t")["fail"] = [rng.choice(ftags)]
    return fix_outputs(case)


def gen_exec_net(rng, fail_p=0.6):
    """the schedule/execute family on the local deployment (real DeployStep, ScheduleStep, ExecuteStep):
       A: scatter -> Execute running one job per element concurrently -> gather
       B: two injected ports carrying the same tags in independently shuffled orders -> one Schedule/Execute pair"""
    n = rng.choice([2, 3, 3, 4, 6])
    tags = [f"0.{i}" for i in range(n)]
    if rng.random() < 0.5:
        steps = [{"n": "/sa", "k": "scatter", "ins": {"x": "i0"}, "outs": {"o": "ea", "__size__": "sza"}}]
        inputs = {"i0": [["0", [rng.randrange(0, 30) for _ in range(n)]]]}
        ex = {"n": "/w", "k": "exec", "ins": {"a": "ea"}, "outs": {"o": "r"}}
        steps.append(ex)
        steps.append({"n": "/g", "k": "gather", "ins": {"x": "r", "__size__": "sza"}, "outs": {"o": "l"}})
    else:
        ta, tb = list(tags), list(tags)
        rng.shuffle(ta)
        rng.shuffle(tb)
        inputs = {"i0": [[t, rng.randrange(0, 30)] for t in ta], "i1": [[t, rng.randrange(0, 30)] for t in tb]}
        ex = {"n": "/w", "k": "exec", "ins": {"a": "i0", "b": "i1"}, "outs": {"o": "r"}}
        steps = [ex, {"n": "/u", "k": "xf", "ins": {"x": "r"}, "outs": {"o": "q"}, "add": 1}]
    ex["add"] = rng.randrange(0, 5)
    ex["yields"] = rng.choice([0, 1, 2, 5])
    case = {"f": "net", "steps": steps, "inputs": inputs, "sched": rng.randrange(1 << 30)}
    if rng.random() < fail_p:
        ex["fail"] = [rng.choice(tags)]
        ex["hold"] = rng.random() < 0.7       # the siblings of the failing job are still running when it fails
    return fix_outputs(case)


def gen_default_net(rng):
    """a DefaultTransformer: primary port with some null values, default port carrying the (persisted) default token"""
    n = rng.choice([1, 2, 3, 5])
    tags = [f"0.{i}" for i in range(n)]
    vals = [None if rng.random() < 0.5 else rng.randrange(0, 30) for _ in tags]
    if all(v is not None for v in vals):
        vals[rng.randrange(n)] = None
    inputs = {"i0": [[t, v] for t, v in zip(tags, vals)], "dflt": [["0", rng.randrange(100, 130)]]}
    steps = [{"n": "/d", "k": "default", "ins": {"x": "i0"}, "outs": {"o": "q"}, "dport": "dflt"}]
    case = {"f": "net", "steps": steps, "inputs": inputs, "sched": rng.randrange(1 << 30)}
    return fix_outputs(case)


def regular(case):
    """the shape hypothesis taken as well-formedness: every port carries the same tags, each once
    (equal injected tag lists without repetition, conditionals that emit a null token when false)"""
    tl = [sorted(t for t, _ in v) for v in case["inputs"].values()]
    return (all(x == tl[0] for x in tl) and all(len(set(x)) == len(x) for x in tl)
            and all(s.get("skip", True) for s in case["steps"] if s["k"] == "cond"))


def tg_only(case):
    return all(s["k"] in ("xf", "cond") for s in case["steps"])


# ------------------------------------------------------------------------------------------------
# wall-clock expiry is NOT a verdict.  "hang" as a verdict is decided structurally inside run_net (the loop is
# quiescent while run() has not returned).  The outer limits of the framework (per-case SIGALRM, per-shard kill) are
# only a guard; when one of them fires the observation is {"hang": true}: that case is re-run ONCE, alone, in a
# fresh worker with the same generous limits; if it expires again there is no verdict for it (excluded from the
# oracle and from the correspondence, counted in the evidence).
GUARD_CASE_TIMEOUT = 1800      # >= 10x the idle-machine time of the slowest case kind (a few seconds)
GUARD_SHARD_TIMEOUT = 14400


class Guarded:
    """mixin for the network properties: resolve(c, o) -> the observation to judge, or None (no verdict)"""

    def _guard_init(self):
        if not hasattr(self, "_reruns"):
            self._reruns, self.no_verdict, self.rerun_ok = {}, 0, 0

    def resolve(self, c, o):
        self._guard_init()
        if not (isinstance(o, dict) and o.get("hang") is True and "ret" not in o and "runs" not in o):
            return o
        import json
        key = json.dumps(c, sort_keys=True)
        if key not in self._reruns:
            from harness.lib.framework import run_worker
            r = run_worker(self.ID, [c], GUARD_SHARD_TIMEOUT, GUARD_CASE_TIMEOUT)
            o2 = r[0] if r else {"hang": True}
            if isinstance(o2, dict) and o2.get("hang") is True and "ret" not in o2 and "runs" not in o2:
                o2 = None
                self.no_verdict += 1
            else:
                self.rerun_ok += 1
            self._reruns[key] = o2
        return self._reruns[key]

    def guard_sample(self):
        self._guard_init()
        return {"wall_clock_guard": {"expired_then_rerun_ok": self.rerun_ok, "no_verdict": self.no_verdict,
                                     "case_limit_s": GUARD_CASE_TIMEOUT}}
