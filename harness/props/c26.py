"""C26 — Deployments follow a safe lifecycle under concurrent requests.

The real DefaultDeploymentManager (and FutureConnector) is driven by 1..4 concurrent request tasks over <=3
deployments (wraps chains, lazy/eager, injected deploy failures) with instrumented fake connectors, on an
event loop that runs one task step at a time in an order chosen by a seeded PRNG (harness/props/lts_loop.py).
The observation is the connector call log interleaved with request completions plus the tasks blocked at
quiescence; the taken schedule drives the Coq model (Deploy/Model.v), which must reproduce the log exactly.
"""
import random

from harness.lib.framework import Prop, coq_bool, coq_list, coq_nat, coq_opt

ERRS = {"Failed": "EFailed", "Def": "EDef", "Key": "EKey", "Dep": "EDep"}


def _dname(i):
    return f"d{i}"


class C26(Prop):
    ID = "C26"
    PROPS_FILE = "Props/C26.v"
    CORR_MODULE = "Deploy.Corr"
    LEVEL = "proof"
    MAX_WORKERS = 8
    LOCAL_SPEC = {"wrapper": False, "wraps": None, "lazy": False, "fail": [], "dy": 0, "uy": 0}
    MAX_WATCHDOG = 3
    MIN_JUDGED = 0.97
    CASE_TIMEOUT = 60
    SHARD_TIMEOUT = 1500
    COQ_SHARD = 150
    TECHNIQUE = ("Coq proof by induction over executions (lists of scheduling choices) of a coroutine-level "
                 "transition system + vm_compute correspondence against the real manager under a controlled event loop")
    LEVEL_TEXT = ""   # filled below
    LEVEL_NOTE = ""
    RULE = ("1..4 concurrent requests (sequences of deploy / undeploy / use / undeploy_all) over 1..3 deployments: "
            "plain or wrapper connectors, wraps chains of depth <=3 (also a wraps target that is not configured), "
            "lazy or eager, per-attempt injected deploy failures, 0..2 suspension points inside connector deploy/"
            "undeploy; every task step is chosen by a seeded PRNG; optional final undeploy_all after quiescence. "
            "Non-trivial = >=2 requests, or a wraps chain, or a failure. Distinct = distinct canonical JSON (config, "
            "requests, seed).")
    TRUSTED = ("model: Deploy/Model.v is hand-written from manager.py/future.py; asyncio facts it assumes (Event.wait "
               "on a set event and awaiting a coroutine do not suspend, set() readies all waiters, sleep(0) suspends "
               "once, gather semantics) are exercised by the correspondence, not proved",
               "harness/props/lts_loop.py (one-callback-at-a-time event loop) and the fake connectors")
    ASSUMPTIONS = ("a wrapper without `wraps` sits on the implicit __LOCAL__ deployment, modelled as a plain, eager, "
                   "never-failing deployment whose (fake) connector does not suspend",
                   "connector deploy/undeploy are opaque: they only suspend k times and then succeed or raise",
                   "schedules are interleavings of whole task steps (asyncio is single-threaded)")

    # ------------------------------------------------------------------ generation
    def _deps(self, rng):
        nd = rng.choice([1, 1, 2, 2, 2, 3, 3, 3])
        deps = []
        for i in range(nd):
            r = rng.random()
            if i > 0 and r < 0.75:
                wrapper, wraps = True, (i - 1 if rng.random() < 0.85 else rng.randrange(0, i))
            elif r < 0.8 and i == 0 and nd > 1 and rng.random() < 0.15:
                wrapper, wraps = True, nd            # wraps a deployment that is not configured
            elif rng.random() < 0.1 and i > 0:
                wrapper, wraps = False, i - 1        # `wraps` on a non-wrapper connector: no effect
            else:
                wrapper, wraps = False, None
            fail = []
            if rng.random() < 0.3:
                fail = [rng.random() < 0.6 for _ in range(rng.randrange(1, 3))]
            deps.append({"wrapper": wrapper, "wraps": wraps, "lazy": rng.random() < 0.4, "fail": fail,
                         "dy": rng.choice([0, 1, 1, 2]), "uy": rng.choice([0, 1, 1, 2])})
        return deps

    def _reqs(self, rng, nd):
        nr = rng.choice([1, 2, 2, 3, 3, 3, 4, 4])
        reqs = []
        for _ in range(nr):
            ops = []
            for _ in range(rng.choice([1, 1, 2, 2, 3])):
                r = rng.random()
                n = rng.randrange(nd) if rng.random() < 0.6 else nd - 1
                if r < 0.5:
                    ops.append(["D", n])
                elif r < 0.7:
                    ops.append(["X", n])
                elif r < 0.92:
                    ops.append(["U", n])
                else:
                    ops.append(["A"])
            reqs.append(ops)
        return reqs

    def gen(self, rng, tier):
        n = {"quick": 240, "thorough": 2400, "extended": 2000}[tier]
        cases = []
        while len(cases) < n:
            r = rng.random()
            if r < 0.25:      # deploy / undeploy / deploy of ONE eager deployment racing with waiting deploys
                deps = [{"wrapper": False, "wraps": None, "lazy": rng.random() < 0.15,
                         "fail": [True] if rng.random() < 0.1 else [],
                         "dy": rng.choice([1, 1, 2]), "uy": rng.choice([0, 1, 1, 2])}]
                reqs = [[["D", 0]] + ([["U", 0]] if rng.random() < 0.3 else []),
                        [["D", 0]] + ([["X", 0]] if rng.random() < 0.3 else []),
                        [["U", 0]], [["D", 0]]]
                if rng.random() < 0.3:
                    reqs[2] = [["D", 0], ["U", 0]]
                rng.shuffle(reqs)
                reqs = reqs[:rng.choice([3, 4, 4])]
            elif r < 0.31:    # stale undeploy waiter: two undeploys and several deploys of one eager deployment
                deps = [{"wrapper": False, "wraps": None, "lazy": False, "fail": [],
                         "dy": rng.choice([1, 1, 2]), "uy": rng.choice([0, 0, 1])}]
                reqs = [[["D", 0]], [["U", 0]], [["U", 0], ["D", 0]], [["D", 0]]]
                if rng.random() < 0.4:
                    reqs[rng.randrange(4)].append(["D", 0])
                rng.shuffle(reqs)
            elif r < 0.37:    # concurrent deploys of the SAME wrapper over an eager inner deployment that suspends
                deps = [{"wrapper": False, "wraps": None, "lazy": False, "fail": [], "dy": rng.choice([1, 2]),
                         "uy": rng.choice([0, 1])},
                        {"wrapper": True, "wraps": 0, "lazy": rng.random() < 0.2, "fail": [],
                         "dy": rng.choice([0, 1]), "uy": rng.choice([0, 1])}]
                reqs = [[["D", 1]] + ([["X", 1]] if rng.random() < 0.3 else []) for _ in range(rng.choice([2, 3, 3]))]
                if rng.random() < 0.3:
                    reqs.append([["D", 0]])
            elif r < 0.45:    # eager wraps chain of depth 3, torn down by undeploy_all / undeploy of the middle
                deps = [{"wrapper": i > 0, "wraps": i - 1 if i > 0 else None, "lazy": rng.random() < 0.15, "fail": [],
                         "dy": rng.choice([0, 1]), "uy": rng.choice([0, 1, 2])} for i in range(3)]
                reqs = [[["D", 2]] + ([["U", rng.randrange(3)]] if rng.random() < 0.4 else [])]
                if rng.random() < 0.5:
                    reqs.append([["D", rng.randrange(3)]])
            else:
                deps = self._deps(rng)
                reqs = self._reqs(rng, len(deps))
            for _ in range(rng.choice([1, 2, 3])):      # several schedules of one scenario
                cases.append({"f": "sched", "deps": deps, "reqs": reqs, "final": rng.random() < 0.8,
                              "seed": rng.randrange(1 << 30)})
        cases = cases[:n]
        # appended family (own PRNG, so the cases above are unchanged): wrappers WITHOUT `wraps`, which sit on the
        # implicit "__LOCAL__" deployment
        r2 = random.Random(rng.random())
        for _ in range({"quick": 14, "thorough": 140, "extended": 100}[tier]):
            nd = r2.choice([1, 2, 2, 3])
            deps = []
            for i in range(nd):
                x = r2.random()
                if x < 0.6:
                    deps.append({"wrapper": True, "wraps": None, "lazy": r2.random() < 0.3,
                                 "fail": [True] if r2.random() < 0.1 else [],
                                 "dy": r2.choice([0, 1, 2]), "uy": r2.choice([0, 1])})
                elif i > 0 and x < 0.85:
                    deps.append({"wrapper": True, "wraps": i - 1, "lazy": False, "fail": [],
                                 "dy": r2.choice([0, 1]), "uy": r2.choice([0, 1])})
                else:
                    deps.append({"wrapper": False, "wraps": None, "lazy": False, "fail": [],
                                 "dy": r2.choice([0, 1]), "uy": r2.choice([0, 1])})
            reqs = []
            for _ in range(r2.choice([1, 2, 3])):
                ops = []
                for _ in range(r2.choice([1, 2])):
                    nn, x = r2.randrange(nd), r2.random()
                    ops.append(["D", nn] if x < 0.6 else ["X", nn] if x < 0.75 else ["U", nn] if x < 0.92 else ["A"])
                reqs.append(ops)
            cases.append({"f": "sched", "deps": deps, "reqs": reqs, "final": r2.random() < 0.8,
                          "seed": r2.randrange(1 << 30)})
        return cases

    # ------------------------------------------------------------------ implementation
    def impl_init(self):
        import asyncio
        import ctypes.util
        import logging
        import types

        ctypes.util.find_library = lambda name: None   # asyncssh probes optional crypto libraries by spawning ld/gcc
        from streamflow.core.deployment import Connector, DeploymentConfig, WrapsConfig
        from streamflow.core.exception import WorkflowDefinitionException, WorkflowExecutionException
        from streamflow.deployment.connector import connector_classes
        from streamflow.deployment.future import FutureConnector
        from streamflow.deployment.manager import DefaultDeploymentManager
        from streamflow.deployment.wrapper import ConnectorWrapper
        from streamflow.log_handler import logger

        from harness.props.lts_loop import PickLoop, make_picker

        logger.setLevel(logging.ERROR)
        prop = self

        class FakeDeployError(Exception):
            pass

        class Mixin:
            def _init(self, name):
                w = prop.world
                self.w = w
                self.cid = w["nreal"]
                w["nreal"] += 1
                self.idx = len(w["deps"]) if name == "__LOCAL__" else int(name[1:])

            async def deploy(self, external):
                w = self.w
                d = w["deps"][self.idx] if self.idx < len(w["deps"]) else prop.LOCAL_SPEC
                k = w["attempts"].get(self.idx, 0)
                w["attempts"][self.idx] = k + 1
                fail = d["fail"][k] if k < len(d["fail"]) else False
                w["log"].append(["ds", self.idx, self.cid])
                for _ in range(d["dy"]):
                    await asyncio.sleep(0)
                if fail:
                    w["log"].append(["de", self.cid, False])
                    raise FakeDeployError(self.idx)
                w["log"].append(["de", self.cid, True])

            async def undeploy(self, external):
                w = self.w
                w["log"].append(["us", self.cid])
                for _ in range((w["deps"][self.idx] if self.idx < len(w["deps"]) else prop.LOCAL_SPEC)["uy"]):
                    await asyncio.sleep(0)
                w["log"].append(["ue", self.cid])

            async def get_available_locations(self, service=None):
                return {}

            @classmethod
            def get_schema(cls):
                return ""

            async def copy_local_to_remote(self, *a, **k): ...
            async def copy_remote_to_local(self, *a, **k): ...
            async def copy_remote_to_remote(self, *a, **k): ...
            async def run(self, *a, **k): ...
            async def get_shell(self, *a, **k): ...
            async def get_stream_reader(self, *a, **k): ...
            async def get_stream_writer(self, *a, **k): ...

        class FakePlain(Mixin, Connector):
            def __init__(self, deployment_name, config_dir, transferBufferSize=65536, **kw):
                Connector.__init__(self, deployment_name, config_dir, transferBufferSize)
                self._init(deployment_name)

        class FakeWrap(Mixin, ConnectorWrapper):
            def __init__(self, deployment_name, config_dir, connector=None, service=None,
                         transferBufferSize=65536, **kw):
                ConnectorWrapper.__init__(self, deployment_name, config_dir, connector, service, transferBufferSize)
                self._init(deployment_name)

        connector_classes["sfv_plain"] = FakePlain
        connector_classes["sfv_wrap"] = FakeWrap
        connector_classes["local"] = FakePlain      # the implicit "__LOCAL__" deployment of wrappers without `wraps`
        self.k = types.SimpleNamespace(
            asyncio=asyncio, types=types, DeploymentConfig=DeploymentConfig, WrapsConfig=WrapsConfig,
            FutureConnector=FutureConnector, Manager=DefaultDeploymentManager, PickLoop=PickLoop,
            make_picker=make_picker,
            errs=[(WorkflowExecutionException, "Failed"), (WorkflowDefinitionException, "Def"), (KeyError, "Key"),
                  (FakeDeployError, "Dep")])

    def impl_run(self, case):
        k = self.k
        asyncio = k.asyncio
        deps = case["deps"]
        nd = len(deps)
        self.world = w = {"deps": deps, "log": [], "nreal": 0, "attempts": {}}

        def typ(d):
            return "sfv_wrap" if d["wrapper"] else "sfv_plain"

        def raw(i):
            d = deps[i]
            r = {"type": typ(d), "config": {}, "external": False, "lazy": d["lazy"], "scheduling_policy": None,
                 "workdir": None}
            if d["wraps"] is not None:
                r["wraps"] = _dname(d["wraps"])
            return r

        def cfg(i):
            d = deps[i]
            return k.DeploymentConfig(
                name=_dname(i), type=typ(d), config={}, external=False, lazy=d["lazy"],
                wraps=k.WrapsConfig(_dname(d["wraps"])) if d["wraps"] is not None else None)

        ctx = k.types.SimpleNamespace(config={"path": "/nonexistent/streamflow.yml",
                                              "deployments": {_dname(i): raw(i) for i in range(nd)}})
        mgr = k.Manager(ctx)

        def info(i, c=None, used=False):
            c = c if used else mgr.get_connector(_dname(i))
            if c is None:
                return ["n"]
            if type(c) is k.FutureConnector:
                r = c._connector
                return ["f", -1 if r is None else r.cid]
            return ["r", c.cid]

        w["spans"] = []

        async def req(tid, ops):
            for j, op in enumerate(ops):
                c = None
                span = [tid, j, op, len(loop.trace) - 1, None]     # first / last scheduler step of this op
                w["spans"].append(span)
                try:
                    if op[0] == "D":
                        await mgr.deploy(cfg(op[1]))
                    elif op[0] == "U":
                        await mgr.undeploy(_dname(op[1]))
                    elif op[0] == "X":
                        c = mgr.get_connector(_dname(op[1]))
                        if c is not None:
                            await c.get_available_locations()
                    elif op[0] == "A":
                        await mgr.undeploy_all()
                except Exception as e:  # noqa
                    nm = next((nm for cls, nm in k.errs if type(e) is cls), "crash:" + type(e).__name__)
                    w["log"].append(["ret", tid, j, nm, info(op[1], c, op[0] == "X") if len(op) > 1 else ["n"]])
                    span[4] = len(loop.trace) - 1
                    return
                w["log"].append(["ret", tid, j, "ok", info(op[1], c, op[0] == "X") if len(op) > 1 else ["n"]])
                span[4] = len(loop.trace) - 1

        rng = random.Random(case.get("seed", 0))
        loop = k.PickLoop(k.make_picker(case.get("sched"), rng))
        asyncio.set_event_loop(loop)
        try:
            for i, ops in enumerate(case["reqs"]):
                loop.create_task(req(i, ops))
            loop.run_to_quiescence()
            s1, log1 = list(loop.trace), list(w["log"])
            obs = {"s1": s1, "log1": log1, "hang1": [i for i, t in enumerate(loop.tasks) if not t.done()],
                   "overrun": loop.overrun, "s2": [], "log2": [], "hang2": [], "end": []}
            if case.get("final"):
                loop.create_task(req(len(loop.tasks), [["A"]]))
                loop.run_to_quiescence()
                obs["s2"] = loop.trace[len(s1):]
                obs["log2"] = w["log"][len(log1):]
                obs["hang2"] = [i for i, t in enumerate(loop.tasks) if not t.done()]
                obs["end"] = [info(i) for i in range(nd)]
                obs["overrun"] = loop.overrun
            obs["spans"] = [list(x) for x in w["spans"]]
            for t in loop.tasks:
                if not t.done():
                    t.cancel()
            loop.run_to_quiescence()
            for t in loop.tasks:
                if t.done() and not t.cancelled():
                    t.exception()
        finally:
            asyncio.set_event_loop(None)
            loop.close()
        return obs

    # ------------------------------------------------------------------ oracle (from the property text)
    def oracle(self, case, obs):
        v = self._judge(case, obs)
        return (v[0], v[2]) if v else None

    def _judge(self, case, obs):
        """(clause, input class, message) or None.  Judged from the property text on the call log alone."""
        if obs.get("hang") is True and "rc" in obs:
            # worker killed by the shard watchdog (machine overload): no verdict on this case (a case that hangs by
            # itself is stopped by the per-case alarm and reported below) -- but only a few times per check
            seen = self.__dict__.setdefault("_wd_seen", set())
            seen.add(id(obs))
            if len(seen) > self.MAX_WATCHDOG:
                return ("harness-watchdog", "any", f"{len(seen)} cases lost to worker-level watchdog kills")
            return None
        if "crash" in obs or "hang" in obs or obs.get("overrun"):
            return ("crash", "harness", f"harness-level crash/hang/overrun: {str(obs)[:300]}")
        deps = case["deps"]
        log = obs["log1"] + obs["log2"]
        n1 = len(obs["log1"])
        name, st = {}, {}          # connector -> deployment, state
        okdep = set()              # connectors whose deploy() has returned successfully
        early = set()              # connectors whose undeploy() was called before their deploy() had returned
        live = ("deploying", "deployed")
        failed_any = any((e[0] == "de" and not e[2]) or (e[0] == "ret" and e[3] in ("Def", "Dep")) for e in log)
        fcls = "after-failed-deployment" if failed_any else "no-failure"
        # teardown class, from the TRACE: did the stretch of an undeploy / undeploy_all operation overlap (in
        # scheduler steps) the stretch of a deploy / use operation of another request on the same wraps chain?
        conc = self._overlap(case, obs)
        tcls = "undeploy-concurrent-with-deploy" if conc else \
            ("sequential-teardown-" + fcls if failed_any else "sequential-teardown")
        live_at_final = None
        for pos, e in enumerate(log):
            if pos == n1 and case.get("final"):
                live_at_final = [c for c in st if st[c] == "deployed"]
            k = e[0]
            if k == "ds":
                _, n, c = e
                other = [c2 for c2 in st if name[c2] == n and st[c2] in live]
                if other:
                    return ("once", tcls,
                            f"connector {c} of d{n} is deployed while connector {other[0]} of d{n} is "
                            f"{st[other[0]]} and not undeployed (log position {pos})")
                name[c], st[c] = n, "deploying"
            elif k == "de":
                if e[2]:
                    okdep.add(e[1])
                if st[e[1]] == "deploying":
                    st[e[1]] = "deployed" if e[2] else "failed"
                elif e[2]:
                    st[e[1]] = "deployed"      # deploy() completed after undeploy() was called: live again
            elif k == "us":
                c = e[1]
                if st.get(c) in ("undeploying", "undeployed"):
                    return ("all-once", "twice", f"connector {c} of d{name[c]} is undeployed twice (log position {pos})")
                inner = name[c]
                for wn, d in enumerate(deps):
                    if d["wrapper"] and (len(deps) if d["wraps"] is None else d["wraps"]) == inner and wn != inner:
                        lw = [c2 for c2 in st if name[c2] == wn and st[c2] in live]
                        if lw:
                            return ("wrap-order", tcls,
                                    f"connector {c} of d{inner} is undeployed while connector {lw[0]} of "
                                    f"d{wn}, which wraps d{inner}, is {st[lw[0]]} (log position {pos})")
                if st[c] == "deploying":
                    early.add(c)
                st[c] = "undeploying"
            elif k == "ue":
                if st[e[1]] == "undeploying":
                    st[e[1]] = "undeployed"
            elif k == "ret":
                _, t, i, r, inf = e
                if r.startswith("crash:"):
                    return ("crash", "exception", f"request {t} op {i} raised an unexpected {r[6:]}")
                if r != "ok":
                    continue
                op = (case["reqs"][t] if t < len(case["reqs"]) else [["A"]])[i]
                lz = "lazy" if len(op) > 1 and deps[op[1]]["lazy"] else "eager"
                if op[0] == "D":
                    if inf[0] == "n":
                        return ("return-after", lz, f"deploy(d{op[1]}) of request {t} returned but no connector is "
                                                    f"registered (log position {pos})")
                    if inf[0] == "r" and inf[1] not in okdep:
                        return ("return-after", lz, f"deploy(d{op[1]}) of request {t} returned while its connector "
                                                    f"{inf[1]} is {st.get(inf[1])} (log position {pos})")
                if op[0] == "X" and inf[0] == "f":      # a lazy deployment is deployed by its first use
                    c = inf[1]
                    if c == -1 or c not in okdep:
                        return ("return-after", lz, f"use of d{op[1]} by request {t} returned while its connector is "
                                                    f"{'absent' if c == -1 else st.get(c)} (log position {pos})")
        if obs["hang1"] or obs["hang2"]:
            return ("hang", fcls, f"tasks {obs['hang1'] or obs['hang2']} are blocked for ever at quiescence")
        if case.get("final"):
            left = [c for c in st if st[c] in live]
            if left:
                c = left[0]
                cls = tcls
                was = "live when undeploy_all started" if c in (live_at_final or []) else "deployed"
                return ("all-once", cls, f"after the final undeploy_all connector {c} of d{name[c]} ({was}) is "
                                         f"still deployed")
            if any(x != ["n"] for x in obs["end"]):
                return ("all-once", tcls,
                        f"after the final undeploy_all the manager still registers {obs['end']}")
        return None

    @staticmethod
    def _overlap(case, obs):
        deps = case["deps"]
        comp = list(range(len(deps)))            # wraps-connected components
        def find(i):
            while comp[i] != i:
                i = comp[i]
            return i
        for i, d in enumerate(deps):
            if d["wraps"] is not None and d["wraps"] < len(deps):
                comp[find(i)] = find(d["wraps"])
        loc = [i for i, d in enumerate(deps) if d["wrapper"] and d["wraps"] is None]     # they share __LOCAL__
        for i in loc[1:]:
            comp[find(i)] = find(loc[0])
        spans = obs.get("spans") or []
        inf = 1 << 60
        for a in spans:
            if a[2][0] not in "UA":
                continue
            for b in spans:
                if b[2][0] not in "DX" or b[0] == a[0]:
                    continue
                if a[2][0] == "U" and find(a[2][1]) != find(b[2][1]):
                    continue
                a0, a1 = a[3], inf if a[4] is None else a[4]
                b0, b1 = b[3], inf if b[4] is None else b[4]
                if a0 <= b1 and b0 <= a1:
                    return True
        return False

    # ------------------------------------------------------------------ model side
    def _ev(self, e):
        k = e[0]
        if k == "ds":
            return f"DS {e[1]} {e[2]}"
        if k == "de":
            return f"DE {e[1]} {coq_bool(e[2])}"
        if k == "us":
            return f"US {e[1]}"
        if k == "ue":
            return f"UE {e[1]}"
        r = "None" if e[3] == "ok" else f"(Some {ERRS[e[3]]})"
        return f"Ret {e[1]} {e[2]} {r} {self._info(e[4])}"

    def _info(self, x):
        if x[0] == "n":
            return "INone"
        if x[0] == "r":
            return f"(IReal {x[1]})"
        return "(IFut None)" if x[1] == -1 else f"(IFut (Some {x[1]}))"

    def coq_case(self, case, obs):
        if "crash" in obs or "hang" in obs or obs.get("overrun"):
            return None
        for e in obs["log1"] + obs["log2"]:
            if e[0] == "ret" and e[3] != "ok" and e[3] not in ERRS:
                return None
        nat = lambda l: coq_list([coq_nat(x) for x in l])
        deps = coq_list([
            f"mkD {coq_bool(d['wrapper'])} {coq_opt(d['wraps'], coq_nat)} {coq_bool(d['lazy'])} "
            f"{coq_list([coq_bool(b) for b in d['fail']])} {coq_nat(d['dy'])} {coq_nat(d['uy'])}"
            for d in case["deps"]])
        opn = {"D": "ODeploy", "U": "OUndeploy", "X": "OUse"}
        reqs = coq_list([coq_list(["OAll" if o[0] == "A" else f"{opn[o[0]]} {o[1]}" for o in ops])
                         for ops in case["reqs"]])
        evs = lambda l: coq_list([self._ev(e) for e in l])
        return (f"CSched {deps} {reqs} {nat(obs['s1'])} {evs(obs['log1'])} {nat(obs['hang1'])} "
                f"{coq_bool(bool(case.get('final')))} {nat(obs['s2'])} {evs(obs['log2'])} {nat(obs['hang2'])} "
                f"{coq_list([self._info(x) for x in obs['end']])}")

    def nontrivial(self, c):
        return len(c["reqs"]) >= 2 or any(d["wrapper"] for d in c["deps"]) or any(any(d["fail"]) for d in c["deps"])

    def signature(self, c, o, clause):
        """oracle clause / input class (mechanism: lazy or eager deployment concerned, whether some deployment
        failed, state of the wrapper, ...), as computed by _judge."""
        v = self._judge(c, o)
        return f"{v[0]}/{v[1]}" if v else clause

    def shrink(self, c):
        reqs, deps = c["reqs"], c["deps"]
        seeds = [c["seed"], c["seed"] + 1]
        base = {k: v for k, v in c.items() if k != "sched"}
        out = []
        for i in range(len(reqs)):
            if len(reqs) > 1:
                out.append({**base, "reqs": reqs[:i] + reqs[i + 1:]})
            for j in range(len(reqs[i])):
                if len(reqs[i]) > 1:
                    out.append({**base, "reqs": reqs[:i] + [reqs[i][:j] + reqs[i][j + 1:]] + reqs[i + 1:]})
        if len(deps) > 1:
            last = len(deps) - 1
            if all(d["wraps"] != last for d in deps[:last]):
                r2 = [[op for op in ops if len(op) == 1 or op[1] != last] for ops in reqs]
                r2 = [ops for ops in r2 if ops]
                if r2:
                    out.append({**base, "deps": deps[:last], "reqs": r2})
        for i, d in enumerate(deps):
            for key, val in (("fail", []), ("lazy", False), ("dy", max(0, d["dy"] - 1)), ("uy", max(0, d["uy"] - 1))):
                if d[key] != val:
                    out.append({**base, "deps": deps[:i] + [{**d, key: val}] + deps[i + 1:]})
        if c.get("final"):
            out.append({**base, "final": False})
        for cand in out:
            for s in seeds:
                yield {**cand, "seed": s}


PROP = C26()
PROP.LEVEL_TEXT = (
    "Coroutine-level transition system of DefaultDeploymentManager (_deploy/_inner_deploy/deploy/undeploy/undeploy_all) "
    "and FutureConnector in Coq (Deploy/Model.v); an execution is a list of scheduling choices. UNBOUNDED, by inductive "
    "invariants over all executions (any number of requests/operations/suspensions, every list of scheduling choices): "
    "return_after and once for deploy-only AND for deploy+undeploy request sets on one eager, non-wrapper, never-failing "
    "deployment (C26_*_deploy_only_partial, C26_once_deploy_undeploy_partial, C26_return_after_deploy_undeploy_partial). "
    "Also unbounded: the lazy FutureConnector fragment (any number of deploy/use requests on one lazy deployment whose "
    "inner deploy may suspend and may fail): inner deploy at most once, use returns only after it succeeded, after a "
    "failure every use raises and nobody stays blocked on deploy_event (C26_lazy_once_return_after, C26_lazy_fail_wakes; "
    "FutureConnector's own protocol, not the manager-level events_map, for which C26_fail_wakes_refuted stands). "
    "BOUNDED: every "
    "multiset of <=4 deploy/undeploy requests on one eager deployment (return_after, once) and 651 sequential-teardown "
    "request sets on an eager chain of depth 4 (wrap_order, once, return_after), every interleaving, by a verified "
    "exhaustive explorer. Otherwise PARTIAL: the clauses are "
    "proved for EVERY interleaving of four fixed scenarios only (return_after: deploy;undeploy||deploy||deploy and "
    "deploy||deploy||undeploy||deploy on one eager deployment; wrap_order+once: deploy then undeploy_all on an eager "
    "wraps chain of depth 3; all three on two requests racing to deploy the top and the middle of that chain) by a "
    "verified exhaustive explorer evaluated by the kernel (C26_explore_sound + vm_compute), not for arbitrary "
    "configurations. once, all_once and fail_wakes are false of the current code: C26_*_refuted carry witness schedules, "
    "replayed on /repo as known findings; C26_return_after_refuted_prefix is the witness for the code before the fix "
    "(two fix commits in /repo: ac03fe4, d43ef46). The model is tied to /repo on every run by driving the real manager "
    "with a one-task-step-at-a-time event loop and requiring the model, fed the same schedule, to reproduce the exact "
    "connector call log, request outcomes and set of blocked tasks.")
PROP.LEVEL_NOTE = (
    "Model fidelity: the executable model cuts an atomic stretch after fuel0=2000 micro-steps (state marked bad, witness "
    "C26_fuel_cut_refuted); therefore the unbounded results are ALSO stated on fuel-free micro-level executions "
    "(Deploy/Micro.v: C26_*_micro), which the executable step/run refine whenever not cut (C26_step_refines_micro); "
    "the bounded families and the correspondence run check bad=false. wrap_order on chains is bounded (depth<=40 single "
    "run per depth; depth<=6 with undeploy_all; 651 request sets at depth 4): the arbitrary-depth proof is not done. "
    "Trusted: Coq kernel + vm_compute; the hand-written model (tied to the code only by the correspondence run); asyncio "
    "semantics assumed by the model (Event, sleep(0), gather, atomicity between awaits); the controlled event loop and "
    "fake connectors. Missing for a full proof: an inductive invariant over the frame stacks of all tasks (general "
    "return_after / wrap_order / once-for-eager); wraps=None (__LOCAL__) is inside the model since the final round. No axioms.")
