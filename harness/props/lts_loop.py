"""Task-level schedule control shared by the C26 and C27 checks.

PickLoop runs exactly ONE ready callback per iteration.  Callbacks that do not belong to a task (future
done-callbacks such as gather's bookkeeping) are run eagerly, in order; among the ready *tasks* the next one
to take a step is chosen by `picker(sorted list of task ids) -> task id` (a recorded prefix first, then a
seeded PRNG).  A task's own callbacks keep their order.  The loop stops when nothing is ready and no timer is
pending (quiescence decided structurally; tasks that are not done at that point are blocked for ever).
Task ids: tasks get 0,1,2,... in creation order (the task factory numbers them)."""
import asyncio


class PickLoop(asyncio.SelectorEventLoop):
    def __init__(self, picker, max_steps=20000):
        super().__init__()
        self.picker = picker
        self.trace = []          # task id of every task step taken
        self.ids = {}            # task -> id
        self.tasks = []          # id -> task
        self.max_steps = max_steps
        self.overrun = False
        self.on_step = None      # optional hook(tid) called before a task step
        self.set_task_factory(self._factory)

    def _factory(self, loop, coro, **kw):
        t = asyncio.Task(coro, loop=loop, **kw)
        self.ids[t] = len(self.tasks)
        self.tasks.append(t)
        return t

    def _owner(self, h):
        t = getattr(h._callback, "__self__", None)
        if isinstance(t, asyncio.Task) and t in self.ids:
            return self.ids[t]
        return None

    def _run_once(self):
        ready = [h for h in self._ready if not h._cancelled]
        if not ready:
            if self._scheduled:
                return super()._run_once()
            self._stopping = True      # quiescent
            self._ready.clear()
            return
        if len(self.trace) > self.max_steps:
            self.overrun = True
            self._stopping = True
            return
        chosen = None
        for h in ready:
            if self._owner(h) is None:
                chosen = h
                break
        if chosen is None:
            first = {}
            for h in ready:
                first.setdefault(self._owner(h), h)
            tid = self.picker(sorted(first))
            chosen = first[tid]
            self.trace.append(tid)
            if self.on_step:
                self.on_step(tid)
        rest = [h for h in ready if h is not chosen]
        self._ready.clear()
        self._ready.append(chosen)
        super()._run_once()
        new = list(self._ready)
        self._ready.clear()
        self._ready.extend(rest + new)

    def run_to_quiescence(self):
        self._stopping = False
        self.run_forever()


def make_picker(prefix, rng):
    """Follow `prefix` (a recorded list of task ids) while it is consistent with the ready set, then rng."""
    state = {"i": 0, "diverged": False}

    def pick(cands):
        i = state["i"]
        state["i"] += 1
        if prefix is not None and i < len(prefix) and not state["diverged"]:
            if prefix[i] in cands:
                return prefix[i]
            state["diverged"] = True
        return cands[rng.randrange(len(cands))]

    pick.state = state
    return pick
