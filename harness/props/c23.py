"""C23 — Tar-stream copies are exact or fail, however the stream is chunked."""
import base64
import io
import os
import random
import tarfile

from harness.lib.framework import Prop, coq_bool, coq_list, coq_N, coq_opt

BLOCK = 512
BIG = 1 << 20
FIXED_CHUNKS = [1, 2, 3, 7, 64, 511, 512, 513, 4096]
PY_FORMATS = {"py-gnu": tarfile.GNU_FORMAT, "py-pax": tarfile.PAX_FORMAT, "py-ustar": tarfile.USTAR_FORMAT}
GNUTAR_FORMATS = {"gnutar-gnu": "gnu", "gnutar-posix": "posix", "gnutar-ustar": "ustar", "gnutar-oldgnu": "oldgnu"}
MTIME = 1_000_000_000


# ------------------------------------------------------------------------------------------ bytes helpers
def rle_bytes(spec) -> bytes:
    if isinstance(spec, dict):
        return random.Random(spec["rnd"]).randbytes(spec["n"])
    return b"".join(bytes([b]) * n for n, b in spec)


def to_rle(b: bytes):
    out = []
    for x in b:
        if out and out[-1][1] == x:
            out[-1][0] += 1
        else:
            out.append([1, x])
    return out


def coq_rle(b: bytes) -> str:
    return "[" + ";".join(f"({n},{x})" for n, x in to_rle(b)) + "]%N"


def coq_bytes(b: bytes) -> str:
    if b and all(32 <= c <= 126 and c != 34 for c in b):
        return '(bs "' + b.decode("ascii") + '")'
    return "[" + ";".join(str(c) for c in b) + "]%N"


def b64(b: bytes) -> str:
    return base64.b64encode(b).decode("ascii")


def unb64(s: str) -> bytes:
    return base64.b64decode(s)


def nm(e) -> bytes:
    """entry name as bytes (JSON carries it as latin-1 text of the UTF-8 bytes)"""
    return e["n"].encode("latin-1")


def blk(n):
    return (n + BLOCK - 1) // BLOCK * BLOCK


# ------------------------------------------------------------------------------------------ the property
class C23(Prop):
    ID = "C23"
    PROPS_FILE = "Props/C23.v"
    CORR_MODULE = "TarStream.Corr"
    LEVEL = "proof"
    MAX_WORKERS = 8
    CASE_TIMEOUT = 90       # generous: only a real hang (a defect) ever reaches it
    SHARD_TIMEOUT = 2400
    COQ_SHARD = 35
    LEVEL_TEXT = (
        "Coq theorems (28, closed under the global context) over a byte-level model of the async tar reader and "
        "writer (TellableStreamWrapper.read, SeekableStreamReaderWrapper.seek, FileStreamReaderWrapper.read, "
        "copyfileobj/write, TarInfo.frombuf incl. checksum/octal fields/ustar prefix, GNU long names, PAX extended headers (path/linkpath/size), "
        "AioTarStream.next, extract_tar_stream incl. the rebinding of dst to dst/<basename> when a directory lands in an "
        "existing directory; TarInfo.tobuf(GNU_FORMAT), addfile, _close): (a) outcome and "
        "destination tree depend only on the concatenation of the chunks (any two chunkings, unbounded archive); "
        "(b) a regular member that extract_tar_stream completes has exactly its h_size bytes on both copy paths, for "
        "any stream; a stream that ends inside the data or padding of a member ends in ReadError (one-member "
        "statement); (c) C23_roundtrip: the reader lists exactly what the writer archived, for any number of "
        "regular/directory/symlink/hard-link members with names and link names of any length (GNU long records), "
        "also through any chunking, with the block-level (frombuf after _create_header) and field-level lemmas. "
        "The pre-fix code is kept as [legacy] and refuted by vm_compute witnesses. Partial: cuts at or inside a "
        "later header and a corrupted later header end the archive silently (as CPython's tarfile does): stated "
        "as _refuted and listed as known findings, and C23_truncation_prefix/_boundary prove that this is the only "
        "way a cut stream returns normally with members missing (any prefix of any stream, common fuel: ReadError "
        "or a prefix of the member list); symlink targets are extracted verbatim and hard-link targets relative "
        "to the root (fix 35e756c); C23_writer_chunking: the bytes copied for a member do not depend on how the source "
        "delivers its reads nor on copybufsize. Global PAX headers and sparse members are outside the model.")
    LEVEL_NOTE = (
        "Trusted: Coq kernel + vm_compute; the hand-written model TarStream/Model.v (tied to /repo only by the "
        "correspondence run on generated archives); CPython tarfile.TarInfo.frombuf/tobuf, GNU tar, the filesystem. "
        "The model's stream is a list of chunks with asyncio.StreamReader.read semantics; compression wrappers, "
        "device/fifo members, global PAX headers and sparse members are outside the model (oracle only).")
    TECHNIQUE = ("Coq proof (simulation between a chunked and a flat reader; completeness of finished members) + "
                 "vm_compute correspondence of the model against extract_tar_stream/aiotarstream on real archives")
    RULE = ("extract: random trees (nested dirs, empty files, sizes around 0/511/512/513/1024, names >100 bytes, paths of exactly 510/511/512/1023/1024 bytes (GNU long-name payload at the block boundary), "
            "unicode/blank/quote/dash names, exec bits, symlinks, hard links) archived by Python tarfile "
            "(GNU/PAX/USTAR), GNU tar (gnu/posix/ustar/oldgnu) or the async writer, fed to the real "
            "extract_tar_stream through a fake StreamWrapper with fixed chunk sizes {1,2,3,7,64,511,512,513,4096} or "
            "random size cycles, optionally cut at a header/ext-header/data/padding/marker boundary class or with a "
            "corrupted header, in the four destination configurations (dir->absent, dir->existing dir [dst rebound to "
            "dst/<basename>], file->absent, file->existing dir); write: real trees archived by the async writer and read back by Python tarfile, GNU tar and the "
            "async reader. Non-trivial = chunk size < 4096 or a fault or a long name or >= 3 entries. Distinct = "
            "distinct canonical JSON. Big files (up to 3 MiB) are oracle-only; PAX archives (Python PAX_FORMAT, GNU tar --format=posix), symlink and hard-link members are in the model's domain.")
    TRUSTED = ("model: TarStream/Model.v is hand-written; CPython's tarfile (frombuf and tobuf(GNU_FORMAT) are re-modelled and tied by the correspondence), "
               "GNU tar 1.34, os/filesystem calls are not verified, only exercised",)
    ASSUMPTIONS = ("the underlying reader behaves like asyncio.StreamReader.read: at most n bytes, b'' only at EOF",
                   "numeric header fields are octal without int() leniencies; base-256 fields are outside the model",
                   "corruption inside file data is undetectable by the tar format and is not demanded by the oracle")

    # ------------------------------------------------------------------------------ generation
    def _name(self, rng, long_ok=True):
        r = rng.random()
        if r < 0.55:
            return rng.choice(["a", "b", "c", "f", "x1", "data", "out", "r"]) + rng.choice(["", ".txt", ".bin", ".d", "_2"])
        if r < 0.7:
            return rng.choice(["sp ace", "q'uo\"te", "-dash", "semi;colon", "star*", "dollar$HOME", "back\\slash",
                               "tab\there", "h#ash", "tilde~"])
        if r < 0.8:
            return rng.choice(["été", "日本", "naïve.txt"]).encode("utf-8").decode("latin-1")
        if r < 0.88 and long_ok:
            return "L" * rng.choice([95, 99, 100, 101, 120, 160]) + rng.choice(["", ".t"])
        if r < 0.95 and long_ok:
            return "M" * rng.choice([30, 45, 60])
        return "n" + str(rng.randrange(1000))

    def _content(self, rng, big=False):
        if big:
            return {"rnd": rng.randrange(1 << 30), "n": rng.choice([65536, 100000, BIG, BIG + 1, 3 * BIG + 17])}
        size = rng.choice([0, 0, 1, 5, 100, 511, 512, 513, 700, 1023, 1024, 1025, 1536, rng.randrange(0, 2000)])
        out, left = [], size
        while left > 0:
            n = min(left, rng.choice([1, 1, 2, 3, 50, 200, 600]))
            out.append([n, rng.choice([65, 66, 0, 10, 255, 48, rng.randrange(256)])])
            left -= n
        return out

    DEEP = [510, 511, 512, 1023, 1024]

    def _deep(self, rng, ents, used, base, target=None, kind=None, size=None):
        """a member whose path is exactly `target` bytes long (GNU long-name payload = path [+ "/"] + NUL at the 512
        block boundary), reached through directories whose components fit NAME_MAX"""
        target = target or rng.choice(self.DEEP)
        kind = kind or rng.choice("ffd")
        path = base
        while target - len(path) - 1 > 200:
            path = path + "/" + "D" * min(200, target - len(path) - 3)
            if path not in used:
                used.add(path)
                ents.append({"n": path, "k": "d", "m": 0o755})
        name = path + "/" + "E" * (target - len(path) - 1)
        used.add(name)
        if kind == "d":
            ents.append({"n": name, "k": "d", "m": 0o755})
        else:
            n = rng.choice([0, 0, 5, 513]) if size is None else size
            ents.append({"n": name, "k": "f", "m": 0o644, "c": [[n, 70]] if n else []})
        # a member after it: the one a misaligned reader would drop
        nxt = base + "/zz" + str(target)
        used.add(nxt)
        ents.append({"n": nxt, "k": "f", "m": 0o600, "c": [[7, 90]]})

    def _tree(self, rng, single, links, big=False, maxn=8):
        base = self._name(rng, long_ok=False)
        fmode = lambda: rng.choice([0o644, 0o644, 0o755, 0o600, 0o444, 0o664])
        dmode = lambda: rng.choice([0o755, 0o755, 0o700, 0o775])
        if single:
            return [{"n": base, "k": "f", "m": fmode(), "c": self._content(rng, big)}]
        ents = [{"n": base, "k": "d", "m": dmode()}]
        dirs, files = [base], []
        used = {base}
        if not big and rng.random() < 0.14:
            self._deep(rng, ents, used, base)
        for _ in range(rng.randrange(1, maxn)):
            parent = rng.choice(dirs)
            name = parent + "/" + self._name(rng)
            if rng.random() < 0.15:       # total path length at the 100-byte name field boundary
                target = rng.choice([98, 99, 100, 101])
                if len(parent) + 2 <= target:
                    name = parent + "/" + "B" * (target - len(parent) - 1)
            if name in used or len(name) > 250:
                continue
            used.add(name)
            r = rng.random()
            if r < 0.25 and name.count("/") < 4:
                ents.append({"n": name, "k": "d", "m": dmode()})
                dirs.append(name)
            elif links and r < 0.35:
                tgt = rng.choice(["a.txt", "../up", "sub/x", "/etc/hostname", "dangling"])
                ents.append({"n": name, "k": "l", "t": tgt})
            elif links and r < 0.42 and files:
                t = rng.choice(files)
                ents.append({"n": name, "k": "h", "t": t["n"], "m": t["m"]})
            else:
                e = {"n": name, "k": "f", "m": fmode(), "c": self._content(rng, big and rng.random() < 0.5)}
                ents.append(e)
                files.append(e)
        return ents

    def _chunks(self, rng):
        r = rng.random()
        if r < 0.6:
            return [rng.choice(FIXED_CHUNKS)]
        if r < 0.7:
            return [BIG]
        return [rng.choice([1, 2, 5, 13, 100, 300, 511, 512, 513, 1000, 5000]) for _ in range(rng.randrange(2, 6))]

    def _fault(self, rng, tree):
        nmem = len(tree)
        m = rng.randrange(nmem)
        if rng.random() < 0.2:
            return {"k": "flip", "m": m, "field": rng.choice(["name", "size", "chksum"])}
        where = rng.choice(["hdr-start", "hdr-mid", "ext-hdr-mid", "ext-data", "data", "data", "pad", "marker",
                            "end-nomarker"])
        return {"k": "cut", "m": m, "where": where, "q": rng.randrange(1000)}

    def gen(self, rng, tier):
        n = {"quick": 180, "thorough": 1200, "extended": 900}[tier]
        cases = []
        for i in range(n):
            r = rng.random()
            cfg = "A" if r < 0.48 else ("D" if r < 0.64 else ("B" if r < 0.82 else "C"))
            oracle_only = rng.random() < 0.3
            links = cfg in ("A", "D") and rng.random() < (0.5 if oracle_only else 0.3)
            big = oracle_only and not links and rng.random() < 0.25
            if oracle_only:
                w = rng.choice(["py-pax", "gnutar-posix", "py-gnu", "gnutar-gnu", "aio-gnu"])
            else:
                w = rng.choice(["py-gnu", "py-gnu", "py-ustar", "gnutar-gnu", "gnutar-gnu", "gnutar-ustar",
                                "gnutar-oldgnu", "aio-gnu", "py-pax", "py-pax", "gnutar-posix", "gnutar-posix"])
            if links and w == "aio-gnu":
                w = "py-gnu"
            tree = self._tree(rng, cfg not in ("A", "D"), links, big, maxn=5 if big else 8)
            c = {"f": "extract", "w": w, "tree": tree, "chunks": self._chunks(rng), "cfg": cfg,
                 "buf": rng.choice([None, None, 1, 7, 100, 512, 1000, 4096, 65536]),
                 "fault": self._fault(rng, tree) if rng.random() < 0.45 and not big else None}
            if big and c["chunks"][0] < 64:
                c["chunks"] = [rng.choice([511, 4096, 65536, 100000])]
            if big and c["buf"] is not None and c["buf"] < 512:
                c["buf"] = 65536
            cases.append(c)
        for i in range(n // 6):
            cfg = "A" if rng.random() < 0.7 else "B"
            tree = self._tree(rng, cfg != "A", False, rng.random() < 0.1, maxn=6)
            cases.append({"f": "write", "tree": tree, "buf": rng.choice([None, 1, 7, 512, 1000, 65536]),
                          "abs": rng.random() < 0.5, "chunks": self._chunks(rng)})
            if any(isinstance(e.get("c"), dict) for e in tree):      # MiB-sized files: keep the case fast
                if cases[-1]["buf"] in (1, 7):
                    cases[-1]["buf"] = 65536
                if cases[-1]["chunks"][0] < 64:
                    cases[-1]["chunks"] = [rng.choice([511, 4096, 65536, 100000])]
        return cases

    # ------------------------------------------------------------------------------ implementation side
    def impl_init(self):
        import asyncio
        import shutil
        import subprocess
        import tempfile

        from streamflow.core.data import StreamWrapper
        from streamflow.deployment import aiotarstream
        from streamflow.deployment.connector.base import extract_tar_stream

        os.umask(0o022)
        self.asyncio, self.shutil, self.subprocess, self.tempfile = asyncio, shutil, subprocess, tempfile
        self.aiotar, self.extract_tar_stream = aiotarstream, extract_tar_stream
        self.scratch = tempfile.mkdtemp(prefix="sfv-c23-", dir="/var/tmp")
        import atexit
        atexit.register(shutil.rmtree, self.scratch, True)

        class FakeReader(StreamWrapper):
            """asyncio.StreamReader-like: read(n) returns at most n bytes and never crosses a chunk."""

            def __init__(self, data, sizes):
                super().__init__(None)
                self.chunks, pos, i = [], 0, 0
                sizes = [s for s in sizes if s > 0] or [BIG]
                while pos < len(data):
                    s = sizes[i % len(sizes)]
                    self.chunks.append(data[pos:pos + s])
                    pos += s
                    i += 1
                self.chunks.reverse()
                self.closed = False

            async def close(self):
                self.closed = True

            async def read(self, size=None):
                await asyncio.sleep(0)
                if not self.chunks:
                    return b""
                c = self.chunks.pop()
                if size is not None and len(c) > size:
                    self.chunks.append(c[size:])
                    c = c[:size]
                return c

            async def write(self, data):
                raise NotImplementedError

        class FakeWriter(StreamWrapper):
            def __init__(self):
                super().__init__(None)
                self.buf = bytearray()
                self.closed = False

            async def close(self):
                self.closed = True

            async def read(self, size=None):
                raise NotImplementedError

            async def write(self, data):
                await asyncio.sleep(0)
                self.buf += data

        self.FakeReader, self.FakeWriter = FakeReader, FakeWriter

    # -- building things
    def _materialise(self, tree, root):
        """create the recipe as a real tree under root (names are relative paths starting with base)"""
        for e in tree:
            p = os.path.join(os.fsencode(root), nm(e))
            if e["k"] == "d":
                os.mkdir(p)
            elif e["k"] == "f":
                with open(p, "wb") as f:
                    f.write(rle_bytes(e["c"]))
            elif e["k"] == "l":
                os.symlink(e["t"].encode("latin-1"), p)
            elif e["k"] == "h":
                os.link(os.path.join(os.fsencode(root), e["t"].encode("latin-1")), p)
        for e in reversed(tree):
            p = os.path.join(os.fsencode(root), nm(e))
            if e["k"] in ("d", "f"):
                os.chmod(p, e["m"])
            if e["k"] != "l":
                os.utime(p, (MTIME, MTIME))

    def _archive(self, w, tree, tmp, buf=None, arc_abs=False):
        base = nm(tree[0])
        if w in PY_FORMATS:
            bio = io.BytesIO()
            with tarfile.open(fileobj=bio, mode="w", format=PY_FORMATS[w], encoding="utf-8",
                              errors="surrogateescape") as t:
                for e in tree:
                    ti = tarfile.TarInfo(nm(e).decode("utf-8", "surrogateescape"))
                    ti.mtime, ti.uid, ti.gid, ti.uname, ti.gname = MTIME, 0, 0, "root", "root"
                    if e["k"] == "d":
                        ti.type, ti.mode = tarfile.DIRTYPE, e["m"]
                        t.addfile(ti)
                    elif e["k"] == "f":
                        data = rle_bytes(e["c"])
                        ti.size, ti.mode = len(data), e["m"]
                        t.addfile(ti, io.BytesIO(data))
                    elif e["k"] == "l":
                        ti.type, ti.linkname, ti.mode = tarfile.SYMTYPE, e["t"], 0o777
                        t.addfile(ti)
                    elif e["k"] == "h":
                        ti.type, ti.mode = tarfile.LNKTYPE, e["m"]
                        ti.linkname = e["t"].encode("latin-1").decode("utf-8", "surrogateescape")
                        t.addfile(ti)
            return bio.getvalue()
        src = os.path.join(tmp, "src")
        os.mkdir(src)
        self._materialise(tree, src)
        if w in GNUTAR_FORMATS:
            r = self.subprocess.run(
                ["tar", "--format=" + GNUTAR_FORMATS[w], "--owner=0", "--group=0", "--numeric-owner", "--sort=name",
                 "-cf", "-", "-C", os.fsencode(src), "--", base],
                stdout=self.subprocess.PIPE, stderr=self.subprocess.PIPE)
            if r.returncode != 0:
                raise RuntimeError("gnu tar failed: " + r.stderr.decode("utf-8", "replace")[-300:])
            return r.stdout
        if w == "aio-gnu":
            return self._aio_write(os.path.join(os.fsencode(src), base).decode("utf-8", "surrogateescape"),
                                   ("/remote/dir/" if arc_abs else "") + base.decode("utf-8", "surrogateescape"), buf)
        raise ValueError(w)

    def _aio_write(self, src, arcname, buf):
        wr = self.FakeWriter()

        async def go():
            async with self.aiotar.open(stream=wr, format=tarfile.GNU_FORMAT, mode="w", dereference=True,
                                        copybufsize=buf) as tar:
                await tar.add(src, arcname=arcname)

        self.asyncio.run(go())
        return bytes(wr.buf)

    def _layout(self, ar):
        out = []
        with tarfile.open(fileobj=io.BytesIO(ar), mode="r:", encoding="utf-8", errors="surrogateescape") as t:
            for m in t:
                has = m.isreg() or m.type not in tarfile.SUPPORTED_TYPES
                out.append({"off": m.offset, "od": m.offset_data, "size": m.size if has else 0})
        return out

    def _apply_fault(self, ar, lay, fault):
        """returns (bytes, fault class or None if the fault does not apply to this archive)"""
        if fault is None or fault["m"] >= len(lay):
            return ar, None
        m, L = fault["m"], lay[fault["m"]]
        pos_cls = "first" if m == 0 else "later"
        hdr = L["od"] - BLOCK
        if fault["k"] == "flip":
            b = bytearray(ar)
            if fault["field"] == "name":
                b[hdr] ^= 0x01
            elif fault["field"] == "size":
                b[hdr + 134] = 48 + (b[hdr + 134] - 48 + 1) % 8 if 48 <= b[hdr + 134] <= 55 else b[hdr + 134]
            else:
                i = hdr + 148 + 5
                b[i] = 48 + (b[i] - 48 + 1) % 8 if 48 <= b[i] <= 55 else b[i]
            if bytes(b) == ar:
                return ar, None
            return bytes(b), f"flip:hdr:{pos_cls}"
        q, w = fault["q"], fault["where"]
        end = L["od"] + blk(L["size"])
        if w == "hdr-start":
            cut = L["off"]
        elif w == "hdr-mid":
            cut = hdr + 1 + q % 511
        elif w == "ext-hdr-mid":
            if hdr == L["off"]:
                return ar, None
            cut = L["off"] + 1 + q % 511
        elif w == "ext-data":
            if hdr == L["off"]:
                return ar, None
            cut = L["off"] + BLOCK + q % (hdr - L["off"] - BLOCK + 1)
            if cut == hdr:
                w = "ext-end"
        elif w == "data":
            if L["size"] == 0:
                return ar, None
            cut = L["od"] + q % L["size"]
        elif w == "pad":
            if end == L["od"] + L["size"]:
                return ar, None
            cut = L["od"] + L["size"] + q % (end - L["od"] - L["size"])
        elif w == "marker":
            last = lay[-1]
            e = last["od"] + blk(last["size"])
            cut = e + 1 + q % max(1, len(ar) - e - 1)
            pos_cls = "after"
        elif w == "end-nomarker":
            last = lay[-1]
            cut = last["od"] + blk(last["size"])
            pos_cls = "after"
        else:
            raise ValueError(w)
        if w in ("hdr-start",) and m == 0:
            w = "empty"
        return ar[:cut], f"cut:{w}:{pos_cls}"

    def _walk(self, root):
        """[[path relative to root ('' = root), kind, mode, b64 content | target]] sorted; root may be a file"""
        out = []
        rootb = os.fsencode(root)

        def one(p, rel):
            st = os.lstat(p)
            import stat as S
            if S.S_ISLNK(st.st_mode):
                out.append([rel.decode("latin-1"), "l", 0, os.readlink(p).decode("latin-1")])
            elif S.S_ISDIR(st.st_mode):
                out.append([rel.decode("latin-1"), "d", S.S_IMODE(st.st_mode), ""])
                for x in sorted(os.listdir(p)):
                    one(os.path.join(p, x), (rel + b"/" + x) if rel else x)
            elif S.S_ISREG(st.st_mode):
                with open(p, "rb") as f:
                    out.append([rel.decode("latin-1"), "f", S.S_IMODE(st.st_mode), b64(f.read())])
            else:
                out.append([rel.decode("latin-1"), "?", 0, ""])

        if os.path.lexists(rootb):
            one(rootb, b"")
        return sorted(out)

    def _aio_extract(self, ar, chunks, src, dst, buf):
        async def go():
            async with self.aiotar.open(stream=self.FakeReader(ar, chunks), mode="r", copybufsize=buf) as tar:
                await self.extract_tar_stream(tar, src, dst, buf)

        try:
            self.asyncio.run(go())
            return None
        except tarfile.TarError as e:
            return type(e).__name__
        except Exception as e:  # noqa
            if type(e).__name__ == "_Timeout":      # the worker's watchdog: a hang, not an error of the copy
                raise
            return type(e).__name__ + ":" + str(e)[:80]

    def impl_run(self, c):
        tmp = self.tempfile.mkdtemp(dir=self.scratch)
        try:
            if c["f"] == "extract":
                return self._run_extract(c, tmp)
            return self._run_write(c, tmp)
        finally:
            self.subprocess.run(["chmod", "-R", "u+rwx", tmp], stderr=self.subprocess.DEVNULL)
            self.shutil.rmtree(tmp, ignore_errors=True)

    def _run_extract(self, c, tmp):
        tree = c["tree"]
        base = nm(tree[0])
        w = c["w"]
        try:
            ar0 = self._archive(w, tree, tmp, c["buf"])
        except (ValueError, RuntimeError):      # the format cannot hold this tree (ustar name limits)
            self.shutil.rmtree(os.path.join(tmp, "src"), ignore_errors=True)
            w = "py-gnu"
            ar0 = self._archive(w, tree, tmp, c["buf"])
        lay = self._layout(ar0)
        ar, fcls = self._apply_fault(ar0, lay, c["fault"])
        dst = os.path.join(tmp, "out")
        if c["cfg"] in ("C", "D"):
            os.mkdir(dst)
        src = "/remote/some dir/" + base.decode("utf-8", "surrogateescape")
        cwd = os.getcwd()
        os.chdir(tmp)
        try:
            err = self._aio_extract(ar, c["chunks"], src, dst, c["buf"])
        finally:
            os.chdir(cwd)
        obs = {"err": err, "tree": self._walk(dst), "fault": fcls, "len": len(ar), "members": len(lay), "w": w}
        if len(ar) <= 40000:
            obs["ar"] = b64(ar)
        return obs

    def _run_write(self, c, tmp):
        tree = c["tree"]
        base = nm(tree[0])
        ar = self._archive("aio-gnu", tree, tmp, c["buf"], c["abs"])
        prefix = b"remote/dir/" if c["abs"] else b""
        obs = {"len": len(ar)}
        # (1) Python's tarfile reads it
        try:
            mem = []
            with tarfile.open(fileobj=io.BytesIO(ar), mode="r:", encoding="utf-8", errors="surrogateescape") as t:
                for m in t:
                    data = t.extractfile(m).read() if m.isreg() else b""
                    mem.append([m.name.encode("utf-8", "surrogateescape").decode("latin-1"),
                                m.type.decode("latin-1"), m.mode & 0o7777, b64(data), m.offset, m.offset_data,
                                [m.linkname.encode("utf-8", "surrogateescape").decode("latin-1"), m.uid, m.gid,
                                 int(m.mtime), m.uname, m.gname]])
            obs["py"] = mem
        except Exception as e:  # noqa
            if type(e).__name__ == "_Timeout":
                raise
            obs["py_err"] = type(e).__name__ + ":" + str(e)[:80]
        # (2) GNU tar reads it
        out = os.path.join(tmp, "gt")
        os.mkdir(out)
        r = self.subprocess.run(["tar", "-xpf", "-", "-C", out], input=ar, stdout=self.subprocess.PIPE,
                                stderr=self.subprocess.PIPE)
        obs["gnutar_rc"] = r.returncode
        obs["gnutar_err"] = r.stderr.decode("utf-8", "replace")[-200:]
        obs["gnutar_tree"] = self._walk(os.path.join(os.fsencode(out), prefix + base))
        # (3) the async reader reads it back, chunked
        dst = os.path.join(tmp, "out")
        if not c["abs"]:
            obs["aio_err"] = self._aio_extract(ar, c["chunks"], "/x/" + base.decode("utf-8", "surrogateescape"),
                                               dst, c["buf"])
            obs["aio_tree"] = self._walk(dst)
        if len(ar) <= 40000:
            obs["ar"] = b64(ar)
        return obs

    # ------------------------------------------------------------------------------ oracle (property text)
    def expected_tree(self, c):
        """the destination tree the property text demands, from the recipe alone"""
        tree = c["tree"]
        base = nm(tree[0])
        cfg = c.get("cfg", "A" if tree[0]["k"] == "d" else "B")
        by_name = {e["n"]: e for e in tree}
        out = {}
        for e in tree:
            n = nm(e)
            if cfg in ("C", "D"):
                rel = n
            else:
                rel = b"" if n == base else n[len(base) + 1:]
            rel = rel.decode("latin-1")
            if e["k"] == "d":
                out[rel] = ["d", e["m"], ""]
            elif e["k"] == "f":
                out[rel] = ["f", e["m"], b64(rle_bytes(e["c"]))]
            elif e["k"] == "l":
                out[rel] = ["l", 0, e["t"]]
            elif e["k"] == "h":
                t = by_name[e["t"]]
                out[rel] = ["f", t["m"], b64(rle_bytes(t["c"]))]
        if cfg in ("C", "D"):
            out[""] = ["d", 0o755, ""]
        return out

    @staticmethod
    def _diff(exp, got):
        """(kind, path) of the first difference in a fixed priority, or None"""
        g = {e[0]: e[1:] for e in got}
        for p in sorted(exp):
            if p not in g:
                return "missing", p
        for p in sorted(g):
            if p not in exp:
                return "extra", p
        for p in sorted(exp):
            e, o = exp[p], g[p]
            if e[0] != o[0]:
                return "kind", p
            if e[0] == "l" and e[2] != o[2]:
                return "symlink-target", p
            if e[0] == "f" and e[2] != o[2]:
                a, b = unb64(e[2]), unb64(o[2])
                return ("partial" if len(b) < len(a) and a.startswith(b) else "content"), p
            if e[0] != "l" and e[1] != o[1]:
                return "mode", p
        return None

    def oracle(self, c, o):
        if o.get("hang"):
            return ("hang", "the copy never returns")
        if o.get("crash"):
            return ("crash", f"harness/implementation crashed: {o.get('exc')} {o.get('stderr', '')[-300:]}")
        if c["f"] == "extract":
            exp = self.expected_tree(c)
            d = self._diff(exp, o["tree"])
            if o["fault"] is None:
                if o["err"] is not None:
                    return ("exact", f"intact stream, chunks {c['chunks']}: copy raised {o['err']}")
                if d:
                    return ("exact", f"intact stream, chunks {c['chunks']}: {d[0]} at {d[1]!r}")
                return None
            if o["err"] is None and d:
                return ("fault-silent", f"stream with {o['fault']}: copy returned normally but {d[0]} at {d[1]!r}")
            return None
        # write
        exp = self.expected_tree({"tree": c["tree"], "cfg": "A" if c["tree"][0]["k"] == "d" else "B"})
        if "py_err" in o:
            return ("write-py", f"Python tarfile cannot read the archive: {o['py_err']}")
        if o["gnutar_rc"] != 0:
            return ("write-gnutar", f"GNU tar exit {o['gnutar_rc']}: {o['gnutar_err']}")
        d = self._diff(exp, o["gnutar_tree"])
        if d:
            return ("write-gnutar", f"GNU tar extracted a different tree: {d[0]} at {d[1]!r}")
        prefix = "remote/dir/" if c["abs"] else ""
        want = [[prefix + e["n"], {"d": "5", "f": "0"}[e["k"]], e["m"],
                 b64(rle_bytes(e["c"])) if e["k"] == "f" else b64(b"")] for e in c["tree"]]
        if sorted(m[:4] for m in o["py"]) != sorted(want):
            return ("write-py", "Python tarfile lists different members than the source tree")
        if c["abs"]:
            return None
        if o["aio_err"] is not None:
            return ("roundtrip", f"async reader raised {o['aio_err']} on the async writer's archive")
        d = self._diff(exp, o["aio_tree"])
        if d:
            return ("roundtrip", f"async writer -> async reader: {d[0]} at {d[1]!r}")
        return None

    def signature(self, c, o, clause):
        if clause in ("hang", "crash"):
            return f"{c['f']}/{clause}/{o.get('fault') if isinstance(o, dict) else ''}"
        if c["f"] == "extract":
            d = self._diff(self.expected_tree(c), o["tree"])
            kind = d[0] if d else ("raises:" + str(o["err"]).split(":")[0])
            if clause == "exact":
                return f"extract/exact/{kind}"
            return f"extract/fault-silent/{o['fault']}/{kind}"
        return f"write/{clause}"

    # ------------------------------------------------------------------------------ model side
    ERR = {None: 0, "ReadError": 1}

    def _in_model(self, c, o=None):
        for e in c["tree"]:
            if e["k"] not in ("d", "f", "l", "h") or isinstance(e.get("c"), dict):
                return False
        return True

    def _coq_tree(self, tree):
        out = []
        for p, k, m, x in tree:
            if k == "l":
                out.append(f"({coq_bytes(p.encode('latin-1'))},(2,0,{coq_rle(x.encode('latin-1'))}))%N")
                continue
            if k not in ("d", "f"):
                return None
            out.append(f"({coq_bytes(p.encode('latin-1'))},({0 if k == 'd' else 1},{m},{coq_rle(unb64(x))}))%N")
        return coq_list(out)

    def coq_case(self, c, o):
        if o.get("hang") or o.get("crash") or "ar" not in o or not self._in_model(c, o):
            return None
        if c["f"] == "extract":
            if o["err"] is not None and o["err"] != "ReadError":
                err = 3
            else:
                err = self.ERR[o["err"]]
            tr = self._coq_tree(o["tree"])
            if tr is None:
                return None
            sizes = [s for s in c["chunks"] if s > 0] or [BIG]
            return (f"CExtract {coq_rle(unb64(o['ar']))} {coq_list([coq_N(s) for s in sizes])} "
                    f"{coq_bytes(nm(c['tree'][0]))} {coq_bool(c['cfg'] in ('C', 'D'))} {coq_opt(c['buf'], coq_N)} "
                    f"{coq_N(err)} {tr}")
        if "py" not in o:
            return None
        ar = unb64(o["ar"])
        ms, mem, metas = [], [], []
        for name, ty, mode, data, off, od, mt in o["py"]:
            d = unb64(data)
            ms.append(f"({coq_rle(ar[off:od])},{coq_rle(d)})")
            mem.append(f"({coq_bytes(name.encode('latin-1'))},({ord(ty)},{mode},{coq_rle(d)}))%N")
            link, uid, gid, mtime, un, gn = mt
            metas.append(f"({coq_bytes(link.encode('latin-1'))},({uid},{gid},{mtime}),"
                         f"({coq_bytes(un.encode())},{coq_bytes(gn.encode())}))%N")
        return f"CWrite {coq_list(ms)} {coq_rle(ar)} {coq_list(mem)} {coq_list(metas)}"

    def nontrivial(self, c):
        return (c["chunks"][0] < 4096 or c.get("fault") is not None or len(c["tree"]) >= 3
                or any(len(e["n"]) > 100 for e in c["tree"]))

    def shrink(self, c):
        import itertools
        return itertools.islice(self._shrink(c), 12)      # a candidate that still hangs costs CASE_TIMEOUT

    def _shrink(self, c):
        t = c["tree"]
        if c.get("chunks") and c["chunks"] != [BIG]:
            yield {**c, "chunks": [BIG]}
        if c.get("buf") is not None:
            yield {**c, "buf": None}
        for i in range(len(t) - 1, 0, -1):
            pre = t[i]["n"] + "/"
            if any(e["n"].startswith(pre) or e.get("t") == t[i]["n"] for e in t):
                continue
            c2 = {**c, "tree": t[:i] + t[i + 1:]}
            f = c.get("fault")
            if f:
                if f["m"] == i:
                    continue
                if f["m"] > i:
                    c2["fault"] = {**f, "m": f["m"] - 1}
            yield c2
        for i, e in enumerate(t):
            if e["k"] == "f" and not isinstance(e["c"], dict) and len(e["c"]) > 1:
                yield {**c, "tree": t[:i] + [{**e, "c": [[sum(x[0] for x in e["c"]), 65]]}] + t[i + 1:]}
            if e["k"] == "f" and isinstance(e["c"], dict):
                yield {**c, "tree": t[:i] + [{**e, "c": [[700, 65]]}] + t[i + 1:]}
        if c["f"] == "extract" and c["w"] != "py-gnu":
            yield {**c, "w": "py-gnu"}


PROP = C23()
