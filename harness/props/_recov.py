"""Engine-level driver shared by the recovery properties C16, C17, C19 (imported only inside workers).

It builds real StreamFlow workflows (DeployStep -> ScheduleStep -> TransferStep -> ExecuteStep pipelines,
optionally with ScatterStep/GatherStep), runs them with the real StreamFlowExecutor and the real
Rollback/Dummy failure manager on an in-memory database and a local deployment with a private, deletable
working directory, injects failures according to a *plan* (job step, tag, phase, kind, count) and records a
trace of what the real failure manager did.  The failure-injecting step/command classes imitate
tests/utils/workflow.py (nothing is imported from tests/).  They only *observe* the failure manager: the
methods of RollbackFailureManager are wrapped by recording shims that call the original unchanged.

Fault kinds:  soft      - the phase raises / returns FAILED, no data is touched
              failstop  - before failing, the whole working directory of the deployment is deleted
                          (every intermediate file produced so far is lost; workflow inputs live elsewhere)
"""
from __future__ import annotations

import asyncio
import json
import os
import posixpath
import random
import shutil
import tempfile
from typing import Any, cast

from streamflow.core import utils
from streamflow.core.config import BindingConfig
from streamflow.core.data import DataType
from streamflow.core.deployment import DeploymentConfig, Target
from streamflow.core.exception import (
    FailureHandlingException,
    WorkflowDefinitionException,
    WorkflowExecutionException,
)
from streamflow.core.utils import get_entity_ids, get_job_tag, get_tag
from streamflow.core.workflow import Command, CommandOutput, Job, Status, Token, Workflow
from streamflow.data.remotepath import StreamFlowPath
from streamflow.main import build_context
from streamflow.recovery.failure_manager import RollbackFailureManager
from streamflow.workflow.executor import StreamFlowExecutor
from streamflow.workflow.port import ConnectorPort, JobPort
from streamflow.cwl.transformer import ForwardTransformer
from streamflow.workflow.combinator import LoopCombinator, LoopTerminationCombinator
from streamflow.workflow.token import IterationTerminationToken
from streamflow.workflow.step import (
    CombinatorStep,
    ConditionalStep,
    LoopCombinatorStep,
    LoopOutputStep,
    DefaultCommandOutputProcessor,
    DeployStep,
    ExecuteStep,
    GatherStep,
    InputInjectorStep,
    ScatterStep,
    ScheduleStep,
    TransferStep,
)
from streamflow.workflow.token import FileToken, JobToken, ListToken, TerminationToken
from streamflow.workflow.utils import get_job_token

from harness.props._recov_shapes import apply_op, denote, step_names  # noqa: F401

DEPLOYMENT = "verif-volatile"
ENGINE_TIMEOUT = 60

import logging as _logging
from streamflow.log_handler import logger as _sf_logger
from harness.lib.looputil import permute_ready
_sf_logger.setLevel(_logging.CRITICAL + 1)


# ------------------------------------------------------------------------------------------------
# per-scenario global state (one scenario at a time per worker process)
class Scenario:
    def __init__(self):
        self.plan = {}        # (step_name, tag, phase) -> (count, kind)
        self.attempts = {}    # (step_name, tag, phase) -> attempts so far
        self.trace = []       # events in the order the real code produced them
        self.workdir = None
        self.barrier = None   # {"jobs": set, "arrived": int, "event": Event, "wipe": bool}: failing first attempts meet here
        self.hold = None      # {"job", "attempt", "syncs", "seen", "event", "point"}: that attempt waits until `syncs` recoveries
                              # synchronised; point "command" = before the command completes, "output" = after the command
                              # ended, before its outputs are collected and put
        self.last = None      # {"jobs": set, "prefix": str, "need": int, "seen": int, "event"}: failing first attempts of these jobs
                              # wait until `need` jobs whose name starts with prefix have completed (they fail LAST)
        self.late = None      # {"jobs": set, "event": Event}: failing first attempts that fail only once the held job
                              # reached its hold point (so that their recoveries synchronise inside that window)

    def ev(self, *e):
        self.trace.append(list(e))
        ls = self.last
        if ls is not None and e[0] == "done" and e[1].startswith(ls["prefix"]) and e[1] not in ls["jobs"]:
            ls["seen"] += 1
            if ls["seen"] >= ls["need"]:
                ls["event"].set()
        h = self.hold
        if h is not None and e[0] == "sync-end":
            h["seen"] += 1
            if h["seen"] >= h["syncs"]:
                h["event"].set()

    def should_fail(self, step_name, tag, phase):
        k = (step_name, tag, phase)
        n = self.attempts.get(k, 0) + 1
        self.attempts[k] = n
        cnt, kind = self.plan.get(k, (0, None))
        return (kind if n <= cnt else None), n


SC = Scenario()


def _wipe_workdir():
    """fail-stop: the location loses everything below its working directory"""
    wd = SC.workdir
    if wd and os.path.basename(wd) == "verif-fs-volatile" and os.path.isdir(wd):
        shutil.rmtree(wd, ignore_errors=True)
    SC.ev("wipe")


def _wipe_partial():
    """partial loss: every secondary (.idx) file below the working directory disappears, the primary files stay"""
    wd = SC.workdir
    if wd and os.path.isdir(wd):
        for root, _dirs, fs in os.walk(wd):
            for f in fs:
                if f.endswith(".idx"):
                    try:
                        os.remove(os.path.join(root, f))
                    except OSError:
                        pass
    SC.ev("wipe-partial")


def _lose(kind):
    if kind == "failstop":
        _wipe_workdir()
    elif kind == "partial":
        _wipe_partial()


# ------------------------------------------------------------------------------------------------
# token / step / command classes (loadable by name from the database by recovery workflows)
class VFileToken(FileToken):
    async def get_paths(self, context):
        return [self.value]


class VFileToken2(FileToken):
    """a file with a secondary file (value = "<primary>|<secondary>"): available iff BOTH paths have a live copy"""

    async def get_paths(self, context):
        return [p for p in self.value.split("|") if p]


async def _register_path(context, location, path, relpath):
    p = StreamFlowPath(path, context=context, location=location)
    if real := await p.resolve():
        if str(real) != str(p):
            base = context.data_manager.register_path(location=location, path=str(real), relpath=relpath)
            link = context.data_manager.register_path(
                location=location, path=str(p), relpath=relpath, data_type=DataType.SYMBOLIC_LINK)
            context.data_manager.register_relation(base, link)
            return base
        return context.data_manager.register_path(location=location, path=str(p), relpath=relpath)
    return None


async def build_token(job, value, context, recoverable):
    tag = get_tag(job.inputs.values())
    if isinstance(value, list):
        return ListToken(tag=tag, value=[await build_token(job, v, context, recoverable) for v in value])
    if isinstance(value, dict) and value.get("class") == "File2":
        locations = context.scheduler.get_locations(job.name)
        for pth in (value["path"], value["idx"]):
            await _register_path(context, next(iter(locations)), pth, os.path.basename(pth))
        return VFileToken2(tag=tag, value=value["path"] + "|" + value["idx"], recoverable=recoverable)
    if isinstance(value, dict) and value.get("class") == "File":
        locations = context.scheduler.get_locations(job.name)
        path = value["path"]
        relpath = (os.path.relpath(path, job.output_directory)
                   if job.output_directory and path.startswith(job.output_directory)
                   else os.path.basename(path))
        await _register_path(context, next(iter(locations)), path, relpath)
        return VFileToken(tag=tag, value=path, recoverable=recoverable)
    if isinstance(value, Token):
        t = value.update(value.value)
        t.recoverable = recoverable
        return t
    return Token(tag=tag, value=value, recoverable=recoverable)


class VInjectorStep(InputInjectorStep):
    async def process_input(self, job, token_value):
        return await build_token(job, token_value, self.workflow.context, True)


class VOutputProcessor(DefaultCommandOutputProcessor):
    def __init__(self, name, workflow, value_type, target=None):
        super().__init__(name, workflow, target)
        self.value_type = value_type

    @classmethod
    async def _load(cls, row, loading_context):
        return cls(name=row["name"], workflow=await loading_context.load_workflow(row["workflow"]),
                   value_type=row["value_type"],
                   target=(await loading_context.load_target(row["target"]) if row["target"] else None))

    async def _save_additional_params(self, database):
        if self.target:
            await self.target.save(database)
        return cast(dict, await super()._save_additional_params(database)) | {"value_type": self.value_type}

    async def process(self, job, command_output, connector=None, recoverable=False):
        context = self.workflow.context
        value = (await command_output).value
        tag = get_tag(job.inputs.values())
        h = SC.hold
        if (h is not None and h["point"] == "output" and job.name == h["job"]
                and SC.attempts.get((posixpath.dirname(job.name), tag, "execute"), 0) == h["attempt"]):
            SC.ev("at-output", job.name)
            if SC.late is not None:
                SC.late["event"].set()
            try:
                await asyncio.wait_for(h["event"].wait(), h["timeout"])
            except asyncio.TimeoutError:
                SC.ev("hold-timeout")
        if self.value_type == "file":
            locations = context.scheduler.get_locations(job.name)
            if not await StreamFlowPath(value, context=context, location=locations[0]).exists():
                raise WorkflowExecutionException(f"Job {job.name} output does not exist: File {value}")
            await _register_path(context, next(iter(locations)), value,
                                 os.path.relpath(value, job.output_directory))
            return VFileToken(tag=tag, value=value, recoverable=recoverable)
        if self.value_type == "file2":
            locations = context.scheduler.get_locations(job.name)
            for v in value:
                if not await StreamFlowPath(v, context=context, location=locations[0]).exists():
                    raise WorkflowExecutionException(f"Job {job.name} output does not exist: File {v}")
                await _register_path(context, next(iter(locations)), v, os.path.relpath(v, job.output_directory))
            return VFileToken2(tag=tag, value="|".join(value), recoverable=recoverable)
        if self.value_type == "filelist":
            toks = []
            locations = context.scheduler.get_locations(job.name)
            for v in value:
                if not await StreamFlowPath(v, context=context, location=locations[0]).exists():
                    raise WorkflowExecutionException(f"Job {job.name} output does not exist: File {v}")
                await _register_path(context, next(iter(locations)), v, os.path.relpath(v, job.output_directory))
                toks.append(VFileToken(tag=tag, value=v, recoverable=recoverable))
            return ListToken(tag=tag, value=toks)
        if self.value_type == "list":
            return ListToken(tag=tag, value=[Token(tag=tag, value=v, recoverable=recoverable) for v in value])
        return Token(tag=tag, value=value, recoverable=recoverable)


def _flat(v):
    """token value -> plain python (file tokens -> their text content)"""
    if isinstance(v, Token):
        if isinstance(v, VFileToken2):
            main, idx = v.value.split("|")
            with open(main) as f:
                content = f.read()
            # the secondary file is optional for the consumer (like a CWL secondaryFile marked optional): without it the
            # job still runs, but its result differs
            if not idx or not os.path.exists(idx):
                return content + "~noidx"
            with open(idx) as f:
                if f.read() != "idx:" + content:
                    return content + "~badidx"
            return content
        if isinstance(v, FileToken):
            with open(v.value) as f:
                return f.read()
        return _flat(v.value)
    if isinstance(v, list):
        return [_flat(x) for x in v]
    return v


class VCommand(Command):
    """params: op, label, out ('primitive' | 'file' | 'filelist' | 'list')"""

    def __init__(self, step, op, label, out):
        super().__init__(step)
        self.op, self.label, self.out = op, label, out

    async def _save_additional_params(self, database):
        return cast(dict, await super()._save_additional_params(database)) | {
            "op": self.op, "label": self.label, "out": self.out}

    @classmethod
    async def _load(cls, row, loading_context, step):
        return cls(step=step, op=row["op"], label=row["label"], out=row["out"])

    async def execute(self, job: Job) -> CommandOutput:
        context = self.step.workflow.context
        tag = get_job_tag(job.name)
        kind, n = SC.should_fail(self.step.name, tag, "execute")
        SC.ev("exec", job.name, n, "fail" if kind else "ok")
        b = SC.barrier
        if kind is not None and b is not None and job.name in b["jobs"] and n == 1:
            b["arrived"] += 1
            if b["arrived"] >= len(b["jobs"]):
                if b["wipe"]:
                    _wipe_workdir()   # one loss, at the moment all of them fail
                b["event"].set()
            else:
                await b["event"].wait()
        ls = SC.last
        if kind is not None and ls is not None and job.name in ls["jobs"] and n == 1:
            try:
                await asyncio.wait_for(ls["event"].wait(), 30)
            except asyncio.TimeoutError:
                SC.ev("last-timeout")
        lt = SC.late
        if kind is not None and lt is not None and job.name in lt["jobs"] and n == 1:
            try:
                await asyncio.wait_for(lt["event"].wait(), 30)
            except asyncio.TimeoutError:
                SC.ev("late-timeout")
        h = SC.hold
        if kind is None and h is not None and h["point"] == "command" and job.name == h["job"] and n == h["attempt"]:
            if lt is not None:
                lt["event"].set()
            try:
                await asyncio.wait_for(h["event"].wait(), h["timeout"])
            except asyncio.TimeoutError:
                SC.ev("hold-timeout")
        if kind is not None:
            _lose(kind)
            out = CommandOutput("Injected failure", Status.FAILED)
        else:
            try:
                vals = [_flat(job.inputs[k]) for k in sorted(job.inputs)]
                res = apply_op(self.op, self.label, vals)
                if self.out == "file2":
                    os.makedirs(job.output_directory, exist_ok=True)
                    p = os.path.join(job.output_directory, f"out{self.step.name.replace('/', '_')}-{tag}.txt")
                    with open(p, "w") as f:
                        f.write(res)
                    with open(p + ".idx", "w") as f:
                        f.write("idx:" + res)
                    res = [p, p + ".idx"]
                elif self.out in ("file", "filelist"):
                    os.makedirs(job.output_directory, exist_ok=True)
                    items = res if self.out == "filelist" else [res]
                    paths = []
                    for i, content in enumerate(items):
                        p = os.path.join(job.output_directory, f"out{self.step.name.replace('/', '_')}-{tag}-{i}.txt")
                        with open(p, "w") as f:
                            f.write(content)
                        paths.append(p)
                    res = paths if self.out == "filelist" else paths[0]
                SC.ev("done", job.name)
                out = CommandOutput(res, Status.COMPLETED)
            except Exception as err:
                # an input file that should be there is not: this is a job failure like any other
                SC.ev("exec-error", job.name, n, type(err).__name__)
                out = CommandOutput(f"command failed: {err}", Status.FAILED)
        job_token = get_job_token(job.name, cast(ExecuteStep, self.step).get_job_port().token_list)
        await context.database.update_execution(
            await context.database.add_execution(self.step.persistent_id, job_token.persistent_id, self.op),
            {"status": out.status})
        return out


class VLoopWhenStep(ConditionalStep):
    """`while counter < limit` (imitates tests/utils/workflow.py:BaseLoopConditionalStep)"""

    def __init__(self, name, workflow):
        super().__init__(name, workflow)
        self.skip_ports = {}

    async def _eval(self, inputs):
        return inputs["counter"].value < inputs["limit"].value

    async def _on_true(self, inputs):
        for port_name, port in self.get_output_ports().items():
            port.put(await self._persist_token(token=inputs[port_name].update(inputs[port_name].value), port=port,
                                               input_token_ids=get_entity_ids(inputs.values())))

    async def _on_false(self, inputs):
        for port in self.get_skip_ports().values():
            port.put(IterationTerminationToken(tag=get_tag(inputs.values())))

    async def _save_additional_params(self, database):
        return cast(dict, await super()._save_additional_params(database)) | {
            "skip_ports": {k: p.persistent_id for k, p in self.get_skip_ports().items()}}

    @classmethod
    async def _load(cls, row, loading_context):
        step = cls(name=row["name"], workflow=await loading_context.load_workflow(row["workflow"]))
        for k, pid in row["params"]["skip_ports"].items():
            step.add_skip_port(k, await loading_context.load_port(pid))
        return step

    def add_skip_port(self, name, port):
        if port.name not in self.workflow.ports:
            self.workflow.ports[port.name] = port
        self.skip_ports[name] = port.name

    def get_skip_ports(self):
        return {k: self.workflow.ports[v] for k, v in self.skip_ports.items()}


class VLoopOutputLastStep(LoopOutputStep):
    async def _process_output(self, tag):
        return sorted(self.token_map.get(tag, [Token(value=None)]),
                      key=lambda t: int(t.tag.split(".")[-1]))[-1].retag(tag=tag)


class VScheduleStep(ScheduleStep):
    async def _set_job_directories(self, connector, locations, job):
        kind, n = SC.should_fail(self.job_prefix, get_tag(job.inputs.values()), "schedule")
        SC.ev("schedule", job.name, n, "fail" if kind else "ok")
        if kind is not None:
            _lose(kind)
            raise WorkflowExecutionException(f"Injected error into {self.name} step")
        await super()._set_job_directories(connector, locations, job)


class VTransferStep(TransferStep):
    def __init__(self, name, workflow, job_port, inject=False):
        super().__init__(name, workflow, job_port)
        self.inject = inject

    @classmethod
    async def _load(cls, row, loading_context):
        params = row["params"]
        return cls(name=row["name"], workflow=await loading_context.load_workflow(row["workflow"]),
                   job_port=cast(JobPort, await loading_context.load_port(params["job_port"])),
                   inject=params["inject"])

    async def _save_additional_params(self, database):
        return cast(dict, await super()._save_additional_params(database)) | {"inject": self.inject}

    async def _transfer_path(self, job, path):
        context = self.workflow.context
        dst_connector = context.scheduler.get_connector(job.name)
        dst_locations = context.scheduler.get_locations(job.name)
        if src := await context.data_manager.get_source_location(
                path=path, dst_deployment=dst_connector.deployment_name):
            dst_path = posixpath.join(job.input_directory, src.relpath)
            await context.data_manager.transfer_data(
                src_location=src.location, src_path=src.path, dst_locations=dst_locations,
                dst_path=dst_path, writable=True)
            return dst_path
        raise WorkflowExecutionException(f"Job {job.name} input does not exist: File {path}")

    async def _xfer(self, job, token):
        if isinstance(token, ListToken):
            return token.update(value=[await self._xfer(job, t) for t in token.value])
        if isinstance(token, VFileToken2):
            main, idx = token.value.split("|")
            new_main = await self._transfer_path(job, main)
            # an optional secondary file that no longer exists is simply not staged
            new_idx = await self._transfer_path(job, idx) if idx and os.path.exists(idx) else ""
            t = token.update(new_main + "|" + new_idx)
            t.recoverable = False
            return t
        if isinstance(token, FileToken):
            t = token.update(await self._transfer_path(job, token.value))
            t.recoverable = False
            return t
        t = token.update(token.value)
        t.recoverable = False
        return t

    async def transfer(self, job, token):
        if self.inject:
            step_name = posixpath.dirname(posixpath.dirname(self.name))
            kind, n = SC.should_fail(step_name, get_tag(job.inputs.values()), "transfer")
            SC.ev("transfer", job.name, n, "fail" if kind else "ok")
            if kind is not None:
                _lose(kind)
                raise WorkflowExecutionException(f"Injected error into {self.name} step")
            h = SC.hold
            if h is not None and h["point"] == "transfer" and job.name == h["job"] and n == h["attempt"]:
                # the job has been (re-)scheduled -- its allocation is FIREABLE -- and is not yet RUNNING
                SC.ev("at-transfer", job.name, self.workflow.context.scheduler.get_allocation(job.name).status.name)
                if SC.late is not None:
                    SC.late["event"].set()
                try:
                    await asyncio.wait_for(h["event"].wait(), h["timeout"])
                except asyncio.TimeoutError:
                    SC.ev("hold-timeout")
        return await self._xfer(job, token)


# ------------------------------------------------------------------------------------------------
# recording shims around the real failure manager (they call the original, unchanged)
import contextvars

_SYNC = contextvars.ContextVar("sfv_sync", default=None)


def instrument(fm):
    orig_recover = fm.recover

    async def recover(job, step, exception):
        SC.ev("recover", job.name)
        try:
            await orig_recover(job, step, exception)
        except BaseException as e:
            SC.ev("recover-raise", job.name, type(e).__name__)
            raise
        SC.ev("recover-done", job.name)

    fm.recover = recover
    if not isinstance(fm, RollbackFailureManager):
        return
    orig_update, orig_sync, orig_isrec = fm._update_request, fm._synchronize_workflows, fm.is_recovering
    counter = [0]

    async def _update_request(job_name):
        sid = _SYNC.get()
        before = fm._retry_requests[job_name].version
        try:
            await orig_update(job_name)
        except FailureHandlingException:
            SC.ev("update", sid, job_name, before, "raise")
            raise
        SC.ev("update", sid, job_name, before, fm._retry_requests[job_name].version)

    async def is_recovering(job_name):
        r = await orig_isrec(job_name)
        sid = _SYNC.get()
        if sid is not None:
            SC.ev("flag", sid, job_name, bool(r))
        return r

    async def _synchronize_workflows(failed_job, job_tokens, mapper, retry_requests, workflow):
        counter[0] += 1
        sid = counter[0]
        SC.ev("sync", sid, failed_job, [r.name for r in retry_requests])
        tok = _SYNC.set(sid)
        try:
            await orig_sync(failed_job=failed_job, job_tokens=job_tokens, mapper=mapper,
                            retry_requests=retry_requests, workflow=workflow)
        except FailureHandlingException:
            SC.ev("sync-end", sid, "raise")
            raise
        finally:
            _SYNC.reset(tok)
        SC.ev("sync-end", sid, "ok")

    fm._update_request = _update_request
    fm._synchronize_workflows = _synchronize_workflows
    fm.is_recovering = is_recovering


def history_from_trace(trace):
    """[{sid, failed, jobs (all requests), reqs: [[job, flag]...] in loop order, updates: [[job, before, after|None]...],
    raised}] ordered by the start of the _synchronize_workflows call"""
    syncs, by = [], {}
    for e in trace:
        if e[0] == "sync":
            d = {"sid": e[1], "failed": e[2], "jobs": e[3], "reqs": [], "updates": [], "raised": None}
            syncs.append(d)
            by[e[1]] = d
        elif e[0] == "flag" and e[1] in by:
            by[e[1]]["reqs"].append([e[2], e[3]])
        elif e[0] == "update" and e[1] in by:
            by[e[1]]["updates"].append([e[2], e[3], None if e[4] == "raise" else e[4]])
        elif e[0] == "sync-end" and e[1] in by:
            by[e[1]]["raised"] = e[2] == "raise"
    return syncs


# ------------------------------------------------------------------------------------------------
class PermutingLoop(asyncio.SelectorEventLoop):
    """Seeded permutation of the ready queue before every iteration (DESIGN 2.5)."""

    def __init__(self, seed):
        super().__init__()
        self._rng = random.Random(seed) if seed is not None else None

    def _run_once(self):
        if self._rng is not None and len(self._ready) > 1:
            permute_ready(self._ready, self._rng.shuffle)   # thread-safe, same order (harness/lib/looputil.py)
        super()._run_once()


# ------------------------------------------------------------------------------------------------
class Builder:
    def __init__(self, context, workflow, dconf):
        self.context, self.wf, self.dconf = context, workflow, dconf
        self.deploy = workflow.create_step(
            cls=DeployStep, name=posixpath.join("__deploy__", dconf.name), deployment_config=dconf)

    def _schedule(self, cls, name):
        binding = BindingConfig(targets=[Target(deployment=self.dconf)])
        return self.wf.create_step(
            cls=cls, name=posixpath.join(name, "__schedule__"), job_prefix=name,
            connector_ports={self.dconf.name: self.deploy.get_output_port()},
            binding_config=binding, hardware_requirement=None)

    def injector(self, name, value):
        step_name = f"/{name}-injector"
        sched = self._schedule(ScheduleStep, step_name)
        step = self.wf.create_step(cls=VInjectorStep, name=step_name, job_port=sched.get_output_port())
        inp = self.wf.create_port()
        step.add_input_port(name, inp)
        step.add_output_port(name, self.wf.create_port())
        inp.put(Token(value, recoverable=True))
        inp.put(TerminationToken())
        return step.get_output_port(name)

    def execute(self, name, inputs, op, label, out):
        """inputs: dict port-name -> Port;  returns the ExecuteStep (output port name 'out')"""
        sched = self._schedule(VScheduleStep, name)
        ex = self.wf.create_step(ExecuteStep, name=name, job_port=sched.get_output_port())
        ex.command = VCommand(ex, op, label, out)
        first = True
        for key, port in inputs.items():
            sched.add_input_port(key, port)
            tr = self.wf.create_step(cls=VTransferStep, name=posixpath.join(name, "__transfer__", key),
                                     job_port=sched.get_output_port(), inject=first)
            first = False
            tr.add_input_port(key, port)
            tr.add_output_port(key, self.wf.create_port())
            ex.add_input_port(key, tr.get_output_port(key))
        ex.add_output_port("out", self.wf.create_port(), VOutputProcessor("out", self.wf, out))
        return ex

    def forward(self, name, key, port, out=None):
        st = self.wf.create_step(cls=ForwardTransformer, name=name)
        st.add_input_port(key, port)
        st.add_output_port(key, out if out is not None else self.wf.create_port())
        return st.get_output_port(key)

    def loop(self, name, inputs, body):
        """inputs: {key: Port} (must contain 'counter', 'limit', 'x'); body(loop_ports) -> {key: Port} next values.
        Returns the port carrying the last value of 'x' (imitates RecoveryTranslator.get_input_loop/get_output_loop)."""
        comb = LoopCombinator(workflow=self.wf, name=name + "-loop-combinator")
        fwd = {}
        for k, p in inputs.items():
            fwd[k] = self.forward(posixpath.join(name, k) + "-input-forward-transformer", k, p)
            comb.add_item(k)
        cstep = self.wf.create_step(cls=LoopCombinatorStep, name=name + "-loop-combinator", combinator=comb)
        for k, p in fwd.items():
            cstep.add_input_port(k, p)
            cstep.add_output_port(k, self.wf.create_port())
        when = self.wf.create_step(cls=VLoopWhenStep, name=name + "-loop-when")
        loop_ports = {}
        for k in inputs:
            when.add_input_port(k, cstep.get_output_port(k))
            loop_ports[k] = self.wf.create_port()
            when.add_output_port(k, loop_ports[k])
        nxt = body(loop_ports)
        internal = dict(nxt)
        term_comb = LoopTerminationCombinator(workflow=self.wf, name=name + "-loop-termination-combinator")
        term = self.wf.create_step(cls=CombinatorStep, name=name + "-loop-terminator", combinator=term_comb)
        for k, p in cstep.get_input_ports().items():
            term.add_output_port(k, p)
            term_comb.add_output_item(k)
        k = "x"
        internal[k] = self.forward(posixpath.join(name, k) + "-output-forward-transformer", k, nxt[k])
        lout = self.wf.create_step(cls=VLoopOutputLastStep, name=posixpath.join(name, k) + "-loop-output")
        lout.add_input_port(k, internal[k])
        when.add_skip_port(k, internal[k])
        lout.add_output_port(k, self.wf.create_port())
        term.add_input_port(k, lout.get_output_port(k))
        term_comb.add_item(k)
        for k2 in nxt:
            self.forward(posixpath.join(name, k2) + "-back-propagation-transformer", k2, internal[k2],
                         out=cstep.get_input_port(k2))
        return lout.get_output_port("x")

    def scatter(self, name, port):
        sc = self.wf.create_step(cls=ScatterStep, name=f"{name}-scatter")
        sc.add_input_port("out", port)
        sc.add_output_port("out", self.wf.create_port())
        return sc

    def gather(self, name, port, scatter_step):
        g = self.wf.create_step(cls=GatherStep, name=f"{name}-gather", size_port=scatter_step.get_size_port())
        g.add_input_port("out", port)
        g.add_output_port("out", self.wf.create_port())
        return g


def build_shape(b: Builder, shape, seedfile):
    kind, ftype = shape["kind"], shape["type"]
    fil = ftype in ("file", "file2")
    one = ftype if fil else "primitive"
    cat = "cat" if fil else "inc"
    init = ({"class": "File2", "path": seedfile, "idx": seedfile + ".idx"} if ftype == "file2"
            else {"class": "File", "path": seedfile} if fil else 3)
    port = b.injector("in", init)
    if kind == "pipeline":
        for i in range(shape["n"]):
            port = b.execute(f"/s{i}", {"x": port}, cat, f"s{i}", one).get_output_port("out")
        return port
    if kind == "scatter":
        for i in range(shape["pre"]):
            port = b.execute(f"/a{i}", {"x": port}, cat, f"a{i}", one).get_output_port("out")
        port = b.execute("/sp", {"x": port}, "split" if fil else "splitn", f"sp:{shape['width']}",
                         "filelist" if fil else "list").get_output_port("out")
        sc = b.scatter("/b0", port)
        port = sc.get_output_port("out")
        for i in range(shape["depth"]):
            port = b.execute(f"/b{i}", {"x": port}, cat, f"b{i}", one).get_output_port("out")
        port = b.gather("/b0", port, sc).get_output_port("out")
        port = b.execute("/g", {"x": port}, "joinl" if fil else "suml", "g", one).get_output_port("out")
        for i in range(shape["post"]):
            port = b.execute(f"/c{i}", {"x": port}, cat, f"c{i}", one).get_output_port("out")
        return port
    if kind == "loop":
        for i in range(shape["pre"]):
            port = b.execute(f"/a{i}", {"x": port}, cat, f"a{i}", one).get_output_port("out")
        inputs = {"x": port, "counter": b.injector("counter", 0), "limit": b.injector("limit", shape["iters"])}

        def body(lp):
            cnt = b.execute("/cnt", {"counter": lp["counter"]}, "succ", "cnt", "primitive").get_output_port("out")
            bod = b.execute("/body", {"x": lp["x"]}, cat, "body", one).get_output_port("out")
            return {"x": bod, "counter": cnt, "limit": lp["limit"]}

        port = b.loop("/body", inputs, body)
        for i in range(shape["post"]):
            port = b.execute(f"/c{i}", {"x": port}, cat, f"c{i}", one).get_output_port("out")
        return port
    if kind == "diamond":
        root = b.execute("/root", {"x": port}, cat, "root", one).get_output_port("out")
        brs = {f"p{i}": b.execute(f"/br{i}", {"x": root}, cat, f"br{i}", one).get_output_port("out")
               for i in range(shape["branches"])}
        return b.execute("/join", brs, cat, "join", one).get_output_port("out")
    raise ValueError(kind)


async def _run(case, hooks=None):
    global SC
    SC = Scenario()
    base = tempfile.mkdtemp(prefix="sfv-rec-", dir="/var/tmp")
    workdir = os.path.join(base, "wd", "verif-fs-volatile")
    os.makedirs(workdir)
    SC.workdir = workdir
    for st, tag, phase, kind, cnt in case.get("faults", []):
        SC.plan[(st, tag, phase)] = (cnt, kind)
    if case.get("barrier"):
        SC.barrier = {"jobs": set(case["barrier"]["jobs"]), "arrived": 0, "event": asyncio.Event(),
                      "wipe": bool(case["barrier"].get("wipe"))}
    if case.get("hold"):
        SC.hold = {"job": case["hold"]["job"], "attempt": case["hold"]["attempt"], "syncs": case["hold"]["syncs"],
                   "seen": 0, "event": asyncio.Event(), "point": case["hold"].get("point", "command"),
                   "timeout": case["hold"].get("timeout", 30)}
    if case.get("last"):
        SC.last = {"jobs": set(case["last"]["jobs"]), "prefix": case["last"]["prefix"], "need": case["last"]["need"],
                   "seen": 0, "event": asyncio.Event()}
    if case.get("late"):
        SC.late = {"jobs": set(case["late"]), "event": asyncio.Event()}
    seedfile = os.path.join(base, "seed.txt")
    with open(seedfile, "w") as f:
        f.write("seed")
    with open(seedfile + ".idx", "w") as f:
        f.write("idx:seed")
    conf = {"database": {"type": "default", "config": {"connection": ":memory:"}}, "path": base}
    if case.get("manager", "rollback") == "rollback":
        conf["failureManager"] = {"type": "default", "config": {"max_retries": case.get("limit"), "retry_delay": 0}}
    context = build_context(conf)
    obs = {}
    try:
        instrument(context.failure_manager)
        dconf = DeploymentConfig(name=DEPLOYMENT, type="local", config={}, external=True, lazy=False, workdir=workdir)
        await context.deployment_manager.deploy(dconf)
        wf = Workflow(context=context, name=utils.random_name(), config={})
        b = Builder(context, wf, dconf)
        outport = build_shape(b, case["shape"], seedfile)
        wf.output_ports["result"] = outport.name
        await wf.save(context.database)
        if hooks:
            hooks(context, wf)
        executor = StreamFlowExecutor(wf)
        try:
            res = await executor.run()
            obs["result"] = "completed"
            obs["outputs_n"] = len(res)
        except WorkflowExecutionException:
            obs["result"] = "WorkflowExecutionException"
        except FailureHandlingException:
            obs["result"] = "FailureHandlingException"
        except Exception as e:  # noqa
            obs["result"] = "other:" + type(e).__name__
        toks = outport.token_list
        vals = []
        for t in toks:
            if isinstance(t, TerminationToken):
                vals.append({"term": t.value.name})
            else:
                try:
                    vals.append({"tag": t.tag, "value": _flat(t)})
                except OSError as e:
                    vals.append({"tag": t.tag, "unreadable": type(e).__name__})
        obs["out_tokens"] = vals
        obs["steps"] = sorted([s.name, s.status.name] for s in wf.steps.values() if isinstance(s, ExecuteStep))
        fm = context.failure_manager
        if isinstance(fm, RollbackFailureManager):
            obs["versions"] = sorted([k, r.version] for k, r in fm._retry_requests.items())
        # executions table rows per job (observe_at of C17): counted through the job tokens
        rows = {}
        wfs = await context.database.get_workflows_by_name(wf.name)
        obs["workflows"] = len(wfs)
        obs["trace"] = SC.trace
        pending = [t for t in asyncio.all_tasks() if t is not asyncio.current_task() and not t.done()]
        obs["pending_tasks"] = len(pending)
    finally:
        try:
            await context.deployment_manager.undeploy_all()
            await context.close()
        except Exception:  # noqa
            pass
        shutil.rmtree(base, ignore_errors=True)
    return obs


def run_engine(case, hooks=None):
    """One scenario.  A time-out is reported as {"hang": true} only if it is reproducible: the scenario is run a second
    time (fresh loop, fresh context) and must time out again; a one-off stall of the process (seen once in 3 300 cases
    under load, never reproducible standalone in 80 runs) is not a property violation we can hand a replay for.  Cases of
    kind "stress" (registered intermittent non-termination) are not retried."""
    o = _run_engine_once(case, hooks)
    if o.get("hang") and case.get("f") != "stress":
        o2 = _run_engine_once(case, hooks)
        o2["retried_after_timeout"] = True
        return o2
    return o


def _run_engine_once(case, hooks=None):
    loop = PermutingLoop(case.get("sched"))
    asyncio.set_event_loop(loop)
    try:
        # a clean, in-loop time limit (cancellation runs the scenario's own cleanup: database thread, deployment),
        # well below the worker's SIGALRM limit, so that a hanging scenario cannot poison the cases that follow it
        async def limited():
            try:
                return await asyncio.wait_for(_run(case, hooks), case.get("engine_timeout", ENGINE_TIMEOUT))
            except asyncio.TimeoutError:
                return {"hang": True, "trace_tail": SC.trace[-40:]}
        return loop.run_until_complete(limited())
    finally:
        try:
            for t in asyncio.all_tasks(loop):
                t.cancel()
            loop.run_until_complete(asyncio.sleep(0))
        except Exception:  # noqa
            pass
        asyncio.set_event_loop(None)
        loop.close()
