"""C21 — The data-location registry answers consistently with its history."""
from harness.lib.framework import Prop, coq_bool, coq_list, coq_nat, coq_opt, coq_str

TYPES = ("PRIMARY", "SYMBOLIC_LINK", "INVALID")


def comps(p):
    return [c for c in p.split("/") if c]


def ancestors_or_self(p):
    cs = comps(p)
    return ["/"] + ["/" + "/".join(cs[:i]) for i in range(1, len(cs) + 1)]


def beneath_or_equal(r, q):
    """q is r or lies beneath r"""
    cr, cq = comps(r), comps(q)
    return cq[:len(cr)] == cr


def inner_of(locs, li, p):
    """the path on the wrapped location: the first mount point, in reverse-sorted order, that is a component-wise
    prefix of p is replaced by its target"""
    loc = locs[li]
    if loc["local"] or loc["wraps"] is None:
        return None
    cp = comps(p)
    for m in sorted((m for m, _ in loc["mounts"]), reverse=True):
        cm = comps(m)
        if cp[:len(cm)] == cm:
            tgt = dict(loc["mounts"])[m]
            return loc["wraps"], "/" + "/".join(comps(tgt) + cp[len(cm):])
    return None


def inner_chain(locs, li, p):
    out = []
    for _ in range(len(locs) + 1):
        nx = inner_of(locs, li, p)
        if nx is None:
            break
        li, p = nx
        out.append((li, p))
    return out


def universe(case):
    u = {"/"}
    for o in case["ops"]:
        if o[0] in ("reg", "inv"):
            u.update(ancestors_or_self(o[2]))
            if o[0] == "reg":
                for _, q in inner_chain(case["locs"], o[1], o[2]):
                    u.update(ancestors_or_self(q))
        elif o[0] in ("get", "src"):
            u.update(ancestors_or_self(o[1]))
    return sorted(u)


class _Components:
    """connected components of the 'holds the same data' graph over paths"""

    def __init__(self):
        self.edges = []

    def add(self, a, b):
        if a != b:
            self.edges.append((a, b))

    def comp(self, p):
        seen, todo = {p}, [p]
        while todo:
            x = todo.pop()
            for a, b in self.edges:
                for u, v in ((a, b), (b, a)):
                    if u == x and v not in seen:
                        seen.add(v)
                        todo.append(v)
        return seen


class C21(Prop):
    ID = "C21"
    PROPS_FILE = "Props/C21.v"
    CORR_MODULE = "DataReg.Corr"
    MAX_WORKERS = 4
    COQ_SHARD = 60
    CASE_TIMEOUT = 30
    LEVEL_TEXT = ("Theorems (Coq, closed under the global context) over a line-by-line model of _RemotePathMapper "
                  "(put / get / invalidate_location) and DefaultDataManager (register_path with wrapped locations, "
                  "register_relation, get_data_locations, get_source_location), for states/histories of any length over "
                  "trees of any depth: registering a path makes it and every ancestor available (every state); after "
                  "invalidate_location(l, p) nothing at or beneath p is available on l (every state); an invalidation "
                  "leaves the tree and every object of any other location untouched, so answers for other locations are "
                  "identical (every state reachable by a history of registrations, relations, invalidations); "
                  "registrations and relations remove nothing, invalidations add nothing; the chosen source is a reported "
                  "PRIMARY copy; and a refinement theorem: on histories of registrations (locations without wrapping) "
                  "and invalidations, availability equals the history-based specification 'some registration of the path "
                  "or of a path beneath it on that location is not followed by an invalidation of the path or an ancestor "
                  "on that location'. With relations and wrapped locations the exact characterisation is only exercised "
                  "(related copies share their fate); a refuted witness documents the duplicate-object known finding. The model is tied to /repo by replaying "
                  "random histories on the real DefaultDataManager and on the model and comparing every answer after "
                  "every operation; a property oracle written from the text judges the real answers.")
    LEVEL_NOTE = ("Trusted: Coq kernel + vm_compute; the hand-written model DataReg/Model.v (tied to the code only by the "
                  "correspondence run); paths restricted to normalised absolute POSIX paths; the mount order of "
                  "get_inner_path (sorted, reversed) is computed by the model (String.compare on the mount strings); relpath and the asyncio 'available' "
                  "event are not modelled; the model walks the flat node list where the code walks the trie "
                  "depth-first (marking commutes). No axioms.")
    TECHNIQUE = ("Coq proof (monotonicity orders and a location-key invariant over operation histories) + "
                 "vm_compute correspondence against the real DefaultDataManager")
    RULE = ("histories of 3..14 operations (register_path with PRIMARY/SYMBOLIC_LINK, register_relation between "
            "previously returned locations, invalidate_location, filtered get_data_locations, get_source_location) over "
            "path trees of depth 1..4 drawn from a small component alphabet (so that paths collide), on 1..3 plain "
            "locations (one possibly local, two possibly sharing a deployment) plus up to two wrapped locations with "
            "mount points, plus scenarios (relation / invalidation / re-registration; groups of 3..4 related copies on "
            "different paths); a full snapshot of get_data_locations over all mentioned paths and their ancestors is taken "
            "after every state-changing operation. Non-trivial = at least one invalidation followed by a registration, "
            "or a relation, or a wrapped registration. Distinct = distinct canonical JSON.")
    TRUSTED = ("model: DataReg/Model.v is hand-written; CPython dict order, pathlib.Path.parts, posixpath.join and "
               "PurePosixPath.is_relative_to/relative_to are not verified, only exercised",)
    ASSUMPTIONS = ("paths are normalised absolute POSIX paths (no '.', '..', '//' or trailing '/')",
                   "queries are made between operations (every DataLocation.available event is set)",
                   "a location is identified by (deployment, name), as the registry's dictionaries do")

    # ---------------------------------------------------------------- generation
    def _locs(self, rng):
        base = [{"dep": "d1", "name": "n1", "local": False, "wraps": None, "mounts": []}]
        r = rng.random()
        if r < 0.55:
            base.append({"dep": "d2", "name": "n1", "local": False, "wraps": None, "mounts": []})
        if r < 0.25 or r > 0.85:
            base.append({"dep": "d1", "name": "n2", "local": False, "wraps": None, "mounts": []})
        if rng.random() < 0.3:
            base.append({"dep": "__LOCAL__", "name": "__LOCAL__", "local": True, "wraps": None, "mounts": []})
        if rng.random() < 0.45:
            mounts = rng.choice([
                [["/mnt", "/host"]],
                [["/mnt", "/host"], ["/mnt/in", "/host/data"]],
                [["/a", "/b"]],
                [["/a/x", "/b"], ["/a", "/c/y"]],
                [["/mnt/in", "/a"], ["/mnt/inner", "/b"]],
            ])
            base.append({"dep": "dw", "name": "w", "local": False, "wraps": rng.randrange(len(base)), "mounts": mounts})
            if rng.random() < 0.3:
                base.append({"dep": "dw2", "name": "w2", "local": False, "wraps": len(base) - 1,
                             "mounts": rng.choice([[["/", "/mnt"]], [["/in", "/mnt/in"]], [["/a", "/mnt"], ["/b", "/a"]]])})
        return base

    def _path(self, rng, locs, li=None):
        alpha = ["a", "b", "x", "y"] if rng.random() < 0.8 else ["a", "b", "c", "x", "y", "data", "f.txt"]
        d = rng.choice([1, 2, 2, 2, 3, 3, 4])
        cs = [rng.choice(alpha) for _ in range(d)]
        if li is not None and locs[li]["mounts"] and rng.random() < 0.7:
            m = rng.choice(locs[li]["mounts"])[0]
            cs = comps(m) + cs[:rng.randrange(0, 3)]
        if rng.random() < 0.02:
            cs = []
        return "/" + "/".join(cs)

    def _history(self, rng):
        locs = self._locs(rng)
        n = rng.randrange(3, 15)
        ops, nreg, used = [], 0, []
        for _ in range(n):
            r = rng.random()
            if r < 0.42 or nreg == 0:
                li = rng.randrange(len(locs))
                p = rng.choice(used) if used and rng.random() < 0.35 else self._path(rng, locs, li)
                ops.append(["reg", li, p, "SYMBOLIC_LINK" if rng.random() < 0.15 else "PRIMARY"])
                nreg += 1
                used.append(p)
            elif r < 0.60 and nreg >= 2:
                i, j = rng.randrange(nreg), rng.randrange(nreg)
                ops.append(["rel", i, j])
            elif r < 0.86:
                li = rng.randrange(len(locs))
                q = rng.random()
                if q < 0.6:
                    p = rng.choice(used)
                elif q < 0.9:
                    p = rng.choice(ancestors_or_self(rng.choice(used)))
                else:
                    p = self._path(rng, locs)
                ops.append(["inv", li, p])
            elif r < 0.93:
                p = rng.choice(used) if rng.random() < 0.8 else self._path(rng, locs)
                L = rng.choice(locs)
                ops.append(["get", p, rng.choice([None, L["dep"]]), rng.choice([None, L["name"]]),
                            rng.choice([None, None, "PRIMARY", "SYMBOLIC_LINK", "INVALID"])])
            else:
                p = rng.choice(used) if rng.random() < 0.9 else self._path(rng, locs)
                ops.append(["src", p, rng.choice([L["dep"] for L in locs] + ["elsewhere"])])
        return {"f": "hist", "locs": locs, "ops": ops}

    def _scenario(self, rng):
        """same-location / cross-location relation, invalidation of one side, re-registration"""
        locs = self._locs(rng)
        la = rng.randrange(len(locs))
        if rng.random() < 0.3:
            # a directory with a registered child, related to another path that is then invalidated; a
            # registration beneath the surviving child must bring the directory back (no early stop at the child)
            a, b = self._path(rng, locs), self._path(rng, locs)
            child = a.rstrip("/") + "/" + rng.choice(["c", "x"])
            return {"f": "hist", "locs": locs, "ops": [
                ["reg", la, a, "PRIMARY"], ["reg", la, child, "PRIMARY"], ["reg", la, b, "PRIMARY"], ["rel", 0, 2],
                ["inv", la, b], ["reg", la, child + "/g", "PRIMARY"], ["src", a, locs[la]["dep"]]]}
        if rng.random() < 0.3:
            # a group of 3..4 related copies on different paths / locations, built by relating to any earlier member
            k = rng.choice([3, 3, 4])
            ops = []
            for i in range(k):
                li = rng.randrange(len(locs))
                ops.append(["reg", li, self._path(rng, locs, li) + f"/g{i}", rng.choice(["PRIMARY", "PRIMARY", "SYMBOLIC_LINK"])])
                if i:
                    ops.append(["rel", rng.randrange(i), i] if rng.random() < 0.8 else ["rel", i, rng.randrange(i)])
            probe = rng.choice([o for o in ops if o[0] == "reg"])
            ops.append(["src", probe[2], rng.choice(locs)["dep"]])
            if rng.random() < 0.4:
                ops.append(["inv", rng.randrange(len(locs)), rng.choice([o for o in ops if o[0] == "reg"])[2]])
                ops.append(["rel", 0, k - 1])
            return {"f": "hist", "locs": locs, "ops": [[x if not isinstance(x, str) else x.replace("//", "/") for x in o] for o in ops]}
        lb = la if rng.random() < 0.6 else rng.randrange(len(locs))
        a, b = self._path(rng, locs), self._path(rng, locs)
        ops = [["reg", la, a, "PRIMARY"], ["reg", lb, b, rng.choice(["PRIMARY", "SYMBOLIC_LINK"])], ["rel", 0, 1],
               ["inv", la, rng.choice(ancestors_or_self(a))]]
        tail = [["reg", lb, b, "PRIMARY"], ["reg", lb, b.rstrip("/") + "/f", "PRIMARY"], ["reg", la, a, "PRIMARY"],
                ["src", b, locs[lb]["dep"]], ["inv", lb, rng.choice(ancestors_or_self(b))], ["rel", 1, 0]]
        rng.shuffle(tail)
        return {"f": "hist", "locs": locs, "ops": ops + tail[:rng.randrange(1, 5)]}

    def gen(self, rng, tier):
        n = {"quick": 280, "thorough": 2500, "extended": 1500}[tier]
        cases = []
        for i in range(n):
            cases.append(self._scenario(rng) if i % 7 == 0 else self._history(rng))
        return cases

    # ---------------------------------------------------------------- implementation
    def impl_init(self):
        import asyncio
        import os
        import tempfile

        from streamflow.core.data import DataType
        from streamflow.core.deployment import ExecutionLocation
        from streamflow.data.manager import DefaultDataManager
        from streamflow.main import build_context

        d = tempfile.mkdtemp(prefix="sfv-c21-", dir="/var/tmp")
        self.ctx = build_context({"database": {"type": "default", "config": {"connection": ":memory:"}}, "path": d})
        self.DM, self.EL, self.DT, self.loop = DefaultDataManager, ExecutionLocation, DataType, asyncio.new_event_loop()
        try:
            os.rmdir(d)
        except OSError:
            pass

    def _item(self, loc):
        return [loc.deployment, loc.name, loc.path, loc.data_type.name]

    def impl_run(self, c):
        dm = self.DM(self.ctx)
        locs = []
        for L in c["locs"]:
            locs.append(self.EL(name=L["name"], deployment=L["dep"], local=L["local"],
                                wraps=locs[L["wraps"]] if L["wraps"] is not None else None,
                                mounts={m: t for m, t in L["mounts"]}))
        uni = universe(c)
        objs, out = [], []

        def snap():
            s = []
            for p in uni:
                items = sorted(self._item(x) for x in dm.get_data_locations(p))
                if items:
                    s.append([p, items])
            return s

        for o in c["ops"]:
            try:
                if o[0] == "reg":
                    objs.append(dm.register_path(locs[o[1]], o[2], data_type=self.DT[o[3]]))
                    ob = {"ret": self._item(objs[-1])}
                elif o[0] == "rel":
                    dm.register_relation(objs[o[1]], objs[o[2]])
                    ob = {}
                elif o[0] == "inv":
                    dm.invalidate_location(locs[o[1]], o[2])
                    ob = {"ok": True}
                elif o[0] == "get":
                    ob = {"items": sorted(self._item(x) for x in dm.get_data_locations(
                        o[1], deployment=o[2], location_name=o[3], data_type=self.DT[o[4]] if o[4] else None))}
                elif o[0] == "src":
                    r = self.loop.run_until_complete(dm.get_source_location(o[1], o[2]))
                    ob = {"item": self._item(r) if r is not None else None}
                else:
                    raise ValueError(o[0])
            except KeyError:
                ob = {"err": "KeyError"}
                if o[0] == "reg":
                    objs.append(None)
            except RecursionError:
                ob = {"err": "RecursionError"}
            if o[0] in ("reg", "rel", "inv"):
                ob["snap"] = snap()
            out.append(ob)
        return {"ops": out}

    # ---------------------------------------------------------------- oracle (from the property text)
    def oracle(self, c, o):
        if "crash" in o or "hang" in o:
            return ("crash", f"implementation crashed/hung: {str(o)[:300]}")
        locs = c["locs"]
        key = lambda li: (locs[li]["dep"], locs[li]["name"])
        keys = sorted({key(i) for i in range(len(locs))})
        graph = _Components()
        created = {}        # (key, path) -> time of the last registration that covers this copy
        direct = {}         # (key, path) -> time of the last invalidation of the path or an ancestor on that location
        maybe = {}          # (key, path) -> time of the last invalidation that may legitimately have taken it along
        uni = universe(c)
        regobjs = [(key(x[1]), x[2]) for x in c["ops"] if x[0] == "reg"]
        regtimes = [i for i, x in enumerate(c["ops"], start=1) if x[0] == "reg"]
        placed = {}         # node path -> {copy (key, path): registration time of the object put under that node}
        demands = []        # (node path, copy that must be reported there, why) to be judged at the next snapshot

        def place(node, copy, tr):
            d = placed.setdefault(node, {})
            d[copy] = max(d.get(copy, 0), tr)

        def killed(copy):
            return max(maybe.get(copy, 0), direct.get(copy, 0))

        def relate(px, ycopy, ty, what):
            # "related copies are reported for each other's paths": the new copy joins every path already related
            # to the source path, and every copy reported for the source path joins the new copy's path; demanded
            # only for copies that nothing since their registration may have invalidated
            for cc, tr in list(placed.get(px, {}).items()):
                place(cc[1], ycopy, ty)
                place(ycopy[1], cc, tr)
                if killed(ycopy) < ty:
                    demands.append((cc[1], ycopy, what))
                if killed(cc) < tr:
                    demands.append((ycopy[1], cc, what))
        revived = {}        # (key, path) -> time of the last relation whose destination this copy was
        prev = {}
        for t, (op, ob) in enumerate(zip(c["ops"], o["ops"]), start=1):
            k = op[0]
            if "err" in ob and not (k == "inv" and ob["err"] == "KeyError"):
                return (f"raises-{ob['err']}-{k}", f"op {t} {op} raised {ob['err']}")
            if k == "reg":
                K = key(op[1])
                for a in ancestors_or_self(op[2]):
                    created[(K, a)] = t
                    place(a, (K, a), t)
                prevp = op[2]
                for li, q in inner_chain(locs, op[1], op[2]):
                    for a in ancestors_or_self(q):
                        created[(key(li), a)] = t
                        place(a, (key(li), a), t)
                    graph.add(op[2], q)
                    graph.add(prevp, q)
                    prevp = q
                    relate(op[2], (key(li), q), t, f"{q} on {key(li)} is the copy of {op[2]} on the wrapped location")
            elif k == "rel":
                (ka, ra), (kb, rb) = regobjs[op[1]], regobjs[op[2]]
                graph.add(ra, rb)
                # "related to such a registration and not invalidated since": a relation made after an invalidation
                # may legitimately make the related copy count again (never demanded, only tolerated)
                revived[(kb, rb)] = t
                relate(ra, (kb, rb), regtimes[op[2]], f"{rb} on {kb} was related to {ra}")
            elif k == "inv" and "err" not in ob:
                K = key(op[1])
                hit = [q for q in uni if beneath_or_equal(op[2], q)]
                for q in hit:
                    direct[(K, q)] = t
                for q in hit:
                    for z in graph.comp(q):
                        maybe[(K, z)] = t
            elif k == "get":
                want = [it for it in self._snap_items(prev, op[1])
                        if (op[2] is None or it[0] == op[2]) and (op[3] is None or it[1] == op[3])
                        and (op[4] is None or it[3] == op[4])]
                if sorted(want) != sorted(ob["items"]):
                    return ("filtered-get", f"op {t} {op}: filtered answer {ob['items']} is not the filter of the "
                                            f"unfiltered answer {want}")
            elif k == "src":
                it = ob["item"]
                items = self._snap_items(prev, op[1])
                if it is None:
                    if any(x[3] == "PRIMARY" for x in items):
                        return ("source-missing", f"op {t} {op}: no source although primary copies {items} are reported")
                else:
                    if it[3] != "PRIMARY":
                        return ("source-valid", f"op {t} {op}: source {it} is not a primary copy")
                    if it not in items:
                        return ("source-valid", f"op {t} {op}: source {it} is not among the available copies {items}")
            if "snap" not in ob:
                continue
            snap = {p: items for p, items in ob["snap"]}
            # soundness of everything reported
            for p, items in snap.items():
                cp = graph.comp(p)
                for it in items:
                    K, lp = (it[0], it[1]), it[2]
                    if lp not in cp:
                        return ("unrelated", f"after op {t} {op}: {p} reported at {it}, never related to it")
                    if (K, lp) not in created:
                        return ("never-registered", f"after op {t} {op}: {p} reported at {it}, never registered there")
                    if direct.get((K, lp), 0) > max(created[(K, lp)], revived.get((K, lp), 0)):
                        # "the source location chosen for a transfer is always a valid primary copy": when one of
                        # the queries that follow (before the next state change) is a get_source_location that hands
                        # out exactly this invalidated copy, that is the sharper statement of the failure
                        for op2, ob2 in zip(c["ops"][t:], o["ops"][t:]):
                            if op2[0] in ("reg", "rel", "inv"):
                                break
                            if op2[0] == "src" and ob2.get("item") == it:
                                return ("source-valid", f"{op2}: get_source_location returns {it}, a copy invalidated "
                                                        f"at op {direct[(K, lp)]} and not registered since")
                        return ("reports-invalidated", f"after op {t} {op}: {p} reported at {it}, invalidated at op "
                                                       f"{direct[(K, lp)]} and not registered since")
            # completeness
            for (K, q), tc in created.items():
                if maybe.get((K, q), 0) > tc or direct.get((K, q), 0) > tc:
                    continue
                if not any((it[0], it[1]) == K for it in snap.get(q, [])):
                    if k == "reg" and tc == t:
                        own = q == op[2] and K == key(op[1])
                        return ("reregister" if own else "reregister-ancestor",
                                f"after op {t} {op}: {q} is not available on {K}")
                    return ("lost", f"after op {t} {op}: {q} registered on {K} at op {tc}, not invalidated since, "
                                    f"but not available")
            # "... or related to such a registration": right after the relation (explicit, or made by register_path for
            # a wrapped location) the related copies are reported for each other's paths, across the whole group
            for node, copy, why in demands:
                if not any((it[0], it[1]) == copy[0] and it[2] == copy[1] for it in snap.get(node, [])):
                    pair = k == "rel" and node in (regobjs[op[1]][1], regobjs[op[2]][1]) \
                        and copy in (regobjs[op[1]], regobjs[op[2]])
                    return ("relation" if pair else "relation-group",
                            f"after op {t} {op}: {node} does not report the copy {copy[1]} on {copy[0]} ({why})")
            demands.clear()
            # isolation
            if k == "inv":
                K = key(op[1])
                for p in uni:
                    a = [it for it in prev.get(p, []) if (it[0], it[1]) != K]
                    b = [it for it in snap.get(p, []) if (it[0], it[1]) != K]
                    if a != b:
                        return ("isolation", f"op {t} {op} changed the answer for {p} on other locations: {a} -> {b}")
            prev = snap
        return None

    @staticmethod
    def _snap_items(snap, p):
        return snap.get(p, [])

    # ---------------------------------------------------------------- model side
    def _cpath(self, p):
        return coq_list([coq_str(x) for x in comps(p)])

    def _citem(self, it):
        return f"(({coq_str(it[0])}, {coq_str(it[1])}), {self._cpath(it[2])}, {it[3]})"

    def _csnap(self, s):
        return "CSnap " + coq_list([f"({self._cpath(p)}, {coq_list([self._citem(i) for i in items])})" for p, items in s])

    def coq_case(self, c, o):
        if "crash" in o or "hang" in o:
            return None
        tab = []
        for L in c["locs"]:
            ms = L["mounts"]            # in dict insertion order: the model sorts them itself (sort_mounts)
            tab.append(f"mkloc ({coq_str(L['dep'])}, {coq_str(L['name'])}) {coq_bool(L['local'])} "
                       f"{coq_opt(L['wraps'], coq_nat)} "
                       f"{coq_list([f'({self._cpath(m)}, {self._cpath(t)})' for m, t in ms])}")
        ops = []
        for op, ob in zip(c["ops"], o["ops"]):
            k = op[0]
            if ob.get("err") == "RecursionError" or (k != "inv" and "err" in ob):
                return None
            if k == "reg":
                ops.append(f"CReg {coq_nat(op[1])} {self._cpath(op[2])} {op[3]}")
            elif k == "rel":
                ops.append(f"CRel {coq_nat(op[1])} {coq_nat(op[2])}")
            elif k == "inv":
                ops.append(f"CInv {coq_nat(op[1])} {self._cpath(op[2])} {coq_bool('err' not in ob)}")
            elif k == "get":
                ops.append(f"CGet {self._cpath(op[1])} {coq_opt(op[2], coq_str)} {coq_opt(op[3], coq_str)} "
                           f"{coq_opt(op[4], str)} {coq_list([self._citem(i) for i in ob['items']])}")
            elif k == "src":
                ops.append(f"CSrc {self._cpath(op[1])} {coq_str(op[2])} {coq_opt(ob['item'], self._citem)}")
            if "snap" in ob:
                ops.append(self._csnap(ob["snap"]))
        return (f"CCase {coq_list(tab)} {coq_list([self._cpath(p) for p in universe(c)])}\n   "
                + coq_list(ops))

    # ---------------------------------------------------------------- bookkeeping
    def nontrivial(self, c):
        ks = [o[0] for o in c["ops"]]
        if "rel" in ks:
            return True
        if "inv" in ks and "reg" in ks[ks.index("inv"):]:
            return True
        return any(inner_chain(c["locs"], o[1], o[2]) for o in c["ops"] if o[0] == "reg")

    def _class(self, c):
        """input class of a history: which kinds of 'same data' links it contains"""
        locs = c["locs"]
        regs = [o for o in c["ops"] if o[0] == "reg"]
        same = cross = False
        for o in c["ops"]:
            if o[0] == "rel" and o[1] < len(regs) and o[2] < len(regs):
                a, b = regs[o[1]], regs[o[2]]
                ka, kb = (locs[a[1]]["dep"], locs[a[1]]["name"]), (locs[b[1]]["dep"], locs[b[1]]["name"])
                if ka == kb and a[2] != b[2]:
                    same = True
                elif a[2] != b[2] or ka != kb:
                    cross = True
        wrapped = any(inner_chain(locs, o[1], o[2]) for o in regs)
        return "+".join(x for x, f in (("samelocrel", same), ("crossrel", cross), ("wrapped", wrapped)) if f) or "plain"

    def _dupreg(self, c):
        """does the history register a copy (own path, or the path on a wrapped location) that is registered and
        not invalidated at that moment?  (register_path then returns a second object for the same copy)"""
        locs = c["locs"]
        key = lambda li: (locs[li]["dep"], locs[li]["name"])
        created, direct = {}, {}
        for t, op in enumerate(c["ops"], start=1):
            if op[0] == "reg":
                copies = [(key(op[1]), op[2])] + [(key(li), q) for li, q in inner_chain(locs, op[1], op[2])]
                if any(x in created and direct.get(x, 0) < created[x] for x in copies):
                    return True
                for K, p in copies:
                    for a in ancestors_or_self(p):
                        created[(K, a)] = t
            elif op[0] == "inv":
                for (K, q) in list(created):
                    if K == key(op[1]) and beneath_or_equal(op[2], q):
                        direct[(K, q)] = t
        return False

    def signature(self, c, o, clause):
        if clause in ("reports-invalidated", "source-valid") or clause.startswith("raises-RecursionError"):
            return f"{clause}/{'dupreg' if self._dupreg(c) else 'nodup'}"
        return f"{clause}/{self._class(c)}"

    def shrink(self, c):
        ops = c["ops"]
        for i in range(len(ops) - 1, -1, -1):
            new = []
            if ops[i][0] == "reg":
                k = sum(1 for o in ops[:i] if o[0] == "reg")
                for j, o in enumerate(ops):
                    if j == i:
                        continue
                    if o[0] == "rel":
                        if k in (o[1], o[2]):
                            continue
                        o = ["rel", o[1] - (o[1] > k), o[2] - (o[2] > k)]
                    new.append(o)
            else:
                new = ops[:i] + ops[i + 1:]
            if new:
                yield {"f": "hist", "locs": c["locs"], "ops": new}
        # shorten paths
        for i, o in enumerate(ops):
            if o[0] in ("reg", "inv") and len(comps(o[2])) > 1:
                yield {"f": "hist", "locs": c["locs"], "ops": ops[:i] + [[o[0], o[1], "/" + "/".join(comps(o[2])[:-1])] + o[3:]] + ops[i + 1:]}
        # drop the last location when unused
        last = len(c["locs"]) - 1
        if last > 0 and not any(o[0] in ("reg", "inv") and o[1] == last for o in ops) \
                and not any(L["wraps"] == last for L in c["locs"]):
            yield {"f": "hist", "locs": c["locs"][:-1], "ops": ops}


PROP = C21()
