"""C10 — The scheduler never over-allocates a location."""
from harness.props.sched_common import Ledger, SchedProp, cap_vec, loc_class


class C10(SchedProp):
    ID = "C10"
    PROPS_FILE = "Props/C10.v"
    LEVEL_TEXT = ("History level (C10_capacity, C10_capacity_slots): for EVERY conformant history from the initial state and every prefix, on the domain of flat (not stacked) locations and one location per allocation, on every location with declared hardware the sum of the requirements of fireable/running jobs = ledger - measured residue, residue = 0 on cores/memory and >= 0 per mount point, and reserved <= ledger <= capacity on cores, memory and every mount point; on every slot location #fireable/running jobs <= slots. Conformant = requests evaluated only for jobs that are not fireable/running, RUNNING only to fireable/running jobs, FIREABLE only repeated, any other status any time in any order with repetitions, du <= reservation. C10_capacity_stacked: the same for locations that are chains of stacked levels (distinct names per chain, a requirement for every level, one location per allocation), for every level outer or inner (hardware: reserved <= ledger <= capacity; slots: C10_capacity_slots_stacked, #jobs through the level <= slots), provided every release is coherent with its reservation (per level the released hardware has the measures of the reserved one, du <= it) - the shared-inner findings are exactly incoherent histories. Domain limits of these theorems, beyond one location per allocation: (a) hardware_locations is keyed by the bare location NAME, so two locations with the same name in different deployments share one ledger in the code; the theorems assume names identify locations (locs_names) and the generator never reuses a name; (b) conformance assumes du <= reservation per mount point: a job that wrote more than it reserved pushes the ledger above the capacity and the next _is_valid raises 'Storage cannot have negative size' out of schedule() on a single plain location (exercised by the generator, judged by the C12 oracle, listed as a known finding); (c) theorems are conditional on run = Ok. Event level: Theorems (Coq, closed) over a lock-granular model of DefaultScheduler (one retry-loop iteration of _process_target / one notify_status = one event), for every state, every chain of stacked levels and every requirement map: an evaluation allocates only locations that pass _is_valid at every stacked level in the state it started from; passing _is_valid on a level with declared hardware means ledger + requirement <= capacity on cores, memory and every mount point of the requirement (given a ledger within capacity), and the ledger after _allocate_job's reservation equals ledger + requirement and is again within capacity; on slot levels validity is exactly (#fireable/running jobs, plus the ROLLBACK rule) < slots. C10_shared_inner_refuted proves inside the model that the full property is false when a target asks for several locations stacked on one inner location (known finding). Every real run (histories of schedule/notify operations over 1..3 deployments x 1..3 locations, stacked wrappers, multi-location targets) is replayed event by event on the model (valid sets, allocation decisions, full state at each quiescent point).")
    LEVEL_NOTE = ("Partial. The model takes as inputs (observed from the real run, not modelled) the resolved requirement map, the policy's choice, du results and re-bound hardware; asyncio (Condition, task order) is exercised under a seeded permuting loop, not modelled. The history-level theorems hold on stated domains only (flat or stacked chains, one location per allocation, coherent releases, conformant lifecycle); outside them, and for the link between model and code, the statement is judged on every real run by an oracle written from the property text (ledger rebuilt from observations) and by replaying the run's event trace on the model. The model's history ends when an operation raises (run = Err), whereas the real scheduler goes on half-updated (e.g. notify_status raising out of _free_resources: status changed, nothing released, no notify_all): such runs are judged by the oracle only. Trusted: Coq kernel + vm_compute, Sched/Model.v, Hardware/Model.v, the harness fakes. No axioms. The history theorems do not cover several locations per target nor incoherent releases (shared inner level in one candidate list), where the property is false (C10_shared_inner_refuted); coherence of bind_mount_point's outputs is an assumption on inputs, checked on real runs only by oracle and replay.")

    def oracle(self, case, obs):
        if "crash" in obs or "hang" in obs:
            return ("crash", f"driver crashed/hung: {obs.get('exc')} {obs.get('stderr', '')[-400:]}")
        if case.get("raw"):
            return None
        led = Ledger(case)
        for i, st in enumerate(obs["steps"]):
            led.feed(st)
            for (dep, name), (v, cnt) in led.load(st["snap"]).items():
                l = led.levels[(dep, name)]
                if l["cap"] is not None:
                    cap = cap_vec(l)
                    for k, x in v.items():
                        if x > cap.get(k, 0):
                            return ("over-capacity@" + loc_class(case, name), f"after op #{i} {st['op']}: fireable/running jobs reserve {x} of {k} on "
                                                     f"{dep}/{name}, capacity {cap.get(k, 0)}")
                else:
                    slots = l["slots"] if l["slots"] is not None else 1
                    if cnt[0] > slots:
                        return ("over-slots@" + loc_class(case, name), f"after op #{i} {st['op']}: {cnt[0]} fireable/running jobs on {dep}/{name}, "
                                              f"slots {slots}")
        return None


PROP = C10()
