#!/usr/bin/env python3
"""C30 observation tool (the `baseCommand` of every generated CommandLineTool): writes what the process
received -- argv, the C30_* environment, where fd 0/1/2 point -- to ./c30_dump.json.  Never blocks: stdin
is read only when it is a regular file.  Bytes are carried as code points 0..255 (latin-1)."""
import json
import os
import stat
import sys


def b2s(b):
    return b.decode("latin-1")


def fd_target(fd):
    try:
        if not stat.S_ISREG(os.fstat(fd).st_mode):
            return None
        return b2s(os.fsencode(os.path.basename(os.readlink("/proc/self/fd/%d" % fd))))
    except OSError:
        return None


def main():
    stdin_data = None
    if fd_target(0) is not None:
        stdin_data = b2s(os.read(0, 65536))
    out = {"argv": [b2s(os.fsencode(a)) for a in sys.argv[1:]],
           "env": {b2s(os.fsencode(k)): b2s(os.fsencode(v)) for k, v in os.environ.items() if k.startswith("C30_")},
           "stdin": stdin_data, "stdin_file": fd_target(0), "stdout_file": fd_target(1),
           "stderr_file": fd_target(2),
           # each runner gives the tool its own HOME / TMPDIR: reported so that an expansion the tool ASKED for
           # (shellQuote: false on $HOME, ~) can be compared up to their values
           # names only: what else the process inherited (the oracle does not judge it, see design/notes/C30.md)
           "other_env_names": sorted(b2s(os.fsencode(k)) for k in os.environ if not k.startswith("C30_")),
           "home": b2s(os.fsencode(os.environ.get("HOME", ""))), "tmpdir": b2s(os.fsencode(os.environ.get("TMPDIR", "")))}
    with open("c30_dump.json", "w") as f:
        json.dump(out, f)
    sys.stdout.write("C30-OUT\n")
    sys.stdout.flush()
    sys.stderr.write("C30-ERR\n")
    sys.stderr.flush()


if __name__ == "__main__":
    main()
