"""C14 — Hardware arithmetic is consistent."""
from fractions import Fraction

from harness.lib.framework import Prop, coq_bool, coq_list, coq_opt, coq_str, coq_Z

MOUNTS = ["/", "/data", "/tmp", "/mnt/a b", "/scratch"]
PATHS = ["/", "/data/in", "/tmp/x", "/home/u/w d", "/scratch/j1", "/data"]
BINDS = [None, None, "/host/vol", "/data"]


# ------------------------------------------------------------------------------ Coq literals (shared with the scheduler checks)
def coq_storage(st):
    key, mount, size, paths, bind = st
    return (f"({coq_str(key)}, mkst {coq_str(mount)} {coq_Z(size)} {coq_list([coq_str(p) for p in paths])} "
            f"{coq_opt(bind, coq_str)})")


def coq_hw(h):
    return f"(mkhw {coq_Z(h['c'])} {coq_Z(h['m'])} {coq_list([coq_storage(s) for s in h['s']])})"


def coq_res_hw(o):
    if "err" in o:
        return f"(Err {o['err']})"
    return f"(Ok {coq_hw(o)})"


def totals(h):
    t = {}
    for _, mount, size, _, _ in h["s"]:
        t[mount] = t.get(mount, 0) + size
    return t


class HwCodec:
    """Builds real Hardware objects from JSON values and canonicalises results (exact, scaled by `den`)."""

    def __init__(self):
        from streamflow.core.exception import WorkflowExecutionException
        from streamflow.core.scheduling import Hardware, Storage

        self.Hardware, self.Storage, self.WEE = Hardware, Storage, WorkflowExecutionException

    @staticmethod
    def num(n, den, mode):
        if mode == "float":
            return float(n) / den
        if mode == "frac":
            return Fraction(n, den)
        return n

    def build(self, h, den=1, mode="int"):
        storage = {}
        for key, mount, size, paths, bind in h["s"]:
            storage[key] = self.Storage(mount, self.num(size, den, mode), set(paths), bind)
        return self.Hardware(self.num(h["c"], den, mode), self.num(h["m"], den, mode), storage)

    @staticmethod
    def scaled(v, den):
        f = Fraction(v) * den
        if f.denominator != 1:
            raise ValueError(f"inexact amount {v!r} (den {den})")
        return int(f)

    def obs(self, hw, den=1):
        return {"c": self.scaled(hw.cores, den), "m": self.scaled(hw.memory, den),
                "s": [[k, d.mount_point, self.scaled(d.size, den), sorted(d.paths), d.bind]
                      for k, d in hw.storage.items()]}

    def err(self, e):
        if isinstance(e, ArithmeticError):
            return {"err": "MountMismatch"}
        if isinstance(e, self.WEE):
            msg = str(e)
            if "negative size" in msg:
                return {"err": "NegativeSize"}
            if "Invalid `Hardware` comparison" in msg:
                return {"err": "MissingMount"}
        raise e

    def guarded(self, fn, den=1):
        try:
            return self.obs(fn(), den)
        except (ArithmeticError, self.WEE) as e:
            return self.err(e)


class C14(Prop):
    ID = "C14"
    PROPS_FILE = "Props/C14.v"
    CORR_MODULE = "Hardware.Corr"
    LEVEL_TEXT = ("Theorems (Coq, closed under the global context) over a model of Storage/Hardware arithmetic with exact "
                  "amounts: for every pair of constructible values (any number of storages, any keys, aliasing keys and "
                  "repeated mount points) a+b is defined, normalised and adds per mount point; (a+b)-b is defined and "
                  "restores cores, memory and every per-mount total of a; x-b is defined and exact per mount point whenever b's mount points are among x's and b fits (C14_sub_totals), and then (x-b)+b restores x; normalisation is defined, idempotent (equality of "
                  "values), keyed by mount point, and preserves cores, memory, the mount-point set and every per-mount total; "
                  "satisfies answers true exactly when cores, memory and every mount-point total of the requirement are <= the "
                  "capacity's when the capacity knows all the requirement's mount points, and otherwise raises exactly when "
                  "cores and memory suffice. The model is tied to /repo by running the real operators and the model on the "
                  "same generated operands (ints, Fractions n/D and dyadic floats, compared after scaling) and comparing whole "
                  "results (dict order, keys, mount points, sizes, path sets, binds, error kinds).")
    LEVEL_NOTE = ("Amounts in the model are integers: all operations are +,-,max,>=, which commute with scaling by a common "
                  "denominator; that scaling argument is exercised by the correspondence (Fraction and dyadic-float passes), "
                  "not proved. IEEE doubles that are not exactly representable break add-then-sub (0.1+0.2-0.2 != 0.1); this "
                  "is outside the model. Trusted: Coq kernel + vm_compute; the hand-written Hardware/Model.v; CPython dict "
                  "order, set union, Fraction. No axioms.")
    TECHNIQUE = "Coq proof (induction over storage lists with a per-mount-total invariant) + vm_compute correspondence against the Python operators"
    RULE = ("operands with 0..4 storages over 1..3 of 5 mount points, keys equal to the mount point, arbitrary, aliasing, or "
            "equal to another storage's mount point; sizes 0..20 biased to ties and zero; paths/binds; second operands derived "
            "from the first (same keys, boundary sizes +-1, missing/foreign mounts); amounts as ints, Fractions n/D, dyadic "
            "floats. Kinds: addsub, subadd (un-normalised aliasing left operand, fitting right operand), add, sub, or, norm, sat, new. Non-trivial = some operand has >=2 storages or a key "
            "different from its mount point. Distinct = distinct canonical JSON.")
    TRUSTED = ("model: Hardware/Model.v (Storage.__init__/__add__/__sub__/__ior__, _reduce_storages, Hardware.__init__/"
               "__add__/__sub__/__or__/normalized/is_normalized/satisfies) is hand-written; CPython dict insertion order, "
               "set union, int/Fraction/float arithmetic are not verified, only exercised",)
    ASSUMPTIONS = ("amounts are exact numbers (int, Fraction, or floats on which the operations are exact); sizes, cores, "
                   "memory non-negative in operands",
                   "Storage objects are not mutated behind the operators (size set negative after construction)")
    MAX_WORKERS = 6
    COQ_SHARD = 300

    # ---------------------------------------------------------------- generation
    def _hw(self, rng, mounts=None, nmax=4, allow_empty=True):
        mounts = mounts or rng.sample(MOUNTS, rng.randrange(1, 4))
        n = rng.randrange(0 if allow_empty else 1, nmax + 1)
        style = rng.choice(["norm", "alias", "mixed", "cross"])
        s, keys = [], set()
        for i in range(n):
            mount = rng.choice(mounts)
            if style == "norm" or (style == "mixed" and rng.random() < 0.5):
                key = mount
            elif style == "cross" and rng.random() < 0.5:
                key = rng.choice(mounts)
            else:
                key = f"k{rng.randrange(0, 6)}"
            if key in keys:
                key = f"{key}#{i}"
            keys.add(key)
            size = rng.choice([0, 0, 1, 2, 3, 5, 5, 8, 13, 20])
            paths = sorted(set(rng.sample(PATHS, rng.randrange(0, 3))))
            s.append([key, mount, size, paths, rng.choice(BINDS)])
        return {"c": rng.choice([0, 1, 2, 4, 4, 8, 16]), "m": rng.choice([0, 1, 2, 4, 8, 8, 64]), "s": s}

    def _related(self, rng, a, how):
        """second operand derived from a: same mounts, boundary sizes."""
        ta = totals(a) or {"/": 0}
        s = []
        mounts = list(ta)
        rng.shuffle(mounts)
        if how == "subset" and len(mounts) > 1 and rng.random() < 0.5:
            mounts = mounts[:rng.randrange(1, len(mounts) + 1)]
        for i, mnt in enumerate(mounts):
            want = max(0, ta[mnt] + rng.choice([-2, -1, 0, 0, 0, 1]))
            if rng.random() < 0.4 and want >= 2:      # split over two aliasing keys
                x = rng.randrange(0, want + 1)
                s.append([f"r{i}a", mnt, x, [], None])
                s.append([f"r{i}b", mnt, want - x, [], None])
            else:
                s.append([mnt if rng.random() < 0.5 else f"r{i}", mnt, want, [], rng.choice(BINDS)])
        if how == "foreign" or rng.random() < 0.1:
            extra = rng.choice([m for m in MOUNTS if m not in ta] or ["/zz"])
            s.append([extra, extra, rng.choice([0, 1, 4]), [], None])
        return {"c": max(0, a["c"] + rng.choice([-1, 0, 0, 1])), "m": max(0, a["m"] + rng.choice([-1, 0, 0, 1])), "s": s}

    def _fitting(self, rng, a):
        """requirement whose mount points are among a's and which fits per mount point (what the scheduler subtracts)"""
        ta = totals(a) or {"/": 0}
        mounts = list(ta)
        rng.shuffle(mounts)
        mounts = mounts[:rng.randrange(1, len(mounts) + 1)]
        s = []
        for i, mnt in enumerate(mounts):
            want = rng.choice([0, ta[mnt], ta[mnt], max(0, ta[mnt] - 1), ta[mnt] // 2])
            if rng.random() < 0.4 and want >= 2:
                x = rng.randrange(0, want + 1)
                s.append([f"r{i}a", mnt, x, [], None])
                s.append([f"r{i}b", mnt, want - x, [], None])
            else:
                s.append([mnt if rng.random() < 0.5 else f"r{i}", mnt, want, [], rng.choice(BINDS)])
        return {"c": rng.choice([0, a["c"], max(0, a["c"] - 1)]), "m": rng.choice([0, a["m"], max(0, a["m"] - 1)]), "s": s}

    def _aliasing(self, rng, mounts):
        """un-normalised operand: several keys on one mount point (at least one mount point aliased)"""
        a = self._hw(rng, mounts, allow_empty=False)
        m = rng.choice(mounts)
        base = len(a["s"])
        for j in range(rng.randrange(2, 4)):
            a["s"].append([f"al{base + j}", m, rng.choice([1, 2, 3, 5, 8]), [], None])
        rng.shuffle(a["s"])
        return a

    def _samekeys(self, rng, a):
        s = []
        for key, mount, size, paths, bind in a["s"]:
            if rng.random() < 0.75:
                m2 = mount if rng.random() < 0.85 else rng.choice(MOUNTS)
                s.append([key, m2, rng.choice([0, size, size + 1, max(0, size - 1), 9]),
                          sorted(set(rng.sample(PATHS, rng.randrange(0, 3)))), rng.choice(BINDS)])
        if rng.random() < 0.5:
            m = rng.choice(MOUNTS)
            s.append([f"n{rng.randrange(3)}", m, rng.randrange(0, 9), [], None])
        return {"c": rng.choice([0, 1, 3]), "m": rng.choice([0, 2, 5]), "s": s}

    def gen(self, rng, tier):
        n = {"quick": 3000, "thorough": 30000, "extended": 6000}[tier]
        cases = []
        for _ in range(n):
            r = rng.random()
            mode = rng.choice(["int", "int", "frac", "frac", "float"])
            den = 1 if mode == "int" else (rng.choice([3, 7, 10, 1000]) if mode == "frac" else rng.choice([2, 8, 1024]))
            mounts = rng.sample(MOUNTS, rng.randrange(1, 4))
            a = self._hw(rng, mounts)
            if r < 0.2:
                b = self._hw(rng, mounts if rng.random() < 0.6 else None)
                c = {"f": "addsub", "a": a, "b": b}
            elif r < 0.3:
                if rng.random() < 0.7:
                    a = self._aliasing(rng, mounts)
                c = {"f": "subadd", "a": a, "b": self._fitting(rng, a)}
            elif r < 0.35:
                c = {"f": "add", "a": a, "b": self._hw(rng)}
            elif r < 0.5:
                how = rng.choice(["subset", "subset", "foreign"])
                b = self._related(rng, a, how) if rng.random() < 0.8 else self._hw(rng, mounts)
                c = {"f": "sub", "a": a, "b": b}
            elif r < 0.6:
                b = self._samekeys(rng, a) if rng.random() < 0.8 else self._hw(rng, mounts)
                c = {"f": "or", "a": a, "b": b}
            elif r < 0.72:
                c = {"f": "norm", "a": a}
            elif r < 0.97:
                how = rng.choice(["subset", "subset", "subset", "foreign"])
                b = self._related(rng, a, how) if rng.random() < 0.85 else self._hw(rng, mounts)
                c = {"f": "sat", "a": a, "b": b}
            else:
                c = {"f": "new", "a": a}
            if mode == "frac" and any(not c[k]["s"] for k in ("a", "b") if k in c):
                den = 8     # the default root storage is the float 0.0: keep Fraction + float exact
            c["den"], c["mode"] = den, mode
            cases.append(c)
        return cases

    # ---------------------------------------------------------------- implementation
    def impl_init(self):
        self.codec = HwCodec()

    def impl_run(self, c):
        k, f, den, mode = self.codec, c["f"], c.get("den", 1), c.get("mode", "int")
        a = k.build(c["a"], den, mode)
        b = k.build(c["b"], den, mode) if "b" in c else None
        if f == "new":
            st = {key: k.Storage(mount, k.num(size, den, mode), set(paths), bind) for key, mount, size, paths, bind in c["a"]["s"]}
            return {"r": k.obs(k.Hardware(k.num(c["a"]["c"], den, mode), k.num(c["a"]["m"], den, mode), st), den)}
        if f == "add":
            return {"r": k.guarded(lambda: a + b, den)}
        if f == "sub":
            return {"r": k.guarded(lambda: a - b, den)}
        if f == "or":
            return {"r": k.guarded(lambda: a | b, den)}
        if f == "addsub":
            s = k.guarded(lambda: a + b, den)
            r = k.guarded(lambda: (a + b) - b, den)
            return {"s": s, "r": r}
        if f == "subadd":
            d = k.guarded(lambda: a - b, den)
            r = k.guarded(lambda: (a - b) + b, den)
            return {"d": d, "r": r}
        if f == "norm":
            r = k.guarded(lambda: a.normalized(), den)
            r2 = k.guarded(lambda: a.normalized().normalized(), den)
            return {"r": r, "isn": bool(a.is_normalized()), "r2": r2,
                    "isn_r": bool(a.normalized().is_normalized()) if "err" not in r else None}
        if f == "sat":
            try:
                return {"r": bool(a.satisfies(b))}
            except (ArithmeticError, k.WEE) as e:
                return {"r": k.err(e)}
        raise ValueError(f)

    # ---------------------------------------------------------------- oracle (from the property text)
    def oracle(self, c, o):
        if "crash" in o or "hang" in o:
            return ("crash", f"implementation crashed/hung: {o.get('exc')} {o.get('stderr', '')[-300:]}")
        f, a = c["f"], c["a"]
        ta = totals(a)
        if f == "addsub":
            r = o["r"]
            if "err" in r or "err" in o["s"]:
                return ("addsub-raises", f"(a+b)-b raised {r.get('err') or o['s'].get('err')} for a={a} b={c['b']}")
            tr = totals(r)
            if r["c"] != a["c"] or r["m"] != a["m"]:
                return ("addsub-cores-mem", f"(a+b)-b has cores/memory {r['c']}/{r['m']}, a has {a['c']}/{a['m']}")
            for m in set(ta) | set(tr):
                if ta.get(m, 0) != tr.get(m, 0):
                    return ("addsub-mount", f"(a+b)-b has {tr.get(m, 0)} on {m}, a has {ta.get(m, 0)}")
        if f in ("sub", "subadd"):
            # the law the scheduler relies on (capacity - ledger, ledger - job): when b's mount points are among x's
            # and b fits per mount point, x - b is defined and exact per mount point; adding b back restores x
            b = c["b"]
            tx, tb = (ta or {"/": 0}), (totals(b) or {"/": 0})
            if all(m in tx and v <= tx[m] for m, v in tb.items()):
                d = o["d"] if f == "subadd" else o["r"]
                if "err" in d:
                    return ("sub-raises", f"x - b raised {d['err']} although b fits x on every mount point: x={a} b={b}")
                td = totals(d)
                if d["c"] != a["c"] - b["c"] or d["m"] != a["m"] - b["m"]:
                    return ("sub-cores-mem", f"x - b has cores/memory {d['c']}/{d['m']}, expected {a['c'] - b['c']}/{a['m'] - b['m']}")
                for m in set(tx) | set(td):
                    if td.get(m, 0) != tx.get(m, 0) - tb.get(m, 0):
                        return ("sub-mount", f"x - b has {td.get(m, 0)} on {m}, x has {tx.get(m, 0)} and b {tb.get(m, 0)}: x={a} b={b}")
                if f == "subadd":
                    r = o["r"]
                    if "err" in r:
                        return ("subadd-raises", f"(x-b)+b raised {r['err']} for x={a} b={b}")
                    tr = totals(r)
                    if r["c"] != a["c"] or r["m"] != a["m"] or any(tr.get(m, 0) != tx.get(m, 0) for m in set(tx) | set(tr)):
                        return ("subadd-restores", f"(x-b)+b = {r} does not restore the totals of x={a}")
        if f == "norm":
            r = o["r"]
            if "err" in r or "err" in o["r2"]:
                return ("norm-raises", f"normalized raised for {a}")
            if o["r2"] != r:
                return ("norm-idempotent", f"normalized twice {o['r2']} differs from once {r}")
            if not o["isn_r"] or any(k != mnt for k, mnt, _, _, _ in r["s"]) or len({s[1] for s in r["s"]}) != len(r["s"]):
                return ("norm-not-normal", f"normalized value is not in normal form: {r}")
            tr = totals(r)
            if r["c"] != a["c"] or r["m"] != a["m"] or any(ta.get(m, 0) != tr.get(m, 0) for m in set(ta) | set(tr)):
                return ("norm-totals", f"normalized {r} changes the totals of {a}")
        if f == "sat":
            b, r = c["b"], o["r"]
            ta = ta or {"/": 0}            # Hardware() substitutes a zero root storage for an empty map
            tb = totals(b) or {"/": 0}
            enough = a["c"] >= b["c"] and a["m"] >= b["m"] and all(ta.get(m, 0) >= v for m, v in tb.items())
            known = all(m in ta for m in tb)
            if known:
                if r is not enough:
                    return ("satisfies-iff", f"capacity {a} satisfies {b} = {r}, componentwise comparison says {enough}")
            elif r is True and not enough:
                return ("satisfies-iff", f"capacity {a} claims to satisfy {b}, larger on an unknown mount point")
        return None

    # ---------------------------------------------------------------- model side
    def coq_case(self, c, o):
        if "crash" in o or "hang" in o:
            return None
        f = c["f"]
        a = coq_hw(c["a"])
        b = coq_hw(c["b"]) if "b" in c else None
        if f == "new":
            h = c["a"]
            return (f"CNew {coq_Z(h['c'])} {coq_Z(h['m'])} {coq_list([coq_storage(s) for s in h['s']])} {coq_hw(o['r'])}")
        # the model's operands are what the Hardware constructor made of the JSON: empty map -> root storage
        a, b = self._ctor(c["a"]), (self._ctor(c["b"]) if "b" in c else None)
        if f == "add":
            return f"CAdd {a} {b} {coq_res_hw(o['r'])}"
        if f == "sub":
            return f"CSub {a} {b} {coq_res_hw(o['r'])}"
        if f == "or":
            return f"COr {a} {b} {coq_res_hw(o['r'])}"
        if f == "addsub":
            return f"CAddSub {a} {b} {coq_res_hw(o['s'])} {coq_res_hw(o['r'])}"
        if f == "subadd":
            return f"CSubAdd {a} {b} {coq_res_hw(o['d'])} {coq_res_hw(o['r'])}"
        if f == "norm":
            return f"CNorm {a} {coq_res_hw(o['r'])} {coq_bool(o['isn'])} {coq_res_hw(o['r2'])}"
        if f == "sat":
            r = o["r"]
            rr = f"(Err {r['err']})" if isinstance(r, dict) else f"(Ok {coq_bool(r)})"
            return f"CSat {a} {b} {rr}"
        return None

    @staticmethod
    def _ctor(h):
        s = [coq_storage(x) for x in h["s"]]
        return f"(new_hw {coq_Z(h['c'])} {coq_Z(h['m'])} {coq_list(s)})"

    def nontrivial(self, c):
        hs = [c["a"]] + ([c["b"]] if "b" in c else [])
        return any(len(h["s"]) >= 2 or any(s[0] != s[1] for s in h["s"]) for h in hs)

    def signature(self, c, o, clause):
        return f"{c['f']}/{clause}"

    def shrink(self, c):
        if c.get("den", 1) != 1:
            yield {**c, "den": 1, "mode": "int"}
        for k in ("a", "b"):
            if k not in c:
                continue
            h = c[k]
            for i in range(len(h["s"])):
                yield {**c, k: {**h, "s": h["s"][:i] + h["s"][i + 1:]}}
            for i, s in enumerate(h["s"]):
                if s[3] or s[4]:
                    yield {**c, k: {**h, "s": h["s"][:i] + [[s[0], s[1], s[2], [], None]] + h["s"][i + 1:]}}
                if s[2] > 1:
                    yield {**c, k: {**h, "s": h["s"][:i] + [[s[0], s[1], s[2] // 2, s[3], s[4]]] + h["s"][i + 1:]}}
            for fld in ("c", "m"):
                if h[fld] > 0:
                    yield {**c, k: {**h, fld: 0}}


PROP = C14()
