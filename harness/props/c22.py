"""C22 — Transfers reproduce the source data exactly.

Runs the real DefaultDataManager.transfer_data between the local location and a shell-backed fake remote
(a BaseConnector subclass whose "remote" is a directory under /var/tmp reached through /bin/sh -c, the way
the ssh/container connectors hand ' '.join(command) to a remote shell) on random trees and compares the
destination tree byte-for-byte (incl. exec bits) with the source, up to symlink resolution.
"""
import hashlib
import os
import random as _random

from harness.lib.framework import Prop, coq_bool, coq_list, coq_opt, coq_str

ROUTES = {("L", "L"): "LL", ("L", "R1a"): "LR", ("R1a", "L"): "RL", ("R1a", "R1a"): "RRsame",
          ("R1a", "R1b"): "RRother", ("R1a", "R2a"): "RRother"}
# W = a location of another deployment that wraps R1a (what it sees at D is R1a's M); for the copy it is one more remote
WRAPPED = {("L", "W"): "LR", ("R1a", "W"): "RRother", ("R2a", "W"): "RRother", ("W", "L"): "RL", ("W", "W"): "RRsame"}
# fan-out: one transfer_data call with two destination locations of the same deployment
FANOUT = [("L", "R1a", "R1b"), ("R1a", "R1a", "R1b"), ("R2a", "R1a", "R1b"), ("R1a", "R1b", "R1a")]
ALLROUTES = {**ROUTES, **WRAPPED, ("L", "R1b"): "LR", ("R2a", "R1a"): "RRother", ("R2a", "R1b"): "RRother",
             ("R1b", "R1b"): "RRsame"}
SAFE = "abcdefghijklmnopqrstuvwxyzABCXYZ0123456789_.+,:@%=-"
HOSTILE_NAMES = ["a b", " lead", "trail ", "q'uote", 'd"q', "-dash", "--opt=x", "ünï", "日本", "$HOME", "`id`", "a;b", "a&b",
                 "a|b", "star*", "qm?", "[x]", "back\\slash", "new\nline", "tab\tx", "~", "#c", "(p)", "{b}", "!", "a>b", "é" * 60,
                 "L" * 120, "%s", "a=b", ".hidden", "..."]
# roots a shell mangles -- chosen so that the mangled command is harmless ("$HOME" would make tar archive the home directory)
UNSAFE_ROOTS = ["a b", "-dash", "$nope", "a;b", "star*", "a>b", "(p)", "x\ty"]
HANGING_ROOTS = ["q'uote", 'd"q']     # an unbalanced quote makes the persistent shell wait for ever: few of these, they cost a timeout


def content(node):
    if "b" in node:
        return bytes.fromhex(node["b"])
    return _random.Random(node["s"]).randbytes(node["n"])


def ctok(b: bytes) -> str:
    """Token standing for a byte string (what is compared; the model only moves contents around)."""
    if len(b) <= 24:
        return "h" + b.hex()
    return f"s{len(b)}:" + hashlib.sha256(b).hexdigest()[:24]


def canon_in(t, root=None):
    """Input tree -> comparison form (contents as tokens, children sorted by UTF-8 bytes, hard links as files)."""
    root = t if root is None else root
    k = t["t"]
    if k == "h":
        return canon_in(_lookup(root, t["of"]), root)
    if k == "f":
        return {"t": "f", "c": ctok(content(t)), "x": bool(t["x"])}
    if k == "l":
        return {"t": "l", "to": t["to"]}
    return {"t": "d", "c": sorted(([n, canon_in(c, root)] for n, c in t["c"]), key=lambda e: e[0].encode("utf-8", "surrogateescape"))}


def canon_in_safe(t):
    try:
        return canon_in(t)
    except (TypeError, KeyError):
        return {"t": "l", "to": "/unresolved"}


def _lookup(root, comps):
    node = root
    for c in comps:
        if node["t"] != "d":
            return None
        m = {n: x for n, x in node["c"]}
        if c not in m:
            return None
        node = m[c]
    return node


def resolve(t, root=None, path=(), depth=0):
    """The tree 'up to symlink resolution': relative links inside the tree replaced by what they point to."""
    root = t if root is None else root
    if t is None:
        return None
    if t["t"] == "l":
        if depth > 16 or t["to"].startswith("/"):
            return {"t": "unresolved"}
        cur = list(path[:-1])
        for comp in t["to"].split("/"):
            if comp in ("", "."):
                continue
            if comp == "..":
                if not cur:
                    return {"t": "unresolved"}
                cur.pop()
            else:
                cur.append(comp)
        node = _lookup(root, cur)
        if node is None:
            return {"t": "unresolved"}
        return resolve(node, root, tuple(cur), depth + 1)
    if t["t"] == "d":
        return {"t": "d", "c": [[n, resolve(c, root, path + (n,), depth)] for n, c in t["c"]]}
    return t


def dehard(t, root=None):
    root = t if root is None else root
    if t["t"] == "h":
        return dict(_lookup(root, t["of"]))
    if t["t"] == "d":
        return {"t": "d", "c": [[n, dehard(c, root)] for n, c in t["c"]]}
    return t


def previous_copy(tree, stale):
    """What an earlier transfer of `tree` left at the destination: the dereferenced tree; `stale`: same names, but every
    regular file has other bytes and the opposite exec bit (an out-of-date copy)."""
    t = resolve(dehard(tree))

    def age(x):
        if x["t"] == "d":
            return {"t": "d", "c": [[n, age(c)] for n, c in x["c"]]}
        if x["t"] == "f" and stale:
            return {"t": "f", "b": "6f6c64", "x": not x["x"]}
        return x
    return age(t)


def pre_state(c):
    """The destination before the transfer, as an input-style tree (None = absent)."""
    ds = c["dstate"]
    if ds == "absent":
        return None
    if ds == "file":
        return {"t": "f", "b": "6f6c64", "x": False}
    if ds == "dir":
        return {"t": "d", "c": []}
    if ds == "dirpre":
        return {"t": "d", "c": [["zz keep", {"t": "f", "b": "6b656570", "x": False}]]}
    if ds == "conflict":      # an entry named like the source, of the other kind
        other = {"t": "f", "b": "6f6c64", "x": False} if c["tree"]["t"] == "d" else \
            {"t": "d", "c": [["in", {"t": "f", "b": "6f6c64", "x": False}]]}
        return {"t": "d", "c": [[c["sname"], other]]}
    if ds in ("copy", "stale"):
        return {"t": "d", "c": [[c["sname"], previous_copy(c["tree"], ds == "stale")]]}
    raise ValueError(ds)


def kind_conflict(c):
    ds = c["dstate"]
    return ds == "conflict" or (ds == "file" and c["tree"]["t"] == "d")


def has_link(t):
    return t["t"] == "l" or (t["t"] == "d" and any(has_link(c) for _, c in t["c"]))


def count(t):
    return 1 + (sum(count(c) for _, c in t["c"]) if t["t"] == "d" else 0)


def shell_safe(s):
    return s != "" and all(ch in SAFE or ch == "/" or ord(ch) > 127 for ch in s) and not s.startswith("-")


class C22(Prop):
    ID = "C22"
    PROPS_FILE = "Props/C22.v"
    CORR_MODULE = "FsTree.Corr"
    LEVEL = "proof"
    MAX_WORKERS = 8
    CASE_TIMEOUT = 300
    SHARD_TIMEOUT = 1500
    CASES_PER_WORKER = 12
    COQ_SHARD = 60
    LEVEL_TEXT = (
        "Theorems (Coq, closed under the global context) over a tree model (File bytes exec | Dir | Link) of the transfer path: "
        "tar archives as member lists (create with -h dereference, extract, --strip-components 1, -O|tee), cp -rf, ln -snf, "
        "shutil.copytree/copy, os.symlink, extract_tar_stream's member-by-member loop, and the decision tables (_copy, "
        "copy_same_connector, get_local_to_remote_destination, get_remote_to_remote_write_command, _local_copy, transfer_data's "
        "registered path). Proved for every source tree with unique names of any size, every route (local/remote x local/remote, "
        "same location, other location), destination absent or an existing directory WITHOUT an entry named like the source "
        "(dst_ok), writable or read-only, in every cell of "
        "the routing tables but two: the entry at the registered path is a link to the source (read-only only) or a copy equal to "
        "the dereferenced source -- which of the three is stated route by route (copy_exact) -- and other entries of an existing "
        "directory are kept. Re-transfer over an earlier copy (C22_retransfer_tar): on the tar routes (L->R, R->L, R->other "
        "location), for every earlier tree of the same shape under the source's name (any stale contents / exec bits) the entry "
        "afterwards is exactly the dereferenced source and the other entries are untouched. The local extraction loop is also "
        "modelled with Python's errors (r2l_chk): it raises at the first member that cannot be written and leaves exactly what "
        "the earlier members wrote (C22_extract_loop_partial), and agrees with the error-free model when it does not raise. Other "
        "entries of an existing "
        "directory are kept; the archive/extraction theorems are stated on the no-kind-conflict domain (no_conflict; dst_ok "
        "implies it; outside it the total model functions are shown NOT to describe the tools); the extract_tar_stream loop and "
        "--strip-components 1 are proved equal to plain extraction at the registered place; dereferencing keeps trees well "
        "formed. The two excluded cells are proved to be the only ones excluded and are refuted with witnesses (a renamed "
        "executable file remote->remote loses its exec bit through tee; a writable local copy of a directory into an existing "
        "directory is merged into it instead of landing at the registered path). Command lines reach the shell verbatim only "
        "for roots made of shell-safe characters (theorem over Shell.sh_words; refuted witness for a blank). Registry half "
        "(C22_registered, over C21's DataReg model, any registry state): after transfer_data's registry operations the "
        "destination path and its parent are available on the destination location, the destination object has the observed "
        "data type, the source object and every previously valid copy are unchanged. Path strings are tied to component lists "
        "over Tags' posixpath fragment (C22_path_strings_partial). The model is tied "
        "to /repo by running the real transfer_data (local connector + shell-backed fake remote under /var/tmp) on random "
        "trees and comparing destination trees, registered paths, their data types and availability with the model's, and by a "
        "byte-for-byte oracle.")
    LEVEL_NOTE = (
        "Partial: OUTSIDE the transfer theorem (dst_ok) and only run by the correspondence/oracle: a destination that is an "
        "existing regular file, and a destination directory that already holds an entry named like the source -- i.e. every "
        "re-transfer over an earlier copy (recovery retries) and every kind conflict; there the oracle finds real deviations "
        "(stale copies kept by EEXIST-swallowing symlink / ln over a directory, cp without -p keeping old modes, kind conflicts "
        "and failing tars returning normally), all listed in known/C22.txt (the hang of a failing remote copy is fixed, 0f73aad); "
        "re-transfer is PROVED only for the tar routes into a directory holding a same-shape earlier copy; the model is compared "
        "on all these states except kind conflicts on routes other than remote->local (GNU tar carries on after a refused member; "
        "cp/ln refusals) and cp over existing files/links. Tool semantics (GNU tar, cp, ln, tee, mkdir, test, Python tarfile/shutil) are modelled from their manuals and "
        "validated only by the runs; paths are component lists (string path arithmetic of posixpath is exercised, not proved); "
        "the registry half ('registered as an available copy') is, in Coq, only the computed path and data type -- the registry "
        "itself is C21's model (DataReg), not re-imported here; what the real data manager lists for the destination after the "
        "transfer (path, PRIMARY/SYMBOLIC_LINK, available) is compared in the correspondence and demanded by the oracle; "
        "C22_registered covers destinations that wrap no other location (wrapped destinations and two-destination fan-out are "
        "run by the correspondence and the oracle only; on a wrapped location the registered path of a same-location directory "
        "copy depends on a race and only the tree is compared there); normpath/'..'/trailing slashes are outside the path-string "
        "theorem; real ssh/container/k8s connectors are replaced by a shell-backed BaseConnector subclass whose locations have "
        "private file systems (mount namespaces).")
    TECHNIQUE = ("Coq proof (nested induction over trees / member lists) + vm_compute correspondence against real transfer_data runs "
                 "+ byte-for-byte oracle")
    RULE = ("transfer: random source (file or tree of 0..30 entries: empty files/dirs, binary contents up to 200 KiB quick / 1 MiB "
            "thorough, names with spaces, quotes, unicode, leading dashes, newlines, >100 chars, inner relative symlinks to files and "
            "link-free directories, hard links) x route {L->L, L->R, R->L, R->R same location, R->R other location, R->R other "
            "deployment} x destination {absent, existing directory (empty or with another entry), existing regular file, directory "
            "holding an entry of the other kind named like the source, directory holding an identical earlier copy, directory "
            "holding an out-of-date earlier copy} x {same basename, renamed} x "
            "{writable, read-only}; plus a location of another deployment wrapping R1a through a mount point (L->W, R1a->W, R2a->W, "
            "W->L, W->W) and one call with two destination locations (L|R1a|R2a -> {R1a,R1b}); ~10% roots with shell-special characters. Non-trivial = a directory with >=2 entries, a "
            "hostile name, a link or a non-empty file. Distinct = distinct canonical JSON.")
    TRUSTED = ("model FsTree/Model.v is hand-written: GNU tar/cp/ln/tee/mkdir/test, Python tarfile.add/extract, shutil.copytree/copy "
               "and os.symlink are described from their documentation and only exercised by the runs",
               "the fake remote (harness ShRemote: BaseConnector + /bin/sh -c stream commands) stands in for ssh/container connectors")
    ASSUMPTIONS = ("source trees: unique names per directory, relative symlinks that stay inside the tree and point to regular files "
                   "or link-free directories (no dangling links, no cycles), no special files",
                   "file contents are compared through tokens (hex up to 24 bytes, else length + SHA-256 prefix)",
                   "umask 022; theorem domain: destination absent or a directory not containing the source's basename (other destination "
                   "states are exercised and judged, not proved)")

    # ------------------------------------------------------------------------------------------ generation
    def _name(self, rng, used):
        for _ in range(50):
            r = rng.random()
            if r < 0.45:
                n = "".join(rng.choice("abcxyz019_.-") for _ in range(rng.randrange(1, 7)))
            elif r < 0.9:
                n = rng.choice(HOSTILE_NAMES)
                if rng.random() < 0.3:
                    n = n + rng.choice(["", "x", " ", ".txt"]) + str(rng.randrange(10))
            else:
                n = "".join(rng.choice(["a", " ", "'", '"', "-", "é", "$", "\\", "*", ";", "\n", "b"]) for _ in range(rng.randrange(1, 6)))
            if n in ("", ".", "..") or "/" in n or "\0" in n or n in used or len(n.encode()) > 250:
                continue
            used.add(n)
            return n
        n = f"n{len(used)}"
        used.add(n)
        return n

    def _file(self, rng, tier):
        r = rng.random()
        x = rng.random() < 0.4
        if r < 0.2:
            return {"t": "f", "b": "", "x": x}
        if r < 0.75:
            return {"t": "f", "b": bytes(rng.randrange(256) for _ in range(rng.randrange(1, 20))).hex(), "x": x}
        if r < 0.95:
            return {"t": "f", "n": rng.choice([25, 511, 512, 513, 4096, 65535, 65536, 65537, rng.randrange(100, 70000)]),
                    "s": rng.randrange(10**9), "x": x}
        big = 1 << 20 if tier == "thorough" else 200 * 1024
        return {"t": "f", "n": rng.randrange(big // 2, big + 1), "s": rng.randrange(10**9), "x": x}

    def _dir(self, rng, tier, budget, depth):
        used, ch = set(), []
        n = rng.choice([0, 1, 2, 3, 4, 6]) if depth else rng.choice([0, 1, 2, 3, 5, 8, 12])
        for _ in range(n):
            if budget[0] <= 0:
                break
            budget[0] -= 1
            nm = self._name(rng, used)
            if depth < 3 and rng.random() < 0.3:
                ch.append([nm, self._dir(rng, tier, budget, depth + 1)])
            else:
                ch.append([nm, self._file(rng, tier)])
        return {"t": "d", "c": ch}

    def _add_links(self, rng, tree):
        """Relative symlinks (and hard links) to regular files or link-free directories already in the tree."""
        nodes = []

        def walk(t, path):
            if path:
                nodes.append((path, t))
            if t["t"] == "d":
                for n, c in t["c"]:
                    walk(c, path + [n])
        walk(tree, [])
        dirs = [([], tree)] + [(p, t) for p, t in nodes if t["t"] == "d"]
        targets = [(p, t) for p, t in nodes]
        for _ in range(rng.choice([0, 0, 1, 1, 2, 3])):
            if not targets:
                break
            dpath, d = rng.choice(dirs)
            tpath, tnode = rng.choice(targets)
            if tnode["t"] == "l" or (tnode["t"] == "d" and has_link(tnode)):
                continue
            if dpath[:len(tpath)] == tpath:      # the link would live inside its own target
                continue
            used = {n for n, _ in d["c"]}
            nm = self._name(rng, used)
            if tnode["t"] == "f" and rng.random() < 0.25:
                d["c"].append([nm, {"t": "h", "of": tpath}])
                continue
            k = 0
            while k < min(len(dpath), len(tpath) - 1) and dpath[k] == tpath[k]:
                k += 1
            rel = [".."] * (len(dpath) - k) + tpath[k:]
            if rng.random() < 0.15:
                rel = ["."] + rel
            d["c"].append([nm, {"t": "l", "to": "/".join(rel)}])
            # a directory that now contains a link is no longer a legal target, nor are its ancestors
            targets = [(p, t) for p, t in targets if not (t["t"] == "d" and has_link(t))]

    def _add_hard(self, rng, tree):
        """One hard link placed in a sub-directory when there is one, to a regular file of another directory when possible
        (exercises the linkname arithmetic of extract_tar_stream and GNU tar's --strip-components on link targets)."""
        files, dirs = [], []

        def walk(t, path):
            if t["t"] == "d":
                dirs.append((path, t))
                for n, c in t["c"]:
                    walk(c, path + [n])
            elif t["t"] == "f":
                files.append(path)
        walk(tree, [])
        if not files:
            return
        sub = [d for d in dirs if d[0]]
        dpath, d = rng.choice(sub) if sub and rng.random() < 0.8 else rng.choice(dirs)
        other = [f for f in files if f[:-1] != dpath]
        tpath = rng.choice(other) if other and rng.random() < 0.8 else rng.choice(files)
        used = {n for n, _ in d["c"]}
        d["c"].append([self._name(rng, used), {"t": "h", "of": tpath}])

    def _sort(self, t):
        if t["t"] == "d":
            t["c"].sort(key=lambda e: e[0].encode("utf-8", "surrogateescape"))
            for _, c in t["c"]:
                self._sort(c)

    def _tree(self, rng, tier):
        if rng.random() < 0.3:
            return self._file(rng, tier)
        t = self._dir(rng, tier, [rng.choice([3, 8, 15, 30])], 0)
        self._add_links(rng, t)
        if rng.random() < 0.25:
            self._add_hard(rng, t)
        self._sort(t)
        return t

    def _case(self, rng, tier, route=None):
        src, dst = route or rng.choice(list(ROUTES))
        r = rng.random()
        if r < 0.1:
            sname = rng.choice(UNSAFE_ROOTS)
        elif r < 0.2:
            sname = rng.choice(["ünï", "日本.dat", "a.b-c_d", "A+B,c", "x@y%z=1"])
        else:
            sname = "s" + "".join(rng.choice("abcxyz019_.-") for _ in range(rng.randrange(0, 5)))
        r = rng.random()
        if r < 0.45:
            dname = sname
        elif r < 0.5 and shell_safe(sname):
            dname = rng.choice(UNSAFE_ROOTS)
        else:
            dname = "d" + "".join(rng.choice("abcxyz019_.-") for _ in range(rng.randrange(0, 5)))
        dstate = rng.choice(["absent", "absent", "absent", "dir", "dir", "dirpre", "dirpre", "file", "conflict", "copy", "copy", "stale"])
        return {"f": "xfer", "src": src, "dst": dst, "sname": sname, "dname": dname, "dstate": dstate,
                "w": rng.random() < 0.5, "tree": self._tree(rng, tier)}

    def gen(self, rng, tier):
        n = {"quick": 48, "thorough": 800, "extended": 220}[tier]
        cases = []
        # the decision tables, cell by cell, on a small fixed tree and a file
        small = {"t": "d", "c": [["a b", {"t": "f", "b": "00ff", "x": True}], ["e", {"t": "d", "c": []}],
                                 ["l", {"t": "l", "to": "a b"}],
                                 ["sub", {"t": "d", "c": [["k", {"t": "f", "b": "41", "x": False}], ["up", {"t": "l", "to": "../a b"}]]}],
                                 ["z", {"t": "f", "b": "", "x": False}]]}
        fil = {"t": "f", "b": "deadbeef", "x": True}
        hard = {"t": "d", "c": [["f0", {"t": "f", "b": "6869", "x": True}],
                                ["sub", {"t": "d", "c": [["deep", {"t": "d", "c": [["hl2", {"t": "h", "of": ["sub", "g"]}]]}],
                                                         ["g", {"t": "f", "b": "67", "x": False}],
                                                         ["hl", {"t": "h", "of": ["f0"]}]]}]]}
        if tier != "extended":
            for (src, dst) in ROUTES:
                for dstate in ("absent", "dir"):
                    for dname in ("s", "other"):
                        # remote->local is where StreamFlow's own link-name arithmetic runs: always all four cells
                        if rng.random() < (0.4 if tier == "quick" else 1.0) or (src, dst) == ("R1a", "L"):
                            cases.append({"f": "xfer", "src": src, "dst": dst, "sname": "s", "dname": dname, "dstate": dstate,
                                          "w": rng.random() < 0.5, "tree": hard})
            for (src, dst) in ROUTES:
                for tree in (small, fil):
                    for dstate in ("absent", "dir"):
                        for dname in ("s", "other"):
                            if rng.random() < (0.5 if tier == "quick" else 1.0):
                                cases.append({"f": "xfer", "src": src, "dst": dst, "sname": "s", "dname": dname, "dstate": dstate,
                                              "w": rng.random() < 0.5, "tree": tree})
        routes = list(ROUTES)
        for i in range(n):
            cases.append(self._case(rng, tier, routes[i % len(routes)]))
        if tier != "extended":      # destination already holding a file / the other kind / an earlier copy, cell by cell
            for (src, dst) in ROUTES:
                for tree in (small, fil):
                    for dstate in ("file", "conflict", "copy", "stale"):
                        if rng.random() < (0.25 if tier == "quick" else 1.0):
                            cases.append({"f": "xfer", "src": src, "dst": dst, "sname": "s", "dname": rng.choice(["s", "other"]),
                                          "dstate": dstate, "w": rng.random() < 0.5, "tree": tree})
        wl = list(WRAPPED)
        for i in range({"quick": 10, "thorough": 90, "extended": 20}[tier]):
            cases.append(self._case(rng, tier, wl[i % len(wl)]))
        for i in range({"quick": 10, "thorough": 90, "extended": 20}[tier]):
            src, d0, d1 = FANOUT[i % len(FANOUT)]
            c = self._case(rng, tier, (src, d0))
            c["more"] = [d1]
            cases.append(c)
        if tier != "extended":
            for (src, dst) in WRAPPED:
                for tree, dstate, dname in ((small, "absent", "other"), (small, "dir", "s"), (fil, "absent", "s"), (fil, "dir", "other")):
                    if rng.random() < (0.5 if tier == "quick" else 1.0):
                        cases.append({"f": "xfer", "src": src, "dst": dst, "sname": "s", "dname": dname, "dstate": dstate,
                                      "w": rng.random() < 0.5, "tree": tree})
            for (src, d0, d1) in FANOUT:
                for tree, dstate, dname in ((small, "absent", "other"), (small, "dir", "s"), (fil, "absent", "s")):
                    if rng.random() < (0.5 if tier == "quick" else 1.0):
                        cases.append({"f": "xfer", "src": src, "dst": d0, "more": [d1], "sname": "s", "dname": dname, "dstate": dstate,
                                      "w": rng.random() < 0.5, "tree": tree})
        for i in range({"quick": 1, "thorough": 4, "extended": 0}[tier]):
            c = self._case(rng, tier, rng.choice([("L", "R1a"), ("R1a", "L"), ("R1a", "R1a"), ("R1a", "R2a")]))
            c["sname"] = c["dname"] = rng.choice(HANGING_ROOTS)
            cases.append(c)
        return cases

    # ------------------------------------------------------------------------------------------ implementation
    def impl_init(self):
        import asyncio
        import atexit
        import json
        import logging
        import shutil
        import tempfile

        from streamflow.core.data import DataType
        from streamflow.core.deployment import DeploymentConfig, ExecutionLocation
        from streamflow.core.scheduling import AvailableLocation
        from streamflow.deployment.connector import connector_classes
        from streamflow.deployment.connector.base import (BaseConnector, SubprocessStreamReaderWrapperContextManager,
                                                          SubprocessStreamWriterWrapperContextManager)
        from streamflow.main import build_context

        logging.disable(logging.CRITICAL)
        os.umask(0o022)
        self.asyncio, self.DataType, self.DC, self.EL, self.build_context = asyncio, DataType, DeploymentConfig, ExecutionLocation, build_context
        self.scratch = os.path.realpath(tempfile.mkdtemp(prefix="sfv-c22-", dir="/var/tmp"))
        atexit.register(shutil.rmtree, self.scratch, True)
        self.shutil = shutil
        self.n = 0
        os.chdir(self.scratch)

        import shlex as _shlex

        class ShRemote(BaseConnector):
            """A 'remote' deployment reached only through /bin/sh.  Every location has its own file system: its commands run in a
            private mount namespace (unshare -m) in which the directories of `binds` (given per location) are bind-mounted over
            the common path names, so the same path string names different storage on different locations, as on real
            remotes.  run() is BaseConnector.run (persistent sh), stream commands are given to sh -c as one string, as the ssh
            and container connectors do."""

            def __init__(self, deployment_name, config_dir, locations=None, transferBufferSize=2 ** 16):
                super().__init__(deployment_name, config_dir, transferBufferSize)
                self.binds = dict(locations or {})          # location name -> [[storage dir, mount point], ...]
                self.log = []

            def _prefix(self, location):
                return "".join(f"mount --bind {_shlex.quote(a)} {_shlex.quote(b)} && " for a, b in self.binds[location.name])

            async def deploy(self, external):
                pass

            async def get_available_locations(self, service=None):
                return {n: AvailableLocation(name=n, deployment=self.deployment_name, service=service, hostname="localhost",
                                             local=False, slots=1) for n in self.binds}

            @classmethod
            def get_schema(cls):
                return json.dumps({"type": "object", "properties": {"locations": {"type": "object"},
                                                                     "transferBufferSize": {"type": "integer"}}})

            async def _create_shell(self, command, location):
                from streamflow.deployment.connector.base import SubprocessShell
                argv = ["unshare", "-m", "/bin/sh", "-c", self._prefix(location) + "exec " + " ".join(command)]
                process = await asyncio.create_subprocess_exec(*argv, stdin=asyncio.subprocess.PIPE, stdout=asyncio.subprocess.PIPE,
                                                               stderr=asyncio.subprocess.DEVNULL)
                return SubprocessShell(command=argv, buffer_size=self.transferBufferSize, process=process)

            async def get_stream_reader(self, command, location):
                self.log.append(["reader", " ".join(command)])
                return SubprocessStreamReaderWrapperContextManager(coro=asyncio.create_subprocess_exec(
                    "unshare", "-m", "/bin/sh", "-c", self._prefix(location) + "exec " + " ".join(command), stdin=asyncio.subprocess.DEVNULL,
                    stdout=asyncio.subprocess.PIPE, stderr=asyncio.subprocess.DEVNULL))

            async def get_stream_writer(self, command, location):
                self.log.append(["writer", " ".join(command)])
                return SubprocessStreamWriterWrapperContextManager(coro=asyncio.create_subprocess_exec(
                    "unshare", "-m", "/bin/sh", "-c", self._prefix(location) + " ".join(command), stdin=asyncio.subprocess.PIPE,
                    stdout=asyncio.subprocess.DEVNULL, stderr=asyncio.subprocess.DEVNULL))

            async def run(self, location, command, **kw):
                self.log.append(["run", " ".join(command)])
                return await super().run(location, command, **kw)

        connector_classes["c22sh"] = ShRemote

    def _build(self, root: bytes, t, top: bytes, later):
        k = t["t"]
        if k == "f":
            with open(root, "wb") as f:
                f.write(content(t))
            os.chmod(root, 0o755 if t["x"] else 0o644)
        elif k == "d":
            os.mkdir(root)
            for n, c in t["c"]:
                self._build(os.path.join(root, n.encode("utf-8", "surrogateescape")), c, top, later)
        elif k == "l":
            os.symlink(t["to"].encode("utf-8", "surrogateescape"), root)
        elif k == "h":
            later.append((os.path.join(top, *[p.encode("utf-8", "surrogateescape") for p in t["of"]]), root))

    def _snap(self, p: bytes, srcpath: bytes):
        import stat
        try:
            st = os.lstat(p)
        except (FileNotFoundError, NotADirectoryError):
            return None
        if stat.S_ISLNK(st.st_mode):
            to = os.readlink(p)
            return {"t": "l", "to": "$SRC" if to == srcpath else to.decode("utf-8", "surrogateescape").replace(self.scratch, "$")}
        if stat.S_ISDIR(st.st_mode):
            return {"t": "d", "c": [[n.decode("utf-8", "surrogateescape"), self._snap(os.path.join(p, n), srcpath)]
                                    for n in sorted(os.listdir(p))]}
        if stat.S_ISREG(st.st_mode):
            with open(p, "rb") as f:
                return {"t": "f", "c": ctok(f.read()), "x": bool(st.st_mode & 0o100)}
        return {"t": "other"}

    def _follow(self, p: bytes, depth=0):
        """What a reader of p sees: symlinks followed by the OS."""
        import stat
        try:
            st = os.stat(p)
        except OSError:
            return {"t": "unresolved"} if os.path.lexists(p) else None
        if stat.S_ISDIR(st.st_mode):
            if depth > 12:
                return {"t": "unresolved"}
            return {"t": "d", "c": [[n.decode("utf-8", "surrogateescape"), self._follow(os.path.join(p, n), depth + 1)]
                                    for n in sorted(os.listdir(p))]}
        if stat.S_ISREG(st.st_mode):
            with open(p, "rb") as f:
                return {"t": "f", "c": ctok(f.read()), "x": bool(st.st_mode & 0o100)}
        return {"t": "other"}

    def impl_run(self, c):
        safe = shell_safe(c["sname"]) and shell_safe(c["dname"])
        if not safe:
            # unsafe roots (known finding class) may leave the persistent shell waiting for ever: do not wait long for those
            return self.asyncio.run(self._run(c, 6))
        o = self.asyncio.run(self._run(c, 40, 240))
        if o["err"] == "slow":          # no verdict: once more
            o = self.asyncio.run(self._run(c, 60, 400))
            o["retried"] = True
        return o

    async def _stalled(self, task, cap):
        """'done' | 'hang' | 'slow' for a transfer that did not finish within its first budget."""
        import time

        import psutil
        me = psutil.Process()

        def sample():
            tot, runnable = 0.0, False
            try:
                kids = me.children(recursive=True)
            except psutil.Error:
                kids = []
            for p in kids:
                try:
                    t = p.cpu_times()
                    tot += t.user + t.system
                    if p.status() in (psutil.STATUS_RUNNING, psutil.STATUS_DISK_SLEEP):
                        runnable = True
                except psutil.Error:
                    pass
            t = me.cpu_times()
            return tot, t.user + t.system, runnable
        idle, t0 = 0, time.time()
        kid0, self0, _ = sample()
        while time.time() - t0 < cap:
            await self.asyncio.wait([task], timeout=1.0)
            if task.done():
                return "done"
            kid1, self1, runnable = sample()
            busy = runnable or kid1 - kid0 > 0.005 or self1 - self0 > 0.25
            kid0, self0 = kid1, self1
            idle = 0 if busy else idle + 1
            if idle >= 6:
                return "hang"
        return "slow"

    def _phys(self, base, kind, logical: str) -> str:
        """Host path of the storage behind a logical path of location `kind` (L: the path itself)."""
        if kind == "L":
            return logical
        for stor, mnt in self._binds(base)[kind]:
            if logical == mnt or logical.startswith(mnt + "/"):
                return stor + logical[len(mnt):]
        return logical

    def _binds(self, base):
        f = lambda k, d: os.path.join(base, "fs-" + k, d)
        S, D = os.path.join(base, "S"), os.path.join(base, "D")
        return {"R1a": [[f("R1a", "S"), S], [f("R1a", "D"), D], [f("R1a", "M"), os.path.join(base, "M")]],
                "R1b": [[f("R1b", "S"), S], [f("R1b", "D"), D]],
                "R2a": [[f("R2a", "S"), S], [f("R2a", "D"), D]],
                # the wrapped location: its own source area, and the inner location's M mounted as its D
                "W": [[f("W", "S"), S], [f("R1a", "M"), D]]}

    def _snap_at(self, base, kind, logical: str, src: str):
        return self._snap(self._phys(base, kind, logical).encode("utf-8", "surrogateescape"), src.encode("utf-8", "surrogateescape"))

    def _follow_at(self, base, kind, logical: str, depth=0):
        """What a reader on location `kind` sees at `logical`: symbolic links followed inside that location's file system."""
        import stat
        if depth > 40:
            return {"t": "unresolved"}
        p = self._phys(base, kind, logical).encode("utf-8", "surrogateescape")
        try:
            st = os.lstat(p)
        except OSError:
            return None
        if stat.S_ISLNK(st.st_mode):
            to = os.readlink(p).decode("utf-8", "surrogateescape")
            tgt = os.path.normpath(to if to.startswith("/") else os.path.join(os.path.dirname(logical), to))
            r = self._follow_at(base, kind, tgt, depth + 1)
            return {"t": "unresolved"} if r is None else r
        if stat.S_ISDIR(st.st_mode):
            return {"t": "d", "c": [[n.decode("utf-8", "surrogateescape"),
                                    self._follow_at(base, kind, os.path.join(logical, n.decode("utf-8", "surrogateescape")), depth + 1)]
                                   for n in sorted(os.listdir(p))]}
        if stat.S_ISREG(st.st_mode):
            with open(p, "rb") as f:
                return {"t": "f", "c": ctok(f.read()), "x": bool(st.st_mode & 0o100)}
        return {"t": "other"}

    async def _run(self, c, budget, cap=None):
        asyncio = self.asyncio
        self.n += 1
        base = os.path.join(self.scratch, f"c{self.n}")
        os.makedirs(base)
        os.chdir(base)        # whatever a mangled command line drops in the working directory stays in the scratch area
        binds = self._binds(base)
        for k, bl in binds.items():
            for stor, mnt in bl:
                os.makedirs(stor, exist_ok=True)
                os.makedirs(mnt, exist_ok=True)
        ctx = self.build_context({"database": {"type": "default", "config": {"connection": ":memory:"}}, "path": base})
        dm = ctx.deployment_manager
        await dm.deploy(self.DC(name="__LOCAL__", type="local", config={}, external=True, lazy=False, workdir=base))
        await dm.deploy(self.DC(name="r1", type="c22sh", config={"locations": {"a": binds["R1a"], "b": binds["R1b"]}},
                                external=False, lazy=False, workdir=base))
        await dm.deploy(self.DC(name="r2", type="c22sh", config={"locations": {"a": binds["R2a"]}}, external=False, lazy=False,
                                workdir=base))
        await dm.deploy(self.DC(name="w1", type="c22sh", config={"locations": {"wa": binds["W"]}}, external=False, lazy=False,
                                workdir=base))
        locs = {"L": self.EL(name="__LOCAL__", deployment="__LOCAL__", local=True), "R1a": self.EL(name="a", deployment="r1"),
                "R1b": self.EL(name="b", deployment="r1"), "R2a": self.EL(name="a", deployment="r2")}
        # a location of deployment w1 that wraps r1/a: what it sees at <base>/D is r1/a's <base>/M
        locs["W"] = self.EL(name="wa", deployment="w1", wraps=locs["R1a"], mounts={os.path.join(base, "D"): os.path.join(base, "M")})
        dkinds = [c["dst"]] + list(c.get("more", []))
        src, dst = os.path.join(base, "S", c["sname"]), os.path.join(base, "D", c["dname"])
        srcp = self._phys(base, c["src"], src).encode("utf-8", "surrogateescape")
        later = []
        self._build(srcp, c["tree"], srcp, later)
        for a, b in later:
            os.link(a, b)
        pre = pre_state(c)
        for k in dkinds:
            if pre is not None:
                dp = self._phys(base, k, dst).encode("utf-8", "surrogateescape")
                self._build(dp, pre, dp, [])
        sl = locs[c["src"]]
        ctx.data_manager.register_path(location=sl, path=src, relpath=src, data_type=self.DataType.PRIMARY)
        out = {"err": None}
        task = asyncio.ensure_future(ctx.data_manager.transfer_data(src_location=sl, src_path=src, dst_locations=[locs[k] for k in dkinds],
                                                                    dst_path=dst, writable=c["w"]))
        done, _ = await asyncio.wait([task], timeout=budget)
        if not done:
            # not finished in time: a wall-clock limit decides nothing.  Look at the processes: if for several seconds nothing
            # is runnable and no CPU time is used anywhere, the transfer is blocked for good ("hang", a verdict); while
            # anything still makes progress keep waiting, and past a hard cap give up without a verdict ("slow").
            verdict = await self._stalled(task, cap) if cap else "timeout"
            if verdict != "done":
                out["err"] = verdict
                task.cancel()
                await asyncio.wait([task], timeout=5)
        if out["err"] is None:
            try:
                task.result()
            except asyncio.CancelledError:
                out["err"] = "CancelledError"
            except Exception as e:  # noqa
                out["err"] = type(e).__name__
                out["msg"] = str(e).replace(self.scratch, "$")[:300]
        inner = os.path.join(dst, c["sname"])

        def observe(k):
            dl = locs[k]
            d = {"dst": self._snap_at(base, k, dst, src)}
            reg = []
            for label, p in (("dst", dst), ("dst/s", inner)):
                try:
                    ls = ctx.data_manager.get_data_locations(path=p, deployment=dl.deployment, location_name=dl.name)
                except Exception:  # noqa
                    ls = []
                for ty in sorted({l.data_type.name + ("" if l.available.is_set() else ":unavailable") for l in ls if l.path == p}):
                    reg.append(f"{label}:{ty}")
            d["reg"] = reg
            d["seen"] = {"dst": self._follow_at(base, k, dst), "dst/s": self._follow_at(base, k, inner)}
            if k == "W":      # what the registry says about the inner location's view of the same data
                ireg = []
                for label, p in (("dst", dst), ("dst/s", inner)):
                    ip = p.replace(os.path.join(base, "D"), os.path.join(base, "M"), 1)
                    try:
                        ls = ctx.data_manager.get_data_locations(path=ip, deployment="r1", location_name="a")
                    except Exception:  # noqa
                        ls = []
                    if any(l.path == ip for l in ls):
                        ireg.append(label)
                d["inner_reg"] = ireg
            return d
        out.update(observe(dkinds[0]))
        out["more"] = [observe(k) for k in dkinds[1:]]
        out["src"] = self._snap_at(base, c["src"], src, src)
        out["cmds"] = [[k, s.replace(self.scratch, "$")] for d in ("r1", "r2", "w1") for (k, s) in dm.get_connector(d).log]
        try:
            await asyncio.wait_for(dm.undeploy_all(), 8 if out["err"] not in ("timeout", "hang", "slow") else 2)
        except Exception:  # noqa
            pass
        os.chdir(self.scratch)
        try:
            import psutil
            for ch in psutil.Process().children(recursive=True):
                ch.kill()
        except Exception:  # noqa
            pass
        self.shutil.rmtree(base, True)
        return out

    # ------------------------------------------------------------------------------------------ oracle (property text)
    def _expected_place(self, c):
        return "dst" if c["dstate"] in ("absent", "file") else "dst/s"

    def _dests(self, c, o):
        return [(c["dst"], o)] + list(zip(c.get("more", []), o.get("more", [])))

    def _judge(self, c, o, k, od):
        want = resolve(canon_in(c["tree"]))
        place = self._expected_place(c)
        got = od["seen"][place]
        if got != want:
            other = "dst/s" if place == "dst" else "dst"
            where = f" (it is at {other} instead)" if od["seen"].get(other) == want else ""
            return ("content", f"on {k}: tree read at {place} differs from the source{where}: got {str(got)[:200]} want {str(want)[:200]}")
        top = od["dst"] if place == "dst" else next((x for n, x in (od["dst"] or {}).get("c", []) if n == c["sname"]), None)
        if c["w"] and top is not None and top["t"] == "l":
            return ("writable-link", f"on {k}: a writable transfer produced a symbolic link to the source")
        if not any(r.startswith(place + ":") and not r.endswith(":unavailable") for r in od["reg"]):
            return ("not-registered", f"on {k}: destination {place} is not registered as an available copy on the destination "
                                      f"location: {od['reg']}")
        for r in od["reg"]:
            label = r.split(":")[0]
            if od["seen"].get(label) is None:
                return ("registered-missing", f"on {k}: {label} is registered as a copy on the destination location but nothing exists "
                                              f"there: {od['reg']}")
        if c["dstate"] == "dirpre":
            keep = next((x for n, x in (od["dst"] or {}).get("c", []) if n == "zz keep"), None)
            if keep != {"t": "f", "c": ctok(b"keep"), "x": False}:
                return ("frame", f"on {k}: an unrelated entry of the existing destination directory was changed")
        return None

    def _first_failure(self, c, o):
        if o["err"] == "slow":
            return None         # the machine was too loaded to finish this case twice: no verdict
        if o["err"] == "hang":
            return (c["dst"], ("transfer-hangs", "transfer_data is blocked for good: no process runnable, no CPU time used for 6 s"))
        if o["err"]:
            if kind_conflict(c) and o["err"] != "timeout":
                return None     # a file where a directory has to go (or the reverse): refusing loudly is no loss of exactness
            return (c["dst"], ("transfer-fails", f"transfer_data raised {o['err']}: {o.get('msg', '')}"))
        if o["src"] != canon_in(c["tree"]):
            return (c["dst"], ("source-modified", "the source tree changed during the transfer"))
        for k, od in self._dests(c, o):
            v = self._judge(c, o, k, od)
            if v:
                return (k, v)
        return None

    def oracle(self, c, o):
        if "crash" in o or "hang" in o:
            return ("crash", f"harness/implementation crashed or hung: {str(o)[:300]}")
        f = self._first_failure(c, o)
        return f[1] if f else None

    def _root_class(self, c):
        return "safe-root" if shell_safe(c["sname"]) and shell_safe(c["dname"]) else "unsafe-root"

    def signature(self, c, o, clause):
        kind = "file" if c["tree"]["t"] == "f" else "dir"
        ren = "rename" if c["sname"] != c["dname"] else "same"
        d = {"absent": "absent", "dir": "dir", "dirpre": "dir"}.get(c["dstate"], c["dstate"])
        k = c["dst"]
        if "crash" not in o and "hang" not in o:
            f = self._first_failure(c, o)
            if f:
                k = f[0]
        route = ALLROUTES[(c["src"], k)]
        if self._root_class(c) == "unsafe-root" and route != "LL":
            return f"xfer/{route}/unsafe-root"
        if c["dstate"] in ("file", "conflict", "copy", "stale"):
            # destination already holding something at the place: one class per route, source kind, state and mode
            if kind_conflict(c) and clause == "content":
                clause = "silent-conflict"
            return f"xfer/{clause}/{route}/{kind}/{d}/{'w' if c['w'] else 'ro'}"
        x = ""
        if clause == "content" and kind == "file":
            x = "/exec" if c["tree"]["x"] else "/noexec"
        return f"xfer/{clause}/{route}/{kind}/{d}/{ren}/{'w' if c['w'] else 'ro'}{x}"

    # ------------------------------------------------------------------------------------------ model side
    def _coq_tree(self, t):
        if t is None:
            return None
        k = t["t"]
        if k == "f":
            return f"(File {coq_str(t['c'])} {coq_bool(t['x'])})"
        if k == "l":
            return f"(Link {coq_str(t['to'])})"
        if k == "d":
            items = []
            for n, ch in t["c"]:
                s = self._coq_tree(ch)
                if s is None:
                    return None
                items.append(f"({coq_str(n)}, {s})")
            return "(Dir " + coq_list(items) + ")"
        return None

    def coq_case(self, c, o):
        if "crash" in o or "hang" in o or o.get("err") in ("slow", "hang"):
            return None
        terms = []
        for k, od in self._dests(c, o):
            route = ALLROUTES[(c["src"], k)]
            if self._root_class(c) != "safe-root" and route != "LL":
                return None          # the model takes command lines as reaching their tools verbatim
            t = self._coq_tree(canon_in(c["tree"]))
            if od["dst"] is None:
                odst = "None"
            else:
                x = self._coq_tree(od["dst"])
                if x is None:
                    return None
                odst = f"(Some {x})"
            if kind_conflict(c) and route != "RL":
                return None          # outside the model's domain (FsTree.Cells.fits): GNU tar carries on, cp/ln refuse
            # remote->local kind conflicts ARE compared: r2l_chk models Python's errors and what was written before them
            if route == "RRsame" and c["w"] and c["dstate"] in ("file", "stale"):
                return None          # cp without -p keeps the mode of a regular file it overwrites: not modelled
            if route == "RRsame" and c["w"] and c["dstate"] == "copy" and has_link(c["tree"]):
                return None          # cp -r will not put a symbolic link over the directory an earlier (dereferenced) copy has there
            ps = pre_state(c)
            pre = "None" if ps is None else f"(Some {self._coq_tree(canon_in(ps))})"
            regl = od["reg"]
            if route == "RRsame" and k == "W" and c["tree"]["t"] == "d" and c["dstate"] == "absent" \
                    and regl == ["dst:PRIMARY", "dst/s:PRIMARY"]:
                # race in transfer_data (known finding registered-missing): on a wrapped location `ln -snf` / `cp -rf` (the
                # location's shell) and the `test -d dst` of is_dir (the inner location's shell) run concurrently; when the copy
                # wins, dst already is (a link to) a directory and dst/s gets registered.  Both outcomes are the code's; only
                # the tree is compared in this cell.
                regl = ["dst:PRIMARY"] if c["w"] else ["dst:SYMBOLIC_LINK"]
            reg = coq_list([coq_str(r) for r in regl])
            terms.append(f"(CXfer {route} {coq_bool(c['w'])} {pre} {coq_str(c['sname'])} {coq_str(c['dname'])} {t} "
                         f"{coq_bool(bool(o['err']))} {odst} {reg})")
        term = terms[0]
        for x in terms[1:]:
            term = f"(CBoth {term} {x})"
        return term

    def nontrivial(self, c):
        t = c["tree"]
        return (t["t"] == "d" and len(t["c"]) >= 2) or has_link(t) or (t["t"] == "f" and ("n" in t or t["b"] != "")) \
            or not all(ch in SAFE for ch in c["sname"] + c["dname"])

    def _valid(self, cand):
        if "unresolved" in str(resolve(canon_in_safe(cand))):
            return False
        for x in self._nodes(cand):
            if x["t"] == "h":
                tgt = _lookup(cand, x["of"])
                if tgt is None or tgt["t"] != "f":
                    return False
        return True

    def shrink(self, c):
        t = c["tree"]
        if c["dstate"] == "dirpre":
            yield {**c, "dstate": "dir"}
        if t["t"] == "d":
            for i in range(len(t["c"])):
                cand = {"t": "d", "c": t["c"][:i] + t["c"][i + 1:]}
                if self._valid(cand):
                    yield {**c, "tree": cand}
            for i, (n, ch) in enumerate(t["c"]):
                if ch["t"] == "d" and ch["c"]:
                    for j in range(len(ch["c"])):
                        sub = {"t": "d", "c": ch["c"][:j] + ch["c"][j + 1:]}
                        cand = {"t": "d", "c": t["c"][:i] + [[n, sub]] + t["c"][i + 1:]}
                        if self._valid(cand):
                            yield {**c, "tree": cand}
                if ch["t"] == "f" and ("n" in ch or len(ch.get("b", "")) > 2):
                    cand = {"t": "d", "c": t["c"][:i] + [[n, {"t": "f", "b": "41", "x": ch["x"]}]] + t["c"][i + 1:]}
                    yield {**c, "tree": cand}
        elif t["t"] == "f" and ("n" in t or len(t.get("b", "")) > 2):
            yield {**c, "tree": {"t": "f", "b": "41", "x": t["x"]}}

    def _nodes(self, t):
        yield t
        if t["t"] == "d":
            for _, ch in t["c"]:
                yield from self._nodes(ch)


PROP = C22()
