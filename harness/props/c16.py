"""C16 — Recovered runs produce the same outputs as failure-free runs."""
from harness.lib.framework import Prop, coq_bool, coq_list, coq_nat, coq_opt, coq_str, coq_Z
from harness.props._recov_shapes import dag_out, denote, predict_demand, step_names

PHASES = ["schedule", "transfer", "execute"]


def coq_cval(v):
    if isinstance(v, bool):
        return None
    if isinstance(v, int):
        return f"(VN {coq_Z(v)})"
    if isinstance(v, str):
        return f"(VS {coq_str(v)})"
    if isinstance(v, list):
        xs = [coq_cval(x) for x in v]
        return None if any(x is None for x in xs) else f"(VL {coq_list(xs)})"
    return None


def solo_jobs(shape):
    """jobs that never run concurrently with another job of the workflow"""
    k = shape["kind"]
    if k == "pipeline":
        return [(f"/s{i}", "0") for i in range(shape["n"])]
    if k == "scatter":
        return ([(f"/a{i}", "0") for i in range(shape["pre"])] + [("/sp", "0"), ("/g", "0")]
                + [(f"/c{i}", "0") for i in range(shape["post"])])
    if k == "loop":
        # body and cnt of one iteration run side by side: only the pre/post jobs are alone
        return [(f"/a{i}", "0") for i in range(shape["pre"])] + [(f"/c{i}", "0") for i in range(shape["post"])]
    return [("/root", "0"), ("/join", "0")]


class C16(Prop):
    ID = "C16"
    PROPS_FILE = "Props/C16.v"
    CORR_MODULE = "Recovery.Corr"
    LEVEL = "proof"
    LEVEL_TEXT = (
        "Theorems (Coq, closed under the global context) over a job-DAG model of rollback recovery (one value per job, "
        "deterministic job functions, histories of executions and data losses). C16_same_outputs_partial: in that model every "
        "existing output equals the failure-free output for every DAG and history -- true by construction of the model (stale, "
        "duplicated or wrongly tagged tokens and _inject_tokens / build_graph / restore / InterWorkflowPort are not "
        "expressible in it), so SAFETY ON THE CODE rests on the per-run replay: the check replays the history the real engine "
        "produced (Recovery/Corr.v run_checked: every completed execution must be enabled in the model) and compares the "
        "delivered output with the model's store and the failure-free denotation, plus the oracle from the property text. "
        "The failure-free run is total and a fixpoint of the job functions. LIVENESS partially: the canonical rollback from "
        "any reachable state yields the failure-free output and only adds values (C16_rollback_completes_partial); with the "
        "retry budget (C16_completes_partial): for every history of failures whose rollback sets are closed and in which "
        "each job's first execution plus the re-executions demanded of it -- by its own failures and by its consumers' -- "
        "stay within the limit, no rollback is refused, every rollback restores its failed job's output, versions are exactly "
        "1 + demand and the store agrees with the failure-free run; the budget is tight (C16_budget_is_tight), the budget "
        "counter is Retry/Model.v's (C16_budget_matches_retry_counter); C16_completes_refuted refutes the text's completion "
        "clause as stated. Engine runs: pipelines 1..5, loops 0..6 (and 11..12) iterations, scatter/gather width 1..12 depth "
        "1..2, diamonds 2..4; primitive, file and two-path file data; schedule/transfer/execute faults, soft, fail-stop and "
        "partial loss, counts 1..3, several jobs.")
    LEVEL_NOTE = (
        "Partial. (1) The safety theorem is about the model only (see level text); on the code it is differential replay + "
        "oracle per run. (2) Liveness: closedness of the engine's real rollback sets is C18; concurrency of recoveries is not "
        "modelled (C19); Recovery/Budget.v has no correspondence leg of its own -- its counter semantics is proved equal to "
        "Retry/Model.v's synchronize on duplicate-free non-recovering request lists (granted atomically vs. incrementing as it "
        "goes differ only after a refusal, when the run is aborted), and Retry/Model.v is tied to the code by C17's "
        "correspondence; the oracle's over/within budget label is computed by a Python re-implementation of the canonical "
        "demand (predict_demand), not by the Coq definition. (3) Data transfer, Step.restore and the provenance-graph search "
        "are abstracted. Trusted: Coq kernel + vm_compute, Recovery/Model.v, the harness (fault-injecting Step/Command "
        "subclasses, recording shims), asyncio, SQLite, local filesystem. No axioms.")
    TECHNIQUE = ("Coq proof (store invariant 'agrees with the failure-free fixpoint' over all histories; strong induction "
                 "for the rollback) + vm_compute replay of real engine histories in the model")
    RULE = ("shapes: pipeline n in 1..5, loop (0..6 iterations, counter + body job per iteration, pre/post 0..1), scatter (pre 0..1, "
            "width 1..12, depth 1..2, post 0..1), diamond 2..4 branches; data "
            "type file or primitive; 1..4 faulty jobs, each (phase, kind, count 1..3); fail-stop only on jobs that run alone "
            "(with concurrent siblings the organically failing set depends on I/O timing: C19) and, when a fail-stop fault is present, no "
            "faults on jobs with concurrent siblings; limit = max count + 1 + slack, "
            "slack in {0,1,2,20}; seeded permuting event loop on half the cases. Non-trivial = at least one fault. Distinct = "
            "distinct canonical JSON. inject: 0..8 tokens of one port with tags around 9/10/11/99/100 at one or two depths, random "
            "availability, mapper order shuffled, through the real _inject_tokens with a stub mapper.")
    TRUSTED = ("model: Recovery/Model.v (job DAG, store, execution/loss events, canonical rollback) is hand-written",
               "harness/props/_recov.py + _recov_shapes.py: workflow builders, deterministic job functions (mirrored by "
               "Recovery/Corr.v:apply_op), failure injection, recording shims",
               "asyncio, SQLite, the local connector and the filesystem are exercised, not modelled")
    ASSUMPTIONS = ("job functions are deterministic functions of their inputs' values",
                   "a fail-stop failure loses every file below the deployment's working directory and nothing else; "
                   "non-file token values are never lost",
                   "which jobs a rollback re-executes is not constrained by the model (any history)")
    MAX_WORKERS = 8
    CASE_TIMEOUT = 200
    SHARD_TIMEOUT = 900
    COQ_SHARD = 20

    # ---------------------------------------------------------------- generation
    def _shape(self, rng, tier):
        r = rng.random()
        typ = rng.choice(["file", "file", "primitive"])
        if r < 0.3:
            return {"kind": "pipeline", "type": rng.choice([typ, "file2"]), "n": rng.randrange(1, 6)}
        if r < 0.5:
            it = rng.randrange(0, 7)
            return {"kind": "loop", "type": typ, "pre": rng.randrange(0, 2), "iters": it,
                    "post": rng.randrange(0, 2) if it > 0 else 0}
        if r < 0.8:
            return {"kind": "scatter", "type": typ, "pre": rng.randrange(0, 2),
                    "width": rng.choice([1, 2, 3, 4, 6, 10, 12]) if tier != "quick" else rng.choice([1, 2, 3, 5, 11, 12]),
                    "depth": rng.randrange(1, 3), "post": rng.randrange(0, 2)}
        return {"kind": "diamond", "type": typ, "branches": rng.randrange(2, 5)}

    def gen(self, rng, tier):
        n = {"quick": 44, "thorough": 900, "extended": 200}[tier]
        cases = []
        for i in range(n):
            shape = self._shape(rng, tier)
            jobs = [(s, t) for s, tags in step_names(shape) for t in tags]
            solo = solo_jobs(shape)
            faults = []
            if i % 11 != 0:  # every 11th: failure-free (validates the denotation against the real engine)
                for st, tag in rng.sample(jobs, min(len(jobs), rng.choice([1, 1, 2, 2, 3, 4]))):
                    kind = rng.choice(["soft", "failstop"]) if (st, tag) in solo else "soft"
                    if shape["type"] == "file2":
                        # at most one partial loss (only the secondary files disappear) per case, the other faults soft
                        kind = "partial" if not faults and rng.random() < 0.7 else "soft"
                    # /join has one transfer step per input port: a loss during its transfer phase makes the sibling
                    # transfer steps fail too and start concurrent recoveries of the SAME job (timing dependent, C19)
                    phases = [p for p in PHASES if not (st == "/join" and kind == "failstop" and p == "transfer")]
                    ph = rng.choice(phases)
                    faults.append([st, tag, ph, kind, rng.choice([1, 1, 2, 3])])
                    if rng.random() < 0.2:   # the same job also fails in another phase
                        faults.append([st, tag, rng.choice([p for p in phases if p != ph]), kind, 1])
            if any(f[3] in ("failstop", "partial") for f in faults):
                # a loss makes the recovery re-run the concurrent jobs side by side; if those fail too, several recoveries
                # overlap and the outcome depends on timing (property C19): keep only the faults of jobs that run alone
                conc = "/cnt" if shape["kind"] == "loop" else None
                faults = [f for f in faults if ((f[0], f[1]) in solo if conc is None else f[0] != conc)]
            tot = {}
            for f in faults:
                tot[(f[0], f[1])] = tot.get((f[0], f[1]), 0) + f[4]
            mx = max(tot.values(), default=0)
            slack = rng.choice([0, 1, 2, 20, 20])
            cases.append({"f": "run", "manager": "rollback", "limit": mx + 1 + slack, "slack": slack, "shape": shape,
                          "faults": faults, "sched": rng.randrange(1 << 30) if rng.random() < 0.5 else None})
        # loops with two-digit iteration indexes: a failure (with or without loss) at iteration 9, 10 or 11, whose rollback
        # spans tags 0.9 / 0.10 / 0.11 (beyond the 0..6 iterations of the property's quantifier; added after the
        # lexicographic-order defect fixed in /repo, see known/C16.txt)
        for _ in range({"quick": 3, "thorough": 40, "extended": 10}[tier]):
            it = rng.choice([11, 12, 12])
            tag = f"0.{rng.choice([9, 10, 10, it - 1])}"
            shape = {"kind": "loop", "type": "file", "pre": rng.randrange(0, 2), "iters": it, "post": 0}
            cases.append({"f": "run", "manager": "rollback", "limit": 22, "slack": 20, "shape": shape,
                          "faults": [["/body", tag, rng.choice(PHASES), rng.choice(["soft", "failstop", "failstop"]), 1]],
                          "sched": rng.randrange(1 << 30) if rng.random() < 0.5 else None})
        # a scatter element that fails LAST (after all its siblings completed) with loss of data: its own rollback, then the
        # consumer of the gather discovers the siblings' outputs are gone and rolls the scatter back for the other elements
        # (two sequential recoveries restoring complementary sets of element tags, multi-digit indexes included)
        for i in range({"quick": 6, "thorough": 100, "extended": 30}[tier]):
            w = rng.choice([11, 12, 12, 12, rng.randrange(2, 13)])
            e = rng.choice([x for x in (1, 10, 11, 0, 2, rng.randrange(0, w)) if x < w])
            if i < 2:   # always present: the element whose tag "0.1" is a textual prefix of "0.10"/"0.11"
                w, e = 12 - i, 1
            shape = {"kind": "scatter", "type": "file", "pre": rng.randrange(0, 2), "width": w, "depth": 1, "post": 1}
            cases.append({"f": "run", "manager": "rollback", "limit": 22, "slack": 20, "shape": shape,
                          "faults": [["/b0", f"0.{e}", "execute", "failstop", 1]],
                          "last": {"jobs": [f"/b0/0.{e}"], "prefix": "/b0/", "need": w - 1},
                          "sched": rng.randrange(1 << 30) if rng.random() < 0.5 else None})
        # function level: the real _inject_tokens on one port with a stub mapper -- order of the injected tokens
        for _ in range({"quick": 60, "thorough": 600, "extended": 200}[tier]):
            base = rng.choice(["0", "0", "0.1", "0.10"])
            n = rng.randrange(0, 9)
            tags = []
            for _k in range(n):
                r = rng.random()
                comp = rng.choice([0, 1, 2, 8, 9, 10, 11, 12, 19, 20, 99, 100, rng.randrange(0, 13)])
                tags.append(base if r < 0.1 else f"{base}.{comp}" if r < 0.85 else f"{base}.{comp}.{rng.randrange(0, 12)}")
            if tags and rng.random() < 0.85:   # mostly distinct tags (a duplicate among available tokens raises)
                tags = list(dict.fromkeys(tags))
            rng.shuffle(tags)
            cases.append({"f": "inject", "toks": [[i + 1, t, rng.random() < 0.75] for i, t in enumerate(tags)]})
        return cases

    # ---------------------------------------------------------------- implementation
    def impl_init(self):
        from harness.props import _recov
        self.R = _recov

    def _run_inject(self, c):
        import asyncio
        from types import SimpleNamespace

        from streamflow.core.exception import FailureHandlingException
        from streamflow.core.workflow import Token
        from streamflow.recovery.failure_manager import _inject_tokens

        class Rec:   # a plain port: only the order of put() matters here (boundary rules concern InterWorkflowPorts)
            def __init__(self):
                self.name, self.got = "p", []

            def put(self, t):
                self.got.append(t)

        port = Rec()
        toks = {i: Token(value=i, tag=t) for i, t, _a in c["toks"]}
        mapper = SimpleNamespace(port_tokens={"p": [i for i, _t, _a in c["toks"]]}, token_instances=toks,
                                 token_availability={i: a for i, _t, a in c["toks"]})
        step = SimpleNamespace(output_ports={})
        try:
            asyncio.run(_inject_tokens(failed_job=None, failed_step=step, mapper=mapper,
                                       workflow=SimpleNamespace(ports={"p": port})))
        except FailureHandlingException:
            return {"err": "FailureHandlingException"}
        return {"order": [t.value for t in port.got]}

    def impl_run(self, c):
        if c["f"] == "inject":
            return self._run_inject(c)
        return self.R.run_engine(c)

    # ---------------------------------------------------------------- oracle (from the property text)
    def _cause(self, c, o):
        lim = c["limit"]
        planned = {}
        for st, tag, ph, kind, cnt in c["faults"]:
            planned[f"{st}/{tag}"] = planned.get(f"{st}/{tag}", 0) + cnt
        raising = [e[2] for e in o["trace"] if e[0] == "update" and e[4] == "raise"]
        if not raising:
            return "not-completed-other"
        j = raising[0]
        own = sum(1 for e in o["trace"] if e[0] == "recover" and e[1] == j)
        if own < lim:
            return "rollbacks-exhaust-limit"       # counter used up by re-executions as a producer
        if planned.get(j, 0) < lim:
            return "secondary-failures-exhaust-limit"  # the job failed more often than failures were injected
        return "not-completed-other"

    def oracle(self, c, o):
        if "crash" in o:
            return ("crash", f"harness/implementation crashed: {o.get('exc')} {str(o.get('stderr'))[-300:]}")
        if "hang" in o:
            return ("hang", "the run neither completed nor raised within the time limit")
        if c["f"] == "inject":
            # a recovered run can only reproduce the failure-free outputs if the steps of the recovery workflow see the
            # regenerated inputs in the order of a failure-free run: numeric tag order, available tokens only, each once
            av = [(i, t) for i, t, a in c["toks"] if a]
            dup = len({t for _i, t in av}) != len(av)
            if "err" in o:
                return None if dup else ("inject-raises", f"_inject_tokens raised for distinct tags {av}")
            want = [i for i, t in sorted(av, key=lambda it: (it[1].count("."), [int(x) for x in it[1].split(".")]))]
            if not dup and o["order"] != want:
                return ("inject-order", f"tokens {av} injected as {o['order']}, numeric tag order is {want}")
            if dup and sorted(o["order"]) == sorted(i for i, _t in av):
                return ("inject-duplicate-tag", f"two available tokens with the same tag were both injected: {av}")
            return None
        # every job fails fewer times than the limit (by construction of the case): the run must complete ...
        tot = {}
        for f in c["faults"]:
            tot[(f[0], f[1])] = tot.get((f[0], f[1]), 0) + f[4]
        assert all(v < c["limit"] for v in tot.values())
        if o["result"] != "completed":
            return (self._cause(c, o), f"each job fails fewer than {c['limit']} times ({c['faults']}) but the run ended "
                                       f"with {o['result']}; versions {o.get('versions')}")
        # ... and its outputs equal those of the failure-free run
        want = denote(c["shape"])
        toks = o["out_tokens"]
        vals = [t for t in toks if "term" not in t]
        if len(vals) != 1 or vals[0].get("value") != want or vals[0].get("tag") != "0":
            return ("outputs-differ", f"output tokens {toks} but the failure-free output is {want!r}")
        empty_loop = c["shape"]["kind"] == "loop" and c["shape"]["iters"] == 0   # nothing runs: ports end SKIPPED
        if toks[-1] != {"term": "SKIPPED" if empty_loop else "COMPLETED"}:
            return ("outputs-differ", f"output port did not terminate as in the failure-free run: {toks}")
        bad = [s for s in o["steps"] if s[1] != "COMPLETED" and not (s[1] == "SKIPPED" and (empty_loop or s[0] in ("/body", "/cnt")))]
        if bad:
            return ("step-status", f"run completed but steps {bad}")
        return None

    # ---------------------------------------------------------------- model side
    def coq_case(self, c, o):
        if "crash" in o or "hang" in o:
            return None
        if c["f"] == "inject":
            from harness.lib.framework import coq_N
            l = coq_list([f"pt {coq_N(i)} {coq_list([coq_N(int(x)) for x in t.split('.')])} {coq_bool(a)}"
                          for i, t, a in c["toks"]])
            r = coq_opt(o.get("order"), lambda ids: coq_list([coq_N(i) for i in ids]))
            return f"CInject {l} {r}"
        v = self.oracle(c, o)
        if v and v[0] == "outputs-differ":
            # the engine completed with a different output (e.g. a gather forced with an element missing): the job-DAG
            # model has no such step, the case is outside its domain and is judged by the oracle alone
            return None
        if c["shape"]["kind"] == "loop" and c["shape"]["iters"] == 0:
            return None   # no job at all; the output is the loop-output step's Token(None)
        d, out, vol = dag_out(c["shape"])
        idx = {name: i for i, (name, _, _) in enumerate(d) if name}
        evs = [f"Exec {i}" for i, (name, _, _) in enumerate(d) if name is None]   # workflow inputs
        for e in o["trace"]:
            if e[0] == "done" and e[1] in idx:
                evs.append(f"Exec {idx[e[1]]}")
            elif e[0] == "wipe" and c["shape"]["type"] in ("file", "file2"):
                evs.extend(f"Lose {i}" for i in vol)
            elif e[0] == "wipe-partial" and c["shape"]["type"] == "file2":
                # a two-path token is available iff ALL its paths have a surviving copy: losing the secondary files loses it
                evs.extend(f"Lose {i}" for i in vol)
        completed = o["result"] == "completed"
        vals = [t for t in o["out_tokens"] if "term" not in t]
        obsv = coq_cval(vals[0]["value"]) if len(vals) == 1 and "value" in vals[0] else None
        dag = coq_list([f"jb {coq_list([coq_nat(k) for k in ins])} ({op})" for _, ins, op in d])
        return f"CRun {dag} {coq_list(evs)} {coq_nat(out)} {coq_bool(completed)} {coq_opt(obsv, lambda x: x)}"

    def nontrivial(self, c):
        if c["f"] == "inject":
            return sum(1 for t in c["toks"] if t[2]) >= 2
        return bool(c["faults"])

    def signature(self, c, o, clause):
        """clause / shape (for loops: which side of the loop loses data) / loss class / budget.
        loss class: none | soft | failstop (everything below the working directory) | partial (secondary files only);
        for outputs-differ the phases of the partial faults and, in scatters, whether a job fails in two phases are part of it.
        budget: `over` iff the fault plan itself demands, under the canonical rollback, more executions of some job than the
        limit allows (1 + demand > limit: the hypothesis of C16_completes_partial fails -- a refusal is then the boundary
        of finding 1); `within` iff the plan respects the budget, so a run that still does not complete is NOT explained
        by the budget."""
        if c["f"] == "inject":
            return f"inject/{clause}"
        kinds = {f[3] for f in c["faults"]}
        loss = "failstop" if "failstop" in kinds else "partial" if "partial" in kinds else "soft" if kinds else "none"
        if "failstop" in kinds and "partial" in kinds:
            loss = "failstop+partial"
        jobs = [(f[0], f[1]) for f in c["faults"]]
        if clause == "outputs-differ":
            part = sorted({f[2] for f in c["faults"] if f[3] == "partial"})
            if part:
                loss += "@" + "+".join(part)
            if c["shape"]["kind"] == "scatter" and len(set(jobs)) < len(jobs):
                loss += "+multiphase"   # some job fails in two different phases
        shape = c["shape"]["kind"]
        if shape == "loop":   # which side of the loop the data-losing failures hit
            reg = sorted({"pre" if f[0].startswith("/a") else "post" if f[0].startswith("/c") else "body"
                          for f in c["faults"] if f[3] in ("failstop", "partial")})
            shape += "-" + "+".join(reg) if reg else ""
        demand = predict_demand(c)
        budget = "over" if any(1 + v > c["limit"] for v in demand.values()) else "within"
        if budget == "within" and clause.endswith("exhaust-limit") and any(
                f[2] == "schedule" and f[3] in ("failstop", "partial") for f in c["faults"]):
            # a refusal the budget does not explain, in the presence of the trigger of finding 2 (data lost while a job is
            # in its schedule phase: the recovery workflow's transfer step then receives the producer's OLD token)
            loss += "@schedule"
        return f"{clause}/{shape}/{loss}/{budget}"

    def shrink(self, c):
        if c["f"] == "inject":
            for i in range(len(c["toks"])):
                yield {**c, "toks": c["toks"][:i] + c["toks"][i + 1:]}
            return
        fs = c["faults"]
        for i in range(len(fs)):
            if len(fs) > 1:
                yield {**c, "faults": fs[:i] + fs[i + 1:]}
        for i in range(len(fs)):
            if fs[i][4] > 1 :
                yield {**c, "faults": fs[:i] + [fs[i][:4] + [fs[i][4] - 1]] + fs[i + 1:]}
        if c.get("sched") is not None:
            yield {**c, "sched": None}
        sh = c["shape"]
        if sh["kind"] == "scatter" and sh["width"] > 1 and "last" not in c:
            w = sh["width"] - 1
            if all(not (f[1].startswith("0.") and int(f[1].split(".")[1]) >= w) for f in fs):
                yield {**c, "shape": {**sh, "width": w}}
        if sh["kind"] == "pipeline" and sh["n"] > 1 and all(f[0] != f"/s{sh['n'] - 1}" for f in fs):
            yield {**c, "shape": {**sh, "n": sh["n"] - 1}}


PROP = C16()
