"""Concrete subclasses of StreamFlow's generic (abstract) step classes, used by the C08 check: their save / load
is entirely the one of the generic class.  Imported only in worker processes (and by get_class_from_name on load)."""
from streamflow.workflow.step import ConditionalStep, InputInjectorStep, LoopOutputStep, TransferStep, Transformer


class PlainTransformer(Transformer):
    async def transform(self, inputs):
        return inputs


class PlainConditional(ConditionalStep):
    async def _eval(self, inputs):
        return True

    async def _on_true(self, inputs):
        return None

    async def _on_false(self, inputs):
        return None


class PlainLoopOutput(LoopOutputStep):
    async def _process_output(self, tag):
        return None


class JobInTransfer(TransferStep):
    async def transfer(self, job, token):
        return token


class JobInInjector(InputInjectorStep):
    async def process_input(self, job, token_value):
        return token_value
